(** Real-number side of C15: the per-step test is the Euclidean norm test, and for sampled
    linear relaxation (independent modes  y_i(n) = y*_i + a_i r_i^n ) a converged step bounds the
    distance to the steady state.  Uses Coq.Reals (classical real axioms; recorded). *)
From Coq Require Import Reals Lra Psatz QArith Qreals List.
Import ListNotations.
From Steady Require Import SteadyLoop SteadyLoopProofs.
Local Open Scope R_scope.

Definition sumsqR (d : list R) : R := fold_right (fun x acc => x * x + acc) 0 d.
Definition norm2 (d : list R) : R := sqrt (sumsqR d).

Fixpoint vsubR (b a : list R) : list R :=
  match b, a with
  | x :: b', z :: a' => (x - z) :: vsubR b' a'
  | _, _ => []
  end.
Fixpoint vrelR (b a : list R) : list R :=
  match b, a with
  | x :: b', z :: a' => ((x - z) / z) :: vrelR b' a'
  | _, _ => []
  end.

Lemma Q2R_0' : Q2R 0 = 0.
Proof. unfold Q2R. simpl. lra. Qed.

Lemma sumsqR_nonneg d : 0 <= sumsqR d.
Proof. induction d as [|x d IH]; simpl; [lra | nra]. Qed.

Lemma Q2R_sumsq d : Q2R (sumsq d) = sumsqR (map Q2R d).
Proof.
  induction d as [|x d IH]; [apply Q2R_0'|].
  rewrite sumsq_cons, Q2R_plus, Q2R_mult, IH. reflexivity.
Qed.

Lemma map_Q2R_vsub : forall b a, map Q2R (vsub b a) = vsubR (map Q2R b) (map Q2R a).
Proof.
  induction b as [|x b IH]; intros [|z a]; simpl; try reflexivity.
  rewrite Q2R_minus, IH. reflexivity.
Qed.

Lemma map_Q2R_vrel : forall b a, nonzero a -> map Q2R (vrel b a) = vrelR (map Q2R b) (map Q2R a).
Proof.
  induction b as [|x b IH]; intros [|z a] Hnz; simpl; try reflexivity.
  inversion Hnz as [|? ? Hz Hnz']; subst.
  rewrite (IH a Hnz'). unfold Qdiv. rewrite Q2R_mult, Q2R_minus, (Q2R_inv _ Hz). reflexivity.
Qed.

Lemma sqrt_lt_iff s tol : 0 <= s -> (sqrt s < tol <-> 0 < tol /\ s < tol * tol).
Proof.
  intros Hs. pose proof (sqrt_pos s) as Hp. pose proof (sqrt_sqrt s Hs) as Hss. split.
  - intros H. split; [lra | nra].
  - intros [Ht Hlt]. destruct (Rlt_le_dec (sqrt s) tol) as [H|H]; [exact H | exfalso; nra].
Qed.

(** the model's square-root-free test IS the Euclidean norm test of the code *)
Lemma conv_abs_norm F (HL : L2Lt F) tol a b : length a = length b ->
  (conv F tol false a b = true <-> norm2 (vsubR (map Q2R b) (map Q2R a)) < Q2R tol).
Proof.
  intros Hl. rewrite (conv_abs_iff F HL tol a b Hl). unfold norm2.
  rewrite <- map_Q2R_vsub, <- Q2R_sumsq, sqrt_lt_iff by (rewrite Q2R_sumsq; apply sumsqR_nonneg).
  rewrite <- Q2R_0', <- Q2R_mult. split; intros [H1 H2]; split;
    first [apply Qlt_Rlt; assumption | apply Rlt_Qlt; assumption].
Qed.

Lemma conv_rel_norm F (HL : L2Lt F) tol a b : length a = length b ->
  (conv F tol true a b = true <->
   nonzero a /\ norm2 (vrelR (map Q2R b) (map Q2R a)) < Q2R tol).
Proof.
  intros Hl. rewrite (conv_rel_iff F HL tol a b Hl). unfold norm2. split.
  - intros [Hnz [H1 H2]]. split; [exact Hnz|].
    rewrite <- (map_Q2R_vrel b a Hnz), <- Q2R_sumsq, sqrt_lt_iff by (rewrite Q2R_sumsq; apply sumsqR_nonneg).
    rewrite <- Q2R_0', <- Q2R_mult. split; apply Qlt_Rlt; assumption.
  - intros [Hnz H]. split; [exact Hnz|].
    rewrite <- (map_Q2R_vrel b a Hnz), <- Q2R_sumsq, sqrt_lt_iff in H by (rewrite Q2R_sumsq; apply sumsqR_nonneg).
    rewrite <- Q2R_0', <- Q2R_mult in H. destruct H as [H1 H2]. split; apply Rlt_Qlt; assumption.
Qed.

(** ** sampled relaxation *)

Record mode := mkMode { m_star : R; m_amp : R; m_r : R }.   (* y_i n = star + amp * r^n *)
Definition relax (ms : list mode) (n : nat) : list R :=
  map (fun m => m_star m + m_amp m * m_r m ^ n) ms.
Definition stars (ms : list mode) : list R := map m_star ms.
(** every mode at least halves over one sampling step *)
Definition FastModes (ms : list mode) : Prop := Forall (fun m => 0 <= m_r m <= 1 / 2) ms.

Lemma sumsqR_cons x d : sumsqR (x :: d) = x * x + sumsqR d.
Proof. reflexivity. Qed.
Lemma relax_cons m ms k : relax (m :: ms) k = (m_star m + m_amp m * m_r m ^ k) :: relax ms k.
Proof. reflexivity. Qed.
Lemma stars_cons m ms : stars (m :: ms) = m_star m :: stars ms.
Proof. reflexivity. Qed.
Lemma vsubR_cons x b z a : vsubR (x :: b) (z :: a) = (x - z) :: vsubR b a.
Proof. reflexivity. Qed.

Lemma relax_sumsq_bound ms n : FastModes ms ->
  sumsqR (vsubR (relax ms (S n)) (stars ms)) <= sumsqR (vsubR (relax ms (S n)) (relax ms n)).
Proof.
  induction 1 as [|m ms Hm _ IH]; [simpl; lra|].
  rewrite !relax_cons, stars_cons, !vsubR_cons, !sumsqR_cons.
  replace (m_star m + m_amp m * m_r m ^ S n - m_star m) with (m_amp m * m_r m ^ n * m_r m) by (simpl; ring).
  replace (m_star m + m_amp m * m_r m ^ S n - (m_star m + m_amp m * m_r m ^ n))
    with (m_amp m * m_r m ^ n * (m_r m - 1)) by (simpl; ring).
  set (u := m_amp m * m_r m ^ n).
  assert (u * m_r m * (u * m_r m) <= u * (m_r m - 1) * (u * (m_r m - 1))).
  { assert (0 <= u * u) by nra.
    assert (m_r m * m_r m <= (m_r m - 1) * (m_r m - 1)) by nra.
    replace (u * m_r m * (u * m_r m)) with (u * u * (m_r m * m_r m)) by ring.
    replace (u * (m_r m - 1) * (u * (m_r m - 1))) with (u * u * ((m_r m - 1) * (m_r m - 1))) by ring.
    apply Rmult_le_compat_l; assumption. }
  lra.
Qed.

Lemma relax_distance_bound ms n : FastModes ms ->
  norm2 (vsubR (relax ms (S n)) (stars ms)) <= norm2 (vsubR (relax ms (S n)) (relax ms n)).
Proof.
  intros H. unfold norm2. apply sqrt_le_1_alt. apply relax_sumsq_bound. exact H.
Qed.

(** scalar, any contraction factor: the distance is EXACTLY r/(1-r) times the last change, so
    slower relaxation (r > 1/2) gives a state further away than the tolerance *)
Lemma relax_scalar_exact ystar a r n : 0 <= r < 1 ->
  Rabs ((ystar + a * r ^ S n) - ystar) = r / (1 - r) * Rabs ((ystar + a * r ^ S n) - (ystar + a * r ^ n)).
Proof.
  intros Hr. cbn [pow].
  replace (ystar + a * (r * r ^ n) - ystar) with (r * (a * r ^ n)) by ring.
  replace (ystar + a * (r * r ^ n) - (ystar + a * r ^ n)) with (- (1 - r) * (a * r ^ n)) by ring.
  rewrite !Rabs_mult, Rabs_Ropp, (Rabs_pos_eq r), (Rabs_pos_eq (1 - r)) by lra.
  field. lra.
Qed.

(** link with the continuous flow y(t) = ystar + (y0 - ystar) exp(lam t) sampled every h *)
Lemma exp_sample lam h n : exp (lam * (INR n * h)) = exp (lam * h) ^ n.
Proof.
  induction n as [|n IH].
  - simpl. rewrite Rmult_0_l, Rmult_0_r. apply exp_0.
  - rewrite S_INR. cbn [pow]. rewrite <- IH, <- exp_plus. f_equal. ring.
Qed.

Lemma exp_halving lam h : lam * h <= - ln 2 -> 0 <= exp (lam * h) <= 1 / 2.
Proof.
  intros H. split; [left; apply exp_pos|].
  assert (E : exp (- ln 2) = 1 / 2).
  { rewrite exp_Ropp, exp_ln by lra. lra. }
  rewrite <- E. destruct H as [H|H]; [left; apply exp_increasing; exact H | right; rewrite H; reflexivity].
Qed.

Definition flow_mode (lam h ystar y0 : R) : mode := mkMode ystar (y0 - ystar) (exp (lam * h)).

Lemma flow_mode_sample lam h ystar y0 n :
  ystar + (y0 - ystar) * exp (lam * (INR n * h)) = m_star (flow_mode lam h ystar y0) +
     m_amp (flow_mode lam h ystar y0) * m_r (flow_mode lam h ystar y0) ^ n.
Proof. unfold flow_mode; cbn. rewrite exp_sample. reflexivity. Qed.

Lemma flow_modes_fast h (l : list (R * R * R)) :
  Forall (fun p => fst (fst p) * h <= - ln 2) l ->
  FastModes (map (fun p => flow_mode (fst (fst p)) h (snd (fst p)) (snd p)) l).
Proof.
  induction 1 as [|p l Hp _ IH]; constructor; [|exact IH]. cbn. apply exp_halving. exact Hp.
Qed.

(** flux imbalance of the linear system  dy_i/dt = lam_i (y_i - ystar_i)  at a state v *)
Fixpoint scaleR (lams e : list R) : list R :=
  match lams, e with
  | l :: lams', x :: e' => (l * x) :: scaleR lams' e'
  | _, _ => []
  end.

Lemma scale_sumsq_bound L : 0 <= L -> forall lams e, Forall (fun l => Rabs l <= L) lams ->
  sumsqR (scaleR lams e) <= L * L * sumsqR e.
Proof.
  intros HL lams. induction lams as [|l lams IH]; intros e Hl.
  - simpl. pose proof (sumsqR_nonneg e). nra.
  - destruct e as [|x e]; [simpl; nra|]. inversion Hl as [|? ? Hl1 Hl2]; subst.
    cbn [scaleR sumsqR fold_right]. fold sumsqR. specialize (IH e Hl2).
    assert (l * l <= L * L).
    { assert (Hb : - L <= l <= L) by (revert Hl1; unfold Rabs; destruct (Rcase_abs l); intros; lra). nra. }
    assert (0 <= x * x) by nra.
    replace (l * x * (l * x)) with (l * l * (x * x)) by ring.
    assert (l * l * (x * x) <= L * L * (x * x)) by (apply Rmult_le_compat_r; assumption).
    fold (sumsqR (scaleR lams e)). fold (sumsqR e). lra.
Qed.

Lemma scale_norm_bound L lams e : 0 <= L -> Forall (fun l => Rabs l <= L) lams ->
  norm2 (scaleR lams e) <= L * norm2 e.
Proof.
  intros HL Hl. unfold norm2.
  rewrite <- (sqrt_square L HL) at 1. rewrite <- sqrt_mult by (try nra; apply sumsqR_nonneg).
  apply sqrt_le_1_alt. apply scale_sumsq_bound; assumption.
Qed.

(** ** the loop on a sampled relaxation *)

Lemma steady_distance_bound F (HF : CopyFacts F) (HL : L2Lt F) tol (y : nat -> vec) ms :
  FastModes ms ->
  (forall n, map Q2R (y n) = relax ms n) ->
  forall t v, ss_run F tol false (y 0%nat) y = SSSteady t v ->
    exists n, (n < N.to_nat (sf_max_steps F))%nat /\ v = y (S n) /\
      norm2 (vsubR (map Q2R v) (stars ms)) <= norm2 (vsubR (map Q2R (y (S n))) (map Q2R (y n)))
      /\ norm2 (vsubR (map Q2R (y (S n))) (map Q2R (y n))) < Q2R tol.
Proof.
  intros Hfast Hy t v E.
  assert (Hs : forall n, length (y n) = length (y 0%nat)).
  { intro n. rewrite <- (map_length Q2R (y n)), <- (map_length Q2R (y 0%nat)), !Hy.
    unfold relax. rewrite !map_length. reflexivity. }
  destruct (run_steady_sound F HF tol false y Hs t v E) as [n [Hn [Hc [_ [_ Hv]]]]].
  exists n. split; [exact Hn|]. split; [exact Hv|]. subst v.
  apply (conv_abs_norm F HL) in Hc; [|rewrite (Hs n), (Hs (S n)); reflexivity].
  split; [|exact Hc]. rewrite !Hy. apply relax_distance_bound. exact Hfast.
Qed.

Lemma steady_flux_bound F (HF : CopyFacts F) (HL : L2Lt F) tol (y : nat -> vec) ms lams L :
  FastModes ms -> 0 <= L -> Forall (fun l => Rabs l <= L) lams ->
  (forall n, map Q2R (y n) = relax ms n) ->
  forall t v, ss_run F tol false (y 0%nat) y = SSSteady t v ->
    norm2 (vsubR (map Q2R v) (stars ms)) < Q2R tol
    /\ norm2 (scaleR lams (vsubR (map Q2R v) (stars ms))) <= L * Q2R tol.
Proof.
  intros Hfast HLpos Hl Hy t v E.
  destruct (steady_distance_bound F HF HL tol y ms Hfast Hy t v E) as [n [_ [_ [H1 H2]]]].
  assert (Hd : norm2 (vsubR (map Q2R v) (stars ms)) < Q2R tol) by lra.
  split; [exact Hd|].
  apply Rle_trans with (L * norm2 (vsubR (map Q2R v) (stars ms))).
  - apply scale_norm_bound; assumption.
  - apply Rmult_le_compat_l; lra.
Qed.
