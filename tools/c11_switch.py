#!/usr/bin/env python3
"""tools/c11_switch.py snapshot|repaired [commit]

Keeps the two hand-maintained places of the C11 check consistent with the tree in /repo:
  snapshot   /repo stores generated definitions with `functions[key] = ...` (the state before
             fixes/C11-function-name-collisions.diff): ExpectedFacts.v expects RegOverwrite and the three
             defects are recorded findings;
  repaired   the diff is applied (`fix:` commit <commit>): ExpectedFacts.v expects RegFresh and the
             three defects are listed under "fixed" (they suppress nothing: a reappearance is a VIOLATION).
Then runs tools/mkmanifest.py (idempotent merge of known_findings.d / manifest_src.d)."""
import json, re, subprocess, sys
from pathlib import Path

V = Path(__file__).resolve().parent.parent
mode = sys.argv[1] if len(sys.argv) > 1 else ""
if mode not in ("snapshot", "repaired"):
    sys.exit(__doc__)
commit = sys.argv[2] if len(sys.argv) > 2 else "<commit-to-be-filled>"
src = json.loads((V / "harness/c11_findings.json").read_text())
ef = V / "coq/mxlgen/ExpectedFacts.v"
text = ef.read_text()
want = "RegOverwrite" if mode == "snapshot" else "RegFresh"
new = re.sub(r"(Definition C11_expected_register : register_mode := )\w+\.", rf"\g<1>{want}.", text)
if new != text:
    ef.write_text(new)
if mode == "snapshot":
    kf = {"findings": src["findings"], "fixed": []}
else:
    kf = {"findings": [], "fixed": [
        f"fixed: property=C11 {commit} {src['fixed_text'][f['id']]} (id {f['id']}; demo: {src['demo']}; fix: {src['fix']})"
        for f in src["findings"]]}
# entries of the second switch (tools/c11_emit_switch.py) are not this tool's business: keep them
try:
    old = json.loads((V / "known_findings.d/C11.json").read_text())
except (OSError, ValueError):
    old = {}
kf["findings"] += [f for f in old.get("findings", []) if str(f.get("id", "")).startswith("C11-emit-")]
kf["fixed"] += [x for x in old.get("fixed", []) if "(id C11-emit-" in x]
(V / "known_findings.d/C11.json").write_text(json.dumps(kf, indent=1) + "\n")
subprocess.run([sys.executable, str(V / "tools/mkmanifest.py")], check=True)
print(f"C11 check now expects the {mode} generator ({want})")
