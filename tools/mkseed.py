import json, sys
pid = sys.argv[1]; wt = sys.argv[2]
t = open('/verif/tools/seed_prompt.txt').read()
for l in open('/verif/properties.jsonl'):
    d = json.loads(l)
    if d['id'] == pid:
        anchors = "; ".join(f"{m['name']} ({m['where']})" for m in d['anchors']['mechanism'])
        print(t.replace('{WT}', wt).replace('{ID}', pid).replace('{TITLE}', d['title']).replace('{STATEMENT}', d['statement'])
               .replace('{QUANT}', d['quantifier']['text']).replace('{ANCHORS}', anchors))
