import json, sys, glob
pid = sys.argv[1]; wt = sys.argv[2]
t = open('/verif/tools/seed_prompt.txt').read()
tried = []
for f in sorted(glob.glob(f'/verif/seeded/{pid}-*/meta.json')):
    try:
        m = json.load(open(f))
        tried.append(" ".join((m.get('breaks') or '').split())[:400])
    except Exception:
        pass
for l in open('/verif/properties.jsonl'):
    d = json.loads(l)
    if d['id'] == pid:
        anchors = "; ".join(f"{m['name']} ({m['where']})" for m in d['anchors']['mechanism'])
        out = (t.replace('{WT}', wt).replace('{ID}', pid).replace('{TITLE}', d['title']).replace('{STATEMENT}', d['statement'])
               .replace('{QUANT}', d['quantifier']['text']).replace('{ANCHORS}', anchors))
        if tried:
            out += ("\n\nOther engineers have ALREADY produced the following changes for this property; do NOT repeat these mechanisms or close variants of them "
                    "(different functions, different kinds of mistake, different clauses of the property statement are wanted — look at clauses of the statement "
                    "that none of these touches):\n" + "\n".join(f"- {x}" for x in tried))
        print(out)
