#!/usr/bin/env python3
"""tools/c07_switch.py ia|untouched|bind snapshot|repaired [commit]

Keeps the hand-maintained places of the C07 check consistent with the tree in /repo, one repair at a time:

  ia         fixes/C07-assigned-parameter-value.diff (parameters defined by an initial assignment are emitted with the
             value the model holds).  snapshot: coq/codegen/ExpectedFacts.v expects IaDropped, the defect is the recorded
             finding assigned-parameter-not-emitted.  repaired: expects IaFrozen, the defect moves to "fixed" and the
             narrower residual finding assigned-parameter-reads-free-parameter is recorded.
  untouched  fixes/C07-untouched-variable-zero.diff (a variable no reaction acts on gets `d<x>dt = 0.0` when diff_eqs is
             not empty).  snapshot: expects UtDropped, finding variable-without-reaction.  repaired: expects UtZero, the
             defect moves to "fixed" (the case "no reaction acts on anything" is the separate finding
             no-equation-unit-return, pinned by the goldens, under either value).
  bind       fixes/C07-empty-argument-list-strict.diff (source_tools.py::fn_to_sympy binds the parameters strictly also when
             the argument list is EMPTY).  snapshot: expects BkStrictNonEmpty, finding defaulted-parameters-no-arguments.
             repaired: expects BkStrict, the defect moves to "fixed".

Then runs tools/mkmanifest.py (idempotent merge of known_findings.d / manifest_src.d)."""
import json, re, subprocess, sys
from pathlib import Path

V = Path(__file__).resolve().parent.parent
which = sys.argv[1] if len(sys.argv) > 1 else ""
mode = sys.argv[2] if len(sys.argv) > 2 else ""
if which not in ("ia", "untouched", "bind") or mode not in ("snapshot", "repaired"):
    sys.exit(__doc__)
commit = sys.argv[3] if len(sys.argv) > 3 else "<commit-to-be-filled>"

PT = [["0", ["3", "5"], []]]
FIND = {
    "ia": {
        "property": "C07",
        "id": "assigned-parameter-not-emitted",
        "call_site": "src/mxlpy/meta/codegen_model.py _generate_model_code (parameters = dict(model.get_parameter_values()): plain parameters only)",
        "guard": "the model has a parameter defined by an InitialAssignment (complement of the left disjunct NoAssignedParams in C07_equiv_partial while C07_expected_ia = IaDropped)",
        "witness": {"kind": "case", "lang": "py",
                    "desc": {"par": [[11, "2", None], [12, "4", [6, [11]]]], "var": [[13, "1"]], "der": [],
                             "rxn": [[14, 4, [12, 13], [[13, ["stat", "-1"]]]]], "free": []},
                    "points": [["0", ["3"], []]]},
        "what_fails": "a parameter defined by an initial assignment is never emitted, so the generated function reads an unbound name (NameError / ReferenceError / E0425) (Coq: C07_assigned_parameter_refuted). Proposed repair fixes/C07-assigned-parameter-value.diff (add every parameter name missing from get_parameter_values() with the cache's all_parameter_values entry; goldens and the full suite unchanged; demo findings/c07_assigned_parameter.py; the repaired generator is theorem C07_assigned_parameter_emitted): recorded until the lead applies it, then `tools/c07_switch.py ia repaired <commit>`",
    },
    "untouched": {
        "property": "C07",
        "id": "variable-without-reaction",
        "call_site": "src/mxlpy/meta/codegen_model.py _generate_model_code (ret_order = [i for i in variables if i in diff_eqs])",
        "guard": "some reaction acts on something (diff_eqs is not empty) and some variable is not in the stoichiometry of any reaction (complement of the left disjunct EveryVariableHasReaction in C07_equiv_partial while C07_expected_untouched = UtDropped, minus the finding no-equation-unit-return)",
        "witness": {"kind": "case", "lang": "ts",
                    "desc": {"par": [[11, "2", None]], "var": [[12, "1"], [13, "2"]], "der": [],
                             "rxn": [[14, 4, [11, 12], [[12, ["stat", "-1"]]]]], "free": []},
                    "points": PT},
        "what_fails": "a variable without a reaction is dropped from the returned list instead of contributing a zero: 1 value for 2 variables (Rust: the [f64; n] return type no longer matches) (Coq: C07_variable_without_reaction_refuted). Proposed repair fixes/C07-untouched-variable-zero.diff (emit `d<x>dt = 0.0` for such variables when diff_eqs is not empty; goldens and the full suite unchanged; demo findings/c07_untouched_variable.py; the repaired generator is theorem C07_untouched_variable_zero): recorded until the lead applies it, then `tools/c07_switch.py untouched repaired <commit>`",
    },
}
FIND["bind"] = {
    "property": "C07",
    "id": "defaulted-parameters-no-arguments",
    "call_site": "src/mxlpy/meta/source_tools.py fn_to_sympy (`if model_args is not None and len(model_args):` guards the strict zip of parameter names and arguments)",
    "guard": "a function all of whose positional parameters have default values is called with NO argument -- a nested helper call `k()` inside a rate / derived / coefficient function, or a computed coefficient Derived(fn=f, args=[]) (Model rejects the arity of rates and derived quantities itself): the complement of the guard `acts <> []` of C07_call_no_parameter_left_behind / C07_call_value / C07_call_relying_on_default_refused while C07_expected_bind = BkStrictNonEmpty",
    "witness": {"kind": "case", "lang": "py",
                "desc": {"par": [[11, "4", None]], "var": [[12, "1"], [13, "2"]], "der": [],
                         "rxn": [[20, 36, [12], [[12, ["stat", "-1"]], [13, ["stat", "1"]]]]], "free": []},
                "points": PT},
    "what_fails": "rate u_empty_helper(a) = a * k_two() with k_two(n0011=2.0) = n0011 * 3.0: fn_to_sympy skips the binding for the empty argument list, the helper's parameter stays in the expression as the bare symbol n0011 and generation succeeds in all four languages instead of raising; the emitted `3.0*n0011*n0012` reads the model's parameter n0011 = 4 (36 at n0012 = 3) where the model returns 18, and an undefined name when the model has no such component (Coq: C07_empty_call_leaks_refuted; C07_empty_call_raises for the repaired form). Proposed repair fixes/C07-empty-argument-list-strict.diff (`if model_args is not None:`; full suite unchanged 1378/761; demo findings/c07_empty_argument_list.py): recorded until the lead applies it, then `tools/c07_switch.py bind repaired <commit>`",
}
RESIDUAL = {
    "property": "C07",
    "id": "assigned-parameter-reads-free-parameter",
    "call_site": "src/mxlpy/meta/codegen_model.py _generate_model_code (parameters[name] = float(all_parameter_values[name]) for the assignment-defined parameters)",
    "guard": "a parameter defined by an InitialAssignment reads (directly or through derived values) a parameter that is requested as a free parameter: the emitted value is the one at generation time, whereas Model.update_parameters re-resolves the assignment (the Coq model takes the value of an assignment-defined parameter as given, so C07_equiv_partial's premise Resolved does not cover this dependency; the generator of the check never produces it)",
    "witness": {"kind": "case", "lang": "py",
                "desc": {"par": [[11, "2", None], [12, "2", [0, [11]]]], "var": [[13, "1"]], "der": [],
                         "rxn": [[14, 4, [12, 13], [[13, ["stat", "-1"]]]]], "free": [11]},
                "points": [["0", ["3"], ["5"]]]},
    "what_fails": "par p2 := assignment f_id(p1), free parameter p1: the generated function keeps p2 = 2.0 (its value at generation time) when called with p1 = 5 and returns -6; the model with p1 updated to 5 re-resolves p2 = 5 and returns -15. A repair needs the assignment emitted as an expression over parameters and INITIAL conditions (not the current state): not small",
}
FIXED = {
    "ia": (f"fixed: property=C07 {commit} a parameter defined by an initial assignment was never emitted, so the generated function read an unbound "
           "name; every parameter name missing from get_parameter_values() is now added with the value the model holds for it "
           "(fixes/C07-assigned-parameter-value.diff; demo findings/c07_assigned_parameter.py; Coq: C07_assigned_parameter_emitted, the "
           "unrepaired generator is regression theorem C07_assigned_parameter_refuted; id assigned-parameter-not-emitted)"),
    "untouched": (f"fixed: property=C07 {commit} a variable no reaction acts on was dropped from the returned list (1 value for 2 variables; Rust "
                  "return type mismatch); it now gets the line d<x>dt = 0.0 whenever diff_eqs is not empty "
                  "(fixes/C07-untouched-variable-zero.diff; demo findings/c07_untouched_variable.py; Coq: C07_untouched_variable_zero, the "
                  "unrepaired generator is regression theorem C07_variable_without_reaction_refuted; id variable-without-reaction)"),
}
FIXED["bind"] = (f"fixed: property=C07 {commit} fn_to_sympy skipped the binding of parameter names to arguments when a call passed NO argument, so a "
                 "function all of whose parameters have defaults (a helper called as k(), a computed coefficient over no argument) was "
                 "'translated' with its parameters left behind as bare symbols and generation emitted code reading a like-named model "
                 "component (or an undefined name) instead of raising; the strict zip now also runs for an empty argument list "
                 "(fixes/C07-empty-argument-list-strict.diff; demo findings/c07_empty_argument_list.py; Coq: C07_empty_call_raises, the "
                 "unrepaired binding is regression theorem C07_empty_call_leaks_refuted; id defaulted-parameters-no-arguments)")
LINE = {"ia": ("C07_expected_ia : ia_kind", {"snapshot": "IaDropped", "repaired": "IaFrozen"}),
        "untouched": ("C07_expected_untouched : ut_kind", {"snapshot": "UtDropped", "repaired": "UtZero"}),
        "bind": ("C07_expected_bind : bind_kind", {"snapshot": "BkStrictNonEmpty", "repaired": "BkStrict"})}

ef = V / "coq/codegen/ExpectedFacts.v"
text = ef.read_text()
lhs, vals = LINE[which]
new = re.sub(rf"(Definition {re.escape(lhs)} := )\w+\.", rf"\g<1>{vals[mode]}.", text)
if new != text:
    ef.write_text(new)
kfp = V / "known_findings.d/C07.json"
kf = json.loads(kfp.read_text())
fid = FIND[which]["id"]
drop = {fid} | ({RESIDUAL["id"]} if which == "ia" else set())
kf["findings"] = [f for f in kf.get("findings", []) if f.get("id") not in drop]
kf["fixed"] = [x for x in kf.get("fixed", []) if f"id {fid})" not in x]
if mode == "snapshot":
    kf["findings"].append(FIND[which])
else:
    kf["fixed"].append(FIXED[which])
    if which == "ia":
        kf["findings"].append(RESIDUAL)
kfp.write_text(json.dumps(kf, indent=1) + "\n")
subprocess.run([sys.executable, str(V / "tools/mkmanifest.py")], check=True)
print(f"C07 check now expects {vals[mode]} ({which}: {mode})")
