#!/usr/bin/env python3
"""tools/c07_switch.py ia|untouched snapshot|repaired [commit]

Keeps the hand-maintained places of the C07 check consistent with the tree in /repo, one repair at a time:

  ia         fixes/C07-assigned-parameter-value.diff (parameters defined by an initial assignment are emitted with the
             value the model holds).  snapshot: coq/codegen/ExpectedFacts.v expects IaDropped, the defect is the recorded
             finding assigned-parameter-not-emitted.  repaired: expects IaFrozen, the defect moves to "fixed" and the
             narrower residual finding assigned-parameter-reads-free-parameter is recorded.
  untouched  fixes/C07-untouched-variable-zero.diff (a variable no reaction acts on gets `d<x>dt = 0.0` when diff_eqs is
             not empty).  snapshot: expects UtDropped, finding variable-without-reaction.  repaired: expects UtZero, the
             defect moves to "fixed" (the case "no reaction acts on anything" is the separate finding
             no-equation-unit-return, pinned by the goldens, under either value).

Then runs tools/mkmanifest.py (idempotent merge of known_findings.d / manifest_src.d)."""
import json, re, subprocess, sys
from pathlib import Path

V = Path(__file__).resolve().parent.parent
which = sys.argv[1] if len(sys.argv) > 1 else ""
mode = sys.argv[2] if len(sys.argv) > 2 else ""
if which not in ("ia", "untouched") or mode not in ("snapshot", "repaired"):
    sys.exit(__doc__)
commit = sys.argv[3] if len(sys.argv) > 3 else "<commit-to-be-filled>"

PT = [["0", ["3", "5"], []]]
FIND = {
    "ia": {
        "property": "C07",
        "id": "assigned-parameter-not-emitted",
        "call_site": "src/mxlpy/meta/codegen_model.py _generate_model_code (parameters = dict(model.get_parameter_values()): plain parameters only)",
        "guard": "the model has a parameter defined by an InitialAssignment (complement of the left disjunct NoAssignedParams in C07_equiv_partial while C07_expected_ia = IaDropped)",
        "witness": {"kind": "case", "lang": "py",
                    "desc": {"par": [[11, "2", None], [12, "4", [6, [11]]]], "var": [[13, "1"]], "der": [],
                             "rxn": [[14, 4, [12, 13], [[13, ["stat", "-1"]]]]], "free": []},
                    "points": [["0", ["3"], []]]},
        "what_fails": "a parameter defined by an initial assignment is never emitted, so the generated function reads an unbound name (NameError / ReferenceError / E0425) (Coq: C07_assigned_parameter_refuted). Proposed repair fixes/C07-assigned-parameter-value.diff (add every parameter name missing from get_parameter_values() with the cache's all_parameter_values entry; goldens and the full suite unchanged; demo findings/c07_assigned_parameter.py; the repaired generator is theorem C07_assigned_parameter_emitted): recorded until the lead applies it, then `tools/c07_switch.py ia repaired <commit>`",
    },
    "untouched": {
        "property": "C07",
        "id": "variable-without-reaction",
        "call_site": "src/mxlpy/meta/codegen_model.py _generate_model_code (ret_order = [i for i in variables if i in diff_eqs])",
        "guard": "some reaction acts on something (diff_eqs is not empty) and some variable is not in the stoichiometry of any reaction (complement of the left disjunct EveryVariableHasReaction in C07_equiv_partial while C07_expected_untouched = UtDropped, minus the finding no-equation-unit-return)",
        "witness": {"kind": "case", "lang": "ts",
                    "desc": {"par": [[11, "2", None]], "var": [[12, "1"], [13, "2"]], "der": [],
                             "rxn": [[14, 4, [11, 12], [[12, ["stat", "-1"]]]]], "free": []},
                    "points": PT},
        "what_fails": "a variable without a reaction is dropped from the returned list instead of contributing a zero: 1 value for 2 variables (Rust: the [f64; n] return type no longer matches) (Coq: C07_variable_without_reaction_refuted). Proposed repair fixes/C07-untouched-variable-zero.diff (emit `d<x>dt = 0.0` for such variables when diff_eqs is not empty; goldens and the full suite unchanged; demo findings/c07_untouched_variable.py; the repaired generator is theorem C07_untouched_variable_zero): recorded until the lead applies it, then `tools/c07_switch.py untouched repaired <commit>`",
    },
}
RESIDUAL = {
    "property": "C07",
    "id": "assigned-parameter-reads-free-parameter",
    "call_site": "src/mxlpy/meta/codegen_model.py _generate_model_code (parameters[name] = float(all_parameter_values[name]) for the assignment-defined parameters)",
    "guard": "a parameter defined by an InitialAssignment reads (directly or through derived values) a parameter that is requested as a free parameter: the emitted value is the one at generation time, whereas Model.update_parameters re-resolves the assignment (the Coq model takes the value of an assignment-defined parameter as given, so C07_equiv_partial's premise Resolved does not cover this dependency; the generator of the check never produces it)",
    "witness": {"kind": "case", "lang": "py",
                "desc": {"par": [[11, "2", None], [12, "2", [0, [11]]]], "var": [[13, "1"]], "der": [],
                         "rxn": [[14, 4, [12, 13], [[13, ["stat", "-1"]]]]], "free": [11]},
                "points": [["0", ["3"], ["5"]]]},
    "what_fails": "par p2 := assignment f_id(p1), free parameter p1: the generated function keeps p2 = 2.0 (its value at generation time) when called with p1 = 5 and returns -6; the model with p1 updated to 5 re-resolves p2 = 5 and returns -15. A repair needs the assignment emitted as an expression over parameters and INITIAL conditions (not the current state): not small",
}
FIXED = {
    "ia": (f"fixed: property=C07 {commit} a parameter defined by an initial assignment was never emitted, so the generated function read an unbound "
           "name; every parameter name missing from get_parameter_values() is now added with the value the model holds for it "
           "(fixes/C07-assigned-parameter-value.diff; demo findings/c07_assigned_parameter.py; Coq: C07_assigned_parameter_emitted, the "
           "unrepaired generator is regression theorem C07_assigned_parameter_refuted; id assigned-parameter-not-emitted)"),
    "untouched": (f"fixed: property=C07 {commit} a variable no reaction acts on was dropped from the returned list (1 value for 2 variables; Rust "
                  "return type mismatch); it now gets the line d<x>dt = 0.0 whenever diff_eqs is not empty "
                  "(fixes/C07-untouched-variable-zero.diff; demo findings/c07_untouched_variable.py; Coq: C07_untouched_variable_zero, the "
                  "unrepaired generator is regression theorem C07_variable_without_reaction_refuted; id variable-without-reaction)"),
}
LINE = {"ia": ("C07_expected_ia : ia_kind", {"snapshot": "IaDropped", "repaired": "IaFrozen"}),
        "untouched": ("C07_expected_untouched : ut_kind", {"snapshot": "UtDropped", "repaired": "UtZero"})}

ef = V / "coq/codegen/ExpectedFacts.v"
text = ef.read_text()
lhs, vals = LINE[which]
new = re.sub(rf"(Definition {re.escape(lhs)} := )\w+\.", rf"\g<1>{vals[mode]}.", text)
if new != text:
    ef.write_text(new)
kfp = V / "known_findings.d/C07.json"
kf = json.loads(kfp.read_text())
fid = FIND[which]["id"]
drop = {fid} | ({RESIDUAL["id"]} if which == "ia" else set())
kf["findings"] = [f for f in kf.get("findings", []) if f.get("id") not in drop]
kf["fixed"] = [x for x in kf.get("fixed", []) if f"id {fid})" not in x]
if mode == "snapshot":
    kf["findings"].append(FIND[which])
else:
    kf["fixed"].append(FIXED[which])
    if which == "ia":
        kf["findings"].append(RESIDUAL)
kfp.write_text(json.dumps(kf, indent=1) + "\n")
subprocess.run([sys.executable, str(V / "tools/mkmanifest.py")], check=True)
print(f"C07 check now expects {vals[mode]} ({which}: {mode})")
