#!/usr/bin/env python3
"""tools/c19_switch.py slash snapshot|repaired [commit]      (current switch: fixes/C19-slash-in-key.diff)
tools/c19_switch.py snapshot|repaired [commit]            (first switch, HISTORY: fixes/C19-name-fn.diff = /repo 212c2b0)

`slash`: which default name function coq/cachefs/ExpectedFacts.v expects in /repo's parallel._pickle_name:
  slash snapshot   f"{k!r}.p" (NameRepr): a key whose repr contains "/" cannot be cached -- recorded finding
                   C19-slash-in-key (theorem C19_slash_names_refuted; KNOWN-FINDING line, exit 0);
  slash repaired   the diff is applied (`fix:` commit <commit>): ExpectedFacts.v expects NameReprEsc, the finding moves
                   to "fixed" (it suppresses nothing any more), the keys with "/" become an ordinary configuration of
                   the fault-injection runs (P-slash-seq), C19_transparent / C19_escaped_names_* apply to the tree.
Never flip a switch while a `./check C19` runs.

First switch (do not use `snapshot` any more: the tree has carried repr-based names since 212c2b0).
Keeps the two hand-maintained places of the C19 check consistent with the tree in /repo:
  snapshot   /repo's parallel._pickle_name returns f"{k}.p" (the state before fixes/C19-name-fn.diff):
             coq/cachefs/ExpectedFacts.v expects NameStr and the collision of keys with equal str() is the
             recorded finding C19-name-collision (theorems C19_transparent_refuted /
             C19_str_names_collide_refuted describe the tree; positive theorems under names_distinct);
  repaired   the diff is applied (`fix:` commit <commit>): ExpectedFacts.v expects NameRepr, the finding moves
             to "fixed" (it suppresses nothing: a reappearance is a VIOLATION), C19_transparent applies to the
             tree without a guard on the names and the witness keys 1 / '1' become an ordinary configuration
             of the fault-injection runs.
Then runs tools/mkmanifest.py (idempotent merge of known_findings.d / manifest_src.d)."""
import json, re, subprocess, sys
from pathlib import Path

V = Path(__file__).resolve().parent.parent


def slash_switch(mode: str, commit: str) -> None:
    fid = "C19-slash-in-key"
    finding = {
        "property": "C19",
        "id": fid,
        "call_site": "src/mxlpy/parallel.py:_pickle_name / _load_or_run (file = cache.tmp_dir / cache.name_fn(k); cache.save_fn(file, res))",
        "guard": "the run contains a key whose repr() contains the path separator '/' under the default name_fn f'{k!r}.p' (str keys such as 'ATP/ADP', "
                 "tuples with such a member, bytes keys): complement of `is_component (name)`; every other key -- '..', '.', '', NUL, '%', backslashes included -- is unaffected",
        "witness": {"fn": "x*x", "inputs": [["ATP/ADP", 2], [["x/y", 1], 3], ["/abs", 4], ["../up", 5]], "cache": "fresh directory", "parallel": False},
        "what_fails": "parallelise(sq, [('ATP/ADP', 2), ...], cache=Cache(d), parallel=False) raises FileNotFoundError (the file 'ATP/ADP'.p would lie in the sub-directory \"'ATP\" of the "
                      "cache directory, which nobody creates); without cache it returns [('ATP/ADP', 4), ...]: 'returns the same results as running without one' fails for a legal key; "
                      "scan.steady_state(..., cache=) with row labels containing '/' fails the same way (theorem C19_slash_names_refuted; demo findings/c19_slash_in_key.py). Proposed repair "
                      "fixes/C19-slash-in-key.diff (repr(k) with '%' -> '%25', '/' -> '%2F': names of keys without '/' and '%' unchanged, still injective: C19_escaped_names_injective, every name a "
                      "single path component: C19_escaped_names_are_components; suite-neutral): recorded until the lead applies it, then `tools/c19_switch.py slash repaired <commit>`.",
    }
    fixed = (f"fixed: property=C19 {commit} a key whose repr() contains '/' ('ATP/ADP', ('x/y', 1), b'a/b') could not be cached: the default name f'{{k!r}}.p' pointed into a "
             "sub-directory of the cache directory that does not exist, so the cached run raised FileNotFoundError where the uncached run returns (demo: findings/c19_slash_in_key.py; "
             "repair: fixes/C19-slash-in-key.diff -- '%' -> '%25', '/' -> '%2F' in the printed key; the old function is theorem C19_slash_names_refuted and reverting the repair breaks "
             "C19_facts_pinned) (id " + fid + ")")
    ef = V / "coq/cachefs/ExpectedFacts.v"
    text = ef.read_text()
    want = "NameRepr" if mode == "snapshot" else "NameReprEsc"
    new = re.sub(r"(Definition C19_expected_name : name_kind := )\w+\.", rf"\g<1>{want}.", text)
    if new != text:
        ef.write_text(new)
    kfp = V / "known_findings.d/C19.json"
    kf = json.loads(kfp.read_text())
    kf["findings"] = [f for f in kf.get("findings", []) if f.get("id") != fid]
    kf["fixed"] = [x for x in kf.get("fixed", []) if fid not in x]
    if mode == "snapshot":
        kf["findings"].append(finding)
    else:
        kf["fixed"].append(fixed)
    kfp.write_text(json.dumps(kf, indent=1) + "\n")
    snap = ("Second switch: ExpectedFacts.v = NameRepr (the tree carries f'{k!r}.p'): a key whose repr contains '/' cannot be cached -- recorded finding C19-slash-in-key "
            "(C19_slash_names_refuted), for which fixes/C19-slash-in-key.diff (percent-encoding of '%' and '/') is proposed; C19_transparent_escaped_names / C19_escaped_names_injective / "
            "C19_escaped_names_are_components are proved for the repaired function and apply to the tree once the diff is applied and tools/c19_switch.py slash repaired <commit> was run.")
    rep = ("Second switch: ExpectedFacts.v = NameReprEsc (the tree carries the percent-encoded names of fixes/C19-slash-in-key.diff): every default file name is a single path component "
           "(C19_escaped_names_are_components, for every key) and different keys of the universe keep different names (C19_escaped_names_injective), so C19_transparent applies; the plain "
           "f'{k!r}.p' is the regression theorem C19_slash_names_refuted and the keys 'ATP/ADP', ('x/y', 1), '/abs', '../up' are an ordinary configuration of the fault-injection runs.")
    mp = V / "tools/manifest_src.d/C19.json"
    m = json.loads(mp.read_text())
    have, want_note = (rep, snap) if mode == "snapshot" else (snap, rep)
    if have in m["note"]:
        m["note"] = m["note"].replace(have, want_note)
    elif want_note not in m["note"]:
        print("WARNING: tools/manifest_src.d/C19.json: second-switch sentence not found in the note; edit it by hand")
    mp.write_text(json.dumps(m, indent=1) + "\n")
    subprocess.run([sys.executable, str(V / "tools/mkmanifest.py")], check=True)
    print(f"C19 check now expects {want} ({mode})")


if len(sys.argv) > 2 and sys.argv[1] == "slash":
    if sys.argv[2] not in ("snapshot", "repaired"):
        sys.exit(__doc__)
    slash_switch(sys.argv[2], sys.argv[3] if len(sys.argv) > 3 else "<commit-to-be-filled>")
    sys.exit(0)
mode = sys.argv[1] if len(sys.argv) > 1 else ""
if mode not in ("snapshot", "repaired"):
    sys.exit(__doc__)
if re.search(r"Definition C19_expected_name : name_kind := NameReprEsc\.", (V / "coq/cachefs/ExpectedFacts.v").read_text()):
    sys.exit("the second switch is in `repaired` (NameReprEsc); the first switch must not be moved any more")
commit = sys.argv[2] if len(sys.argv) > 2 else "<commit-to-be-filled>"
FID = "C19-name-collision"
FINDING = {
    "property": "C19",
    "id": FID,
    "call_site": "src/mxlpy/parallel.py:_pickle_name / _load_or_run (file = cache.tmp_dir / cache.name_fn(k))",
    "guard": "the run contains two different keys whose file names coincide, i.e. str(k1) == str(k2) under the default name_fn f'{k}.p' "
             "(1 and '1', 1.5 and '1.5', (1, 'a') and \"(1, 'a')\", None and 'None'); complement of the hypothesis names_distinct of "
             "C19_transparent_partial. (Two rows of a scan frame with the SAME index label are equal keys, not different ones: outside the property.)",
    "witness": {"fn": "x*x", "inputs": [[1, 2], ["1", 3]], "cache": "fresh directory", "parallel": False},
    "what_fails": "parallelise(sq, [(1, 2), ('1', 3)], cache=Cache(d), parallel=False) returns [(1, 4), ('1', 4)]; without cache it returns "
                  "[(1, 4), ('1', 9)]: the second key is answered from the first key's file '1.p' (theorem C19_str_names_collide_refuted; demo "
                  "findings/c19_name_collision.py). Proposed repair fixes/C19-name-fn.diff (f'{k!r}.p': int/float/tuple keys keep their file names, "
                  "str keys get quoted ones; injective on the modelled key universe: C19_repr_names_injective; suite-neutral): recorded until the lead "
                  "applies it, then `tools/c19_switch.py repaired <commit>`.",
}
FIXED = (f"fixed: property=C19 {commit} the default Cache.name_fn f'{{k}}.p' mapped different keys with the same str() (1 and '1', 1.5 and '1.5', "
         "(1, 'a') and \"(1, 'a')\") to one file, so a cached run over a FRESH directory silently returned the first key's result for the second "
         "(demo: findings/c19_name_collision.py; repair: fixes/C19-name-fn.diff -- f'{k!r}.p'; the old function is theorem "
         "C19_str_names_collide_refuted and reverting the repair breaks C19_facts_pinned) (id " + FID + ")")

ef = V / "coq/cachefs/ExpectedFacts.v"
text = ef.read_text()
want = "NameStr" if mode == "snapshot" else "NameRepr"
new = re.sub(r"(Definition C19_expected_name : name_kind := )\w+\.", rf"\g<1>{want}.", text)
if new != text:
    ef.write_text(new)
kfp = V / "known_findings.d/C19.json"
kf = json.loads(kfp.read_text())
kf["findings"] = [f for f in kf.get("findings", []) if f.get("id") != FID]
kf["fixed"] = [x for x in kf.get("fixed", []) if FID not in x]
if mode == "snapshot":
    kf["findings"].append(FINDING)
else:
    kf["fixed"].append(FIXED)
kfp.write_text(json.dumps(kf, indent=1) + "\n")

# the sentence of the manifest note that states the switch position
SNAP_NOTE = ("Current switch position: ExpectedFacts.v = NameStr (the tree carries f'{k}.p'): the positive theorems about the tree hold under the guard "
             "'distinct keys have distinct file names'; its complement is the recorded finding C19-name-collision (C19_transparent_refuted, "
             "C19_str_names_collide_refuted), for which fixes/C19-name-fn.diff (f'{k!r}.p') is proposed; C19_transparent (no guard) is proved for the repaired "
             "function and applies to the tree once the diff is applied and tools/c19_switch.py repaired <commit> was run.")
REP_NOTE = ("Current switch position: ExpectedFacts.v = NameRepr (the tree carries the repaired f'{k!r}.p', fixes/C19-name-fn.diff): C19_transparent applies to the "
            "tree with no guard on file names (pairwise different keys of the modelled universe suffice); the theorems stated under names_distinct remain as the "
            "statements for arbitrary custom name functions; the old f'{k}.p' is the regression theorem C19_str_names_collide_refuted and its witness keys 1 / '1' "
            "are an ordinary configuration of the fault-injection runs.")
mp = V / "tools/manifest_src.d/C19.json"
m = json.loads(mp.read_text())
have, want_note = (REP_NOTE, SNAP_NOTE) if mode == "snapshot" else (SNAP_NOTE, REP_NOTE)
if have in m["note"]:
    m["note"] = m["note"].replace(have, want_note)
elif want_note not in m["note"]:
    print("WARNING: tools/manifest_src.d/C19.json: switch sentence not found in the note; edit it by hand")
mp.write_text(json.dumps(m, indent=1) + "\n")
subprocess.run([sys.executable, str(V / "tools/mkmanifest.py")], check=True)
print(f"C19 check now expects the {mode} name function ({want})")
