#!/usr/bin/env python3
"""Markdown status table for DESIGN.md section 16 (from evidence/*.json, known_findings.json, harness AREA constants)."""
import json, glob, re, collections
kf = json.load(open('/verif/known_findings.json'))
nf = collections.Counter(f['property'] for f in kf['findings'])
nx = collections.Counter(re.search(r'property=(C\d+)', f).group(1) for f in kf['fixed'])
print("| id | Coq area(s) | theorems (closed / with stdlib axioms) | quick: cases (non-trivial) / wall | open findings | repaired defects |")
print("|---|---|---|---|---|---|")
for f in sorted(glob.glob('/verif/evidence/C*.json')):
    e = json.load(open(f)); pid = e['property_id']; c = e['coverage']
    tb = c.get('trusted_base', [])
    closed = sum('closed under' in l for l in tb); ax = len(tb) - closed
    src = open(f'/verif/harness/{pid.lower()}.py').read()
    areas = sorted(set(re.findall(r'^(?:AREA|PROOF_AREA)\s*=\s*"(\w+)"', src, re.M))) or ['?']
    if pid == "C03": areas = ["edit", "editproofs"]
    if pid in ("C04", "C14"): areas = ["sim"]
    print(f"| {pid} | {', '.join(areas)} | {len(tb)} ({closed} / {ax}) | {c.get('evaluations')} ({c.get('distinct_nontrivial')}) / {e['wall_s']:.0f} s | {nf.get(pid,0)} | {nx.get(pid,0)} |")
