#!/usr/bin/env python3
"""tools/c13_switch.py snapshot | repaired <commit>

C13 keeps one recorded finding for as long as /repo hands out its cache dictionaries from
Model.get_initial_conditions / get_parameter_values (id C13-query-results-alias-cache; harness/c13.py reports the
in-place-mutation probe as KNOWN-FINDING while the id is listed and as VIOLATION otherwise).

  repaired <commit>  after fixes/C13-query-results-are-copies.diff was committed to /repo as <commit>: moves the entry
                     from "findings" to "fixed" (the probe then has to pass: a re-introduced alias is a VIOLATION)
  snapshot           puts the finding back (only if the fix was reverted)

Then run `python3 tools/mkmanifest.py` and `./check C13`."""
import json
import pathlib
import sys

P = pathlib.Path(__file__).resolve().parent.parent / "known_findings.d" / "C13.json"
ID = "C13-query-results-alias-cache"
STASH = P.parent.parent / "harness" / "c13_alias_finding.json"  # permanent copy of the finding entry


def main() -> int:
    if len(sys.argv) < 2 or sys.argv[1] not in ("snapshot", "repaired") or (sys.argv[1] == "repaired" and len(sys.argv) != 3):
        print(__doc__)
        return 2
    d = json.loads(P.read_text())
    if sys.argv[1] == "repaired":
        commit = sys.argv[2]
        keep = [f for f in d["findings"] if f.get("id") != ID]
        gone = [f for f in d["findings"] if f.get("id") == ID]
        d["findings"] = keep
        d["fixed"] = [x for x in d["fixed"] if ID not in x] + [
            f"fixed: property=C13 {commit} Model.get_initial_conditions / get_parameter_values handed out the dictionaries held in the "
            "model cache (also as the start state of a Simulator built without y0): changing the returned dict in place rewrote the "
            "model's resolved initial conditions / parameter values. Repaired by returning copies "
            f"(fixes/C13-query-results-are-copies.diff; demo findings/c13_query_results_alias_cache.py; id {ID})"
        ]
    else:
        if not any(f.get("id") == ID for f in d["findings"]):
            if not STASH.exists():
                print("no stashed finding entry; restore known_findings.d/C13.json from git")
                return 1
            d["findings"].append(json.loads(STASH.read_text()))
        d["fixed"] = [x for x in d["fixed"] if ID not in x]
    P.write_text(json.dumps(d, indent=1) + "\n")
    print("known_findings.d/C13.json updated; now run: python3 tools/mkmanifest.py && ./check C13")
    return 0


if __name__ == "__main__":
    sys.exit(main())
