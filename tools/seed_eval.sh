#!/bin/bash
# tools/seed_eval.sh <ID> <worktree> <i> [tier]
# Confirms a seeded change (out/change<i>.diff, demo<i>.py, meta<i>.json produced by a seeding sub-agent):
#   demo passes on unchanged source, fails with the change; existing suite still passes with the change;
#   then runs ./check <ID> against a scratch copy with the change applied.  Stores everything under
#   /verif/seeded/<ID>-<i>/ (patch.diff, demo.py, meta.json incl. what was run and whether the check caught it).
ID="$1"; WT="$2"; I="$3"; TIER="${4:-quick}"; N="${5:-$I}"   # N = index under seeded/ (second rounds: 4..6)
OUT=/verif/seeded/$ID-$N; mkdir -p "$OUT"
cp "$WT/out/change$I.diff" "$OUT/patch.diff" || exit 2
cp "$WT/out/demo$I.py" "$OUT/demo.py" || exit 2
cp "$WT/out/meta$I.json" "$OUT/meta_agent.json" 2>/dev/null
D=/var/tmp/mxlpy-seed-$ID-$I-$$; rm -rf "$D"; mkdir -p "$D"
rsync -a --exclude .git --exclude docs --exclude publication-figures /repo/ "$D/"
# demo on unchanged
(cd "$D" && PYTHONPATH="$D/src" PYTHONHASHSEED=0 timeout 300 /venv/bin/python "$OUT/demo.py" > "$OUT/demo_unchanged.log" 2>&1); U=$?
(cd "$D" && git apply --unsafe-paths -p1 --directory="$D" "$OUT/patch.diff" 2>/dev/null || patch -p1 -s < "$OUT/patch.diff") || { echo "patch does not apply"; rm -rf "$D"; exit 2; }
(cd "$D" && PYTHONPATH="$D/src" PYTHONHASHSEED=0 timeout 300 /venv/bin/python "$OUT/demo.py" > "$OUT/demo_changed.log" 2>&1); C=$?
# existing suite with the change
(cd "$D" && PYTHONPATH="$D/src" /venv/bin/python -m pytest -q -p no:cacheprovider -n 12 --timeout=900 --continue-on-collection-errors --junitxml="$OUT/junit.xml" > "$OUT/pytest.log" 2>&1; tail -3 "$OUT/pytest.log" > "$OUT/pytest_tail.log"; rm -f "$OUT/pytest.log")
SUITE=$(/venv/bin/python - "$OUT/junit.xml" <<'PY'
import json, sys, xml.etree.ElementTree as ET
base=set(json.load(open('/root/.vp/BASELINE.json'))['stable_pass'])
passed=set()
for tc in ET.parse(sys.argv[1]).getroot().iter('testcase'):
    if not any(c.tag in ('failure','error','skipped') for c in tc):
        passed.add(f"{tc.get('classname')}::{tc.get('name')}")
missing=sorted(base-passed)
print(json.dumps({"baseline_pass": len(base), "still_passing": len(base)-len(missing), "now_failing": missing[:10]}))
PY
)
rm -f "$OUT/junit.xml"
# our check against the changed copy
MXLPY_VERIF_REPO="$D" /verif/check "$ID" --tier "$TIER" > "$OUT/check.log" 2>&1; RC=$?
(grep -E "^VIOLATION" "$OUT/check.log" | head -4; grep -E "^KNOWN-FINDING" "$OUT/check.log" | cut -c1-200 | sort -u | head -6) > "$OUT/check_verdict.txt"
REPLAY=$(grep -m1 -oE "replay=[^ ]+" "$OUT/check.log" | cut -d= -f2)
[ -n "$REPLAY" ] && [ -f "$REPLAY" ] && cp "$REPLAY" "$OUT/replay.json"
rm -rf "$D"
/verif/check --regen >/dev/null 2>&1
python3 - "$OUT" "$ID" "$U" "$C" "$RC" "$SUITE" "$TIER" <<'PY'
import json, sys, os
out, pid, u, c, rc, suite, tier = sys.argv[1:8]
meta = {}
p = os.path.join(out, "meta_agent.json")
if os.path.exists(p):
    try: meta = json.load(open(p))
    except Exception: meta = {"raw": open(p).read()[:2000]}
verdict = open(os.path.join(out, "check_verdict.txt")).read().strip().splitlines()
res = {
  "property": pid,
  "breaks": meta.get("summary"),
  "needs_to_manifest": meta.get("needs_to_manifest"),
  "files_changed": meta.get("files_changed"),
  "confirmed_by_lead": {
     "demo_exit_unchanged": int(u), "demo_exit_with_change": int(c),
     "existing_suite_with_change": json.loads(suite),
     "ran": f"tools/seed_eval.sh {pid} <worktree> (scratch copy of /repo + patch; demo before/after; full pytest -n 12; ./check {pid} --tier {tier} with MXLPY_VERIF_REPO=<copy>)",
  },
  "check_exit": int(rc), "check_verdict": verdict, "caught": int(rc) == 1 and any(v.startswith("VIOLATION") for v in verdict),
  "caught_with_concrete_input": any(v.startswith("VIOLATION") and "no-failing-input-found" not in v for v in verdict),
}
json.dump(res, open(os.path.join(out, "meta.json"), "w"), indent=1)
print(json.dumps({k: res[k] for k in ("property", "caught", "caught_with_concrete_input", "check_exit")}), "demo:", u, "->", c, "suite:", suite)
PY
