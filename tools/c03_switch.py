#!/usr/bin/env python3
"""tools/c03_switch.py [batch|getters|inputs|containers] snapshot|repaired [commit]

Keeps the hand-maintained places of the C03 check consistent with the tree in /repo.  Two independent switches:

  batch (default when the first argument is snapshot|repaired; fixes/C03-batch-edits-atomic.diff, applied as 037a1c8)
    snapshot   the batch mutators of /repo are plain folds: coq/edit/ExpectedFacts.v expects BatchFold and the partial
               application of rejected batch edits is the recorded finding C03-batch-partial-application;
    repaired   ExpectedFacts.v expects BatchValidated and the defect is listed under "fixed".

  getters / inputs / containers (= both)   (fixes/C03-containers-are-values.diff; its getter half is also
  fixes/C13-query-results-are-copies.diff, its other half alone fixes/C03-mutators-copy-containers.diff)
    snapshot   get_initial_conditions / get_parameter_values return the cache's own dicts and the mutators keep the caller's
               args= / outputs= / stoichiometries= objects: ExpectedFacts.v expects C03_expected_getters / C03_expected_inputs := Aliased and the
               two recorded findings C03-query-results-alias-cache, C03-mutators-keep-caller-lists (KNOWN-FINDING, exit 0);
    repaired   the diff is applied (`fix:` commit <commit>): ExpectedFacts.v expects Copied, both defects are listed under
               "fixed" (they suppress nothing: a reappearance is a VIOLATION).

Then runs tools/mkmanifest.py (idempotent merge of known_findings.d / manifest_src.d)."""
import json, re, subprocess, sys
from pathlib import Path

V = Path(__file__).resolve().parent.parent
args = sys.argv[1:]
which = "batch"
if args and args[0] in ("batch", "getters", "inputs", "containers"):
    which, args = args[0], args[1:]
mode = args[0] if args else ""
if mode not in ("snapshot", "repaired"):
    sys.exit(__doc__)
commit = args[1] if len(args) > 1 else "<commit-to-be-filled>"
src = json.loads((V / "harness/c03_findings.json").read_text())
if which != "batch":
    src = dict(src["containers"])
    keep = {"getters": ["C03-query-results-alias-cache"], "inputs": ["C03-mutators-keep-caller-lists"]}.get(which)
    if keep is not None:
        src["findings"] = [f for f in src["findings"] if f["id"] in keep]
    lines = [f"C03_expected_{w} : alias_mode" for w in (("getters", "inputs") if which == "containers" else (which,))]
    want = "Aliased" if mode == "snapshot" else "Copied"
else:
    lines, want = ["C03_expected_batch : batch_mode"], ("BatchFold" if mode == "snapshot" else "BatchValidated")
ef = V / "coq/edit/ExpectedFacts.v"
text = ef.read_text()
new = text
for line in lines:
    new = re.sub(rf"(Definition {re.escape(line)} := )\w+\.", rf"\g<1>{want}.", new)
if new != text:
    ef.write_text(new)
kfp = V / "known_findings.d/C03.json"
kf = json.loads(kfp.read_text())
ids = [f["id"] for f in src["findings"]]
kf["fixed"] = [x for x in kf.get("fixed", []) if not any(f"(id {i};" in x for i in ids)]
kf["findings"] = [f for f in kf.get("findings", []) if f.get("id") not in ids]
if mode == "snapshot":
    kf["findings"] += src["findings"]
else:
    kf["fixed"] += [
        f"fixed: property=C03 {commit} {src['fixed_text'][f['id']]} (id {f['id']}; demo: {src['demo']}; fix: {src['fix']})"
        for f in src["findings"]]
kfp.write_text(json.dumps(kf, indent=1) + "\n")
subprocess.run([sys.executable, str(V / "tools/mkmanifest.py")], check=True)
print(f"C03 check now expects the {mode} {which} form ({want})")
