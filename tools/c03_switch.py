#!/usr/bin/env python3
"""tools/c03_switch.py snapshot|repaired [commit]

Keeps the two hand-maintained places of the C03 check consistent with the tree in /repo:
  snapshot   the batch mutators of /repo are plain folds (the state before fixes/C03-batch-edits-atomic.diff):
             coq/edit/ExpectedFacts.v expects BatchFold and the partial application of rejected batch edits is the
             recorded finding C03-batch-partial-application (KNOWN-FINDING, exit 0);
  repaired   the diff is applied (`fix:` commit <commit>): ExpectedFacts.v expects BatchValidated and the defect is
             listed under "fixed" (it suppresses nothing: a reappearance is a VIOLATION).
Then runs tools/mkmanifest.py (idempotent merge of known_findings.d / manifest_src.d)."""
import json, re, subprocess, sys
from pathlib import Path

V = Path(__file__).resolve().parent.parent
mode = sys.argv[1] if len(sys.argv) > 1 else ""
if mode not in ("snapshot", "repaired"):
    sys.exit(__doc__)
commit = sys.argv[2] if len(sys.argv) > 2 else "<commit-to-be-filled>"
src = json.loads((V / "harness/c03_findings.json").read_text())
ef = V / "coq/edit/ExpectedFacts.v"
text = ef.read_text()
want = "BatchFold" if mode == "snapshot" else "BatchValidated"
new = re.sub(r"(Definition C03_expected_batch : batch_mode := )\w+\.", rf"\g<1>{want}.", text)
if new != text:
    ef.write_text(new)
kfp = V / "known_findings.d/C03.json"
kf = json.loads(kfp.read_text())
tag = "(id C03-batch-partial-application;"
kf["fixed"] = [x for x in kf.get("fixed", []) if tag not in x]
if mode == "snapshot":
    kf["findings"] = src["findings"]
else:
    kf["findings"] = []
    kf["fixed"] += [
        f"fixed: property=C03 {commit} {src['fixed_text'][f['id']]} (id {f['id']}; demo: {src['demo']}; fix: {src['fix']})"
        for f in src["findings"]]
kfp.write_text(json.dumps(kf, indent=1) + "\n")
subprocess.run([sys.executable, str(V / "tools/mkmanifest.py")], check=True)
print(f"C03 check now expects the {mode} batch mutators ({want})")
