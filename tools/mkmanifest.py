#!/usr/bin/env python3
"""Regenerates MANIFEST.json from tools/manifest_src.json (per-property text) -- keeps it valid."""
import json, sys
from pathlib import Path
V = Path(__file__).resolve().parent.parent
src = json.loads((V / "tools/manifest_src.json").read_text())
src["checks"] = {}
for f in sorted((V / "tools/manifest_src.d").glob("C*.json")):
    src["checks"][f.stem] = json.loads(f.read_text())
# merge known findings
kf = {"_comment": "Committed; never written at run time (merged from known_findings.d/*.json by tools/mkmanifest.py at development time). `findings`: genuine defects recorded but not repaired, identified by call site + guard + witness; a check prints KNOWN-FINDING for each one that still reproduces and still reports any OTHER violation. `fixed`: defects repaired by a `fix:` commit in /repo; they suppress nothing.", "findings": [], "fixed": []}
for f in sorted((V / "known_findings.d").glob("C*.json")):
    d = json.loads(f.read_text())
    kf["findings"] += d.get("findings", [])
    kf["fixed"] += d.get("fixed", [])
(V / "known_findings.json").write_text(json.dumps(kf, indent=1) + "\n")
props = [json.loads(l)["id"] for l in (V / "properties.jsonl").read_text().splitlines() if l.strip()]
checks, na = [], []
# only properties the lead has integrated (check green on the unchanged tree, reviewed) are claimed
ready = set((V / "tools/manifest_ready.txt").read_text().split())
for pid in props:
    e = src["checks"].get(pid)
    if e is not None and pid not in ready:
        na.append({"property_id": pid, "reason": "check under construction / not yet integrated by the lead; no claim is made"})
        continue
    if e is None or e.get("not_applicable"):
        na.append({"property_id": pid, "reason": (e or {}).get("not_applicable", "check not built yet in this development; no claim is made")})
        continue
    checks.append({
        "property_id": pid,
        "quick_cmd": f"./check {pid} --tier quick",
        "thorough_cmd": f"./check {pid} --tier thorough",
        "evidence_file": f"/verif/evidence/{pid}.json",
        "replay_cmd_template": f"./check {pid} --replay {{path}}",
        "engine": "coq+harness",
        "level_claimed": {"category": "proof", "text": e["text"], "design_ref": e.get("design_ref", f"DESIGN.md section 8 ({pid})")},
        "level_note": e["note"],
        "technique": e["technique"],
    })
man = {
    "version": 1,
    "setup_cmd": "./check --setup",
    "hooks": {
        "guard": "MXLPY_VERIF",
        "enable": "no hooks exist: every check observes the public API of /repo's working tree in-process (PYTHONPATH=/repo/src); MXLPY_VERIF is reserved and unused",
        "baseline_off_cmd": "cd /repo && env -u MXLPY_VERIF /venv/bin/python -m pytest -ra -q -p no:cacheprovider --timeout=900 --continue-on-collection-errors",
        "source_commits": [],
        "add_only": True,
    },
    "engines": [
        {"name": "coq+harness", "path": "coq/ and harness/", "serves_properties": [c["property_id"] for c in checks],
         "kind_free_text": "Coq 8.16.1 developments (one area per model, full .vo build, Props*.v hold only theorem statements + Print Assumptions) tied to /repo by regenerated fact files and by in-Coq (vm_compute) differential correspondence against the implementation; independent Python oracles search for concrete failing inputs"},
    ],
    "checks": checks,
    "notes": src.get("notes", ""),
    "not_applicable": na,
}
(V / "MANIFEST.json").write_text(json.dumps(man, indent=1) + "\n")
print(f"{len(checks)} checks, {len(na)} not claimed")
