#!/usr/bin/env python3
"""tools/c11_emit_switch.py snapshot|repaired [commit]

Second switch of the C11 check (the first one, tools/c11_switch.py, is about `_register_fn`): how the
generated file writes plain numbers, units and its imports.
  snapshot   /repo as it is: numbers through SymPy's printer (15 significant digits), units as bare names
             after `value=`, no `import math`: ExpectedFacts.v expects EmSympy15 and the three defects are
             recorded findings (C11-emit-number-literals, C11-emit-math-import, C11-emit-units);
  repaired   fixes/C11-emitted-numbers-imports-units.diff is applied (`fix:` commit <commit>): ExpectedFacts.v
             expects EmExact and the three defects are listed under "fixed" (they suppress nothing: a
             reappearance is a VIOLATION with a concrete input).
Entries of known_findings.d/C11.json that do not belong to this switch are left alone.
Then runs tools/mkmanifest.py."""
import json, re, subprocess, sys
from pathlib import Path

V = Path(__file__).resolve().parent.parent
mode = sys.argv[1] if len(sys.argv) > 1 else ""
if mode not in ("snapshot", "repaired"):
    sys.exit(__doc__)
commit = sys.argv[2] if len(sys.argv) > 2 else "<commit-to-be-filled>"
src = json.loads((V / "harness/c11_emit_findings.json").read_text())
ids = [f["id"] for f in src["findings"]]
ef = V / "coq/mxlgen/ExpectedFacts.v"
text = ef.read_text()
want = "EmSympy15" if mode == "snapshot" else "EmExact"
new = re.sub(r"(Definition C11_expected_emit : emit_mode := )\w+\.", rf"\g<1>{want}.", text)
if new != text:
    ef.write_text(new)
kp = V / "known_findings.d/C11.json"
kf = json.loads(kp.read_text())
kf["findings"] = [f for f in kf.get("findings", []) if f.get("id") not in ids]
kf["fixed"] = [s for s in kf.get("fixed", []) if not any(f"(id {i};" in s for i in ids)]
if mode == "snapshot":
    kf["findings"] += src["findings"]
else:
    kf["fixed"] += [
        f"fixed: property=C11 {commit} {src['fixed_text'][i]} (id {i}; demo: {src['demo']}; fix: {src['fix']})" for i in ids
    ]
kp.write_text(json.dumps(kf, indent=1) + "\n")
subprocess.run([sys.executable, str(V / "tools/mkmanifest.py")], check=True)
print(f"C11 check now expects the {mode} emitter ({want})")
