#!/bin/bash
# Runs the repository's pinned suite (guard OFF; there are no hooks) and compares with BASELINE.json.
# usage: tools/baseline.sh [-n N]   (N>0 uses pytest-xdist for speed; the registered command uses N=0)
N=0; [ "${1:-}" = "-n" ] && N="$2"
OUT=/verif/work/baseline.junit.xml; mkdir -p /verif/work
cd /repo
EXTRA=""; [ "$N" != "0" ] && EXTRA="-n $N"
env -u MXLPY_VERIF /venv/bin/python -m pytest -ra -q -p no:cacheprovider --timeout=900 --continue-on-collection-errors $EXTRA --junitxml=$OUT > /verif/work/baseline.log 2>&1
tail -1 /verif/work/baseline.log
/venv/bin/python - <<'PY'
import json, xml.etree.ElementTree as ET
base=set(json.load(open('/root/.vp/BASELINE.json'))['stable_pass'])
passed=set()
for tc in ET.parse('/verif/work/baseline.junit.xml').getroot().iter('testcase'):
    if not any(c.tag in ('failure','error','skipped') for c in tc):
        passed.add(f"{tc.get('classname')}::{tc.get('name')}")
missing=sorted(base-passed)
print(f"baseline stable_pass={len(base)} passed_now={len(passed)} missing_from_pass={len(missing)}")
for m in missing[:40]: print("  NOT PASSING:", m)
raise SystemExit(1 if missing else 0)
PY
