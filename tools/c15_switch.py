#!/usr/bin/env python3
"""tools/c15_switch.py snapshot|repaired [commit]

Keeps the two hand-maintained places of the C15 check consistent with the tree in /repo:
  snapshot   /repo's Scipy.integrate_to_steady_state does not test integ.successful() (the state before
             fixes/C15-integrator-failure.diff): coq/steady/ExpectedFacts.v expects SuccUnchecked and the defect is the
             recorded finding c15-integrator-failure-unchecked (theorem C15_unchecked_failure_refuted applies);
  repaired   the diff is applied (`fix:` commit <commit>): ExpectedFacts.v expects SuccChecked and the defect is listed
             under "fixed" (it suppresses nothing: a reappearance is a VIOLATION; theorem
             C15_integrator_failure_reported applies).
Then runs tools/mkmanifest.py (idempotent merge of known_findings.d / manifest_src.d)."""
import json, re, subprocess, sys
from pathlib import Path

V = Path(__file__).resolve().parent.parent
mode = sys.argv[1] if len(sys.argv) > 1 else ""
if mode not in ("snapshot", "repaired"):
    sys.exit(__doc__)
commit = sys.argv[2] if len(sys.argv) > 2 else "<commit-to-be-filled>"
FID = "c15-integrator-failure-unchecked"
FINDING = {
    "property": "C15",
    "id": FID,
    "call_site": "src/mxlpy/integrators/int_scipy.py:Scipy.integrate_to_steady_state, `y2 = np.array(integ.integrate(t), dtype=float)` "
                 "is used without testing `integ.successful()` (reached through Simulator.simulate_to_steady_state and scan.steady_state)",
    "guard": "the ODE solver FAILS in some step of the search (integ.successful() is False: finite-time blow-up, singular rate law, "
             "too much work) and afterwards keeps returning the state where it got stuck, so that two consecutive returned states differ by "
             "less than the tolerance -- the complement of the hypothesis 'every integration step succeeded' under which the loop theorems "
             "(C15_loop_spec ... via C15_successful_integration_run) describe the tree. Runs in which every integ.integrate call succeeds "
             "are NOT covered by this finding.",
    "witness": {"law": "quad", "k": 1.0, "x0": 1.0, "tolerance": 1e-06, "rel_norm": False},
    "what_fails": "dx/dt = x^2 from x = 1 (solution 1/(1-t), nothing exists beyond t = 1) is reported as a SUCCESSFUL steady state "
                  "x = 1.34e154 at t = 1200 with flux 1.8e308, because a failed integ.integrate(t) returns the stuck state again and the change "
                  "between two such calls is 0 (theorem C15_unchecked_failure_refuted; demo findings/c15_integrator_failure.py). Proposed repair "
                  "fixes/C15-integrator-failure.diff (return Result(IntegrationFailure()) when integ.successful() is False; suite-neutral, "
                  "1378 pass): recorded until the lead applies it, then `tools/c15_switch.py repaired <commit>`.",
}
FIXED = (f"fixed: property=C15 {commit} Scipy.integrate_to_steady_state ignored integ.successful(): a solver that failed (blow-up dx/dt = x^2, "
         "singular rate 1/(1-x)) kept returning the state where it got stuck and that state was reported as a successful steady state "
         "(x = 1.34e154 at t = 1200). Repaired by returning Result(IntegrationFailure()) when the step failed "
         "(fixes/C15-integrator-failure.diff); demo: findings/c15_integrator_failure.py; the unrepaired loop is theorem "
         "C15_unchecked_failure_refuted and reverting the repair breaks C15_facts_pinned (id " + FID + ")")

ef = V / "coq/steady/ExpectedFacts.v"
text = ef.read_text()
want = "SuccUnchecked" if mode == "snapshot" else "SuccChecked"
new = re.sub(r"(Definition C15_expected_succ : succ_kind := )\w+\.", rf"\g<1>{want}.", text)
if new != text:
    ef.write_text(new)
kfp = V / "known_findings.d/C15.json"
kf = json.loads(kfp.read_text())
kf["findings"] = [f for f in kf.get("findings", []) if f.get("id") != FID]
kf["fixed"] = [x for x in kf.get("fixed", []) if FID not in x]
if mode == "snapshot":
    kf["findings"].append(FINDING)
else:
    kf["fixed"].append(FIXED)
kfp.write_text(json.dumps(kf, indent=1) + "\n")
subprocess.run([sys.executable, str(V / "tools/mkmanifest.py")], check=True)
print(f"C15 check now expects the {mode} loop ({want})")
