#!/usr/bin/env python3
"""tools/c10_switch.py prodcons|assign snapshot|repaired [commit]

Keeps the hand-maintained places of the C10 check consistent with the tree in /repo.

  prodcons snapshot   /repo's Simulation.get_producers / get_consumers are the snapshot's bodies (before
                      fixes/C10-prodcons-per-segment.diff): coq/simres/ExpectedFacts.v expects PKFirst, the
                      finding C10-prodcons-coefficient-frame is recorded (the oracle skips producers/consumers
                      reads inside its guard, the witness is replayed as KNOWN-FINDING; theorems
                      C10_producers_consumers_partial / _refuted describe the tree);
  prodcons repaired   the diff is applied (`fix:` commit <commit>): ExpectedFacts.v expects PKRows, the finding
                      moves to "fixed" (it suppresses nothing any more: the oracle judges EVERY producers /
                      consumers read by the property's per-row rule), the full theorem C10_producers_consumers
                      describes the tree (C10_producers_consumers_of_the_source), the old rule stays as the
                      regression theorems C10_producers_consumers_partial / _refuted.
  assign snapshot     (THE DELIVERED POSITION; lead's decision 2026-10-02: the repair is not applied because it changes
                      what Simulator records per segment, which C04/C14/C09/C12 observe.)  Simulator snapshots
                      model.get_parameter_values() per segment (plain values only): the finding
                      C10-assigned-parameter-snapshot is recorded, cases of the assigned-parameter stream inside
                      its guard are excused;
  assign repaired     fixes/C10-segment-parameters-keep-assignments.diff is applied: the finding moves to
                      "fixed", every case of the stream is judged.  (No Coq switch: assignment-defined
                      parameters are validated by the oracle only.)
Then runs tools/mkmanifest.py (idempotent merge of known_findings.d / manifest_src.d).
Never run it while a `./check C10` is running."""
import json, re, subprocess, sys
from pathlib import Path

V = Path(__file__).resolve().parent.parent
what = sys.argv[1] if len(sys.argv) > 1 else ""
mode = sys.argv[2] if len(sys.argv) > 2 else ""
if what not in ("prodcons", "assign") or mode not in ("snapshot", "repaired"):
    sys.exit(__doc__)
commit = sys.argv[3] if len(sys.argv) > 3 else "<commit-to-be-filled>"

PROD_ID = "C10-prodcons-coefficient-frame"
PROD_FINDING = {
    "property": "C10",
    "id": PROD_ID,
    "call_site": "src/mxlpy/simulation.py Simulation.get_producers / get_consumers",
    "guard": "the coefficient of the queried variable in some reaction is computed from states/time, or changes sign between segments "
             "(complement of: all its coefficients are numbers or parameter-only Derived values whose sign is the same under every segment's parameters)",
    "witness": {
        "kind": "finding:prodcons-sign",
        "spec": {"vars": {"x0": 1}, "pars": {"p0": 1}, "comps": [["r", "r0", 0, ["x0"], [["x0", [0, ["p0"]]]]]], "ros": []},
        "result": {"mode": "sim", "script": [[{}, 1], [{"p0": -1}, 1]]},
        "ops": [["prod", "x0", False, None, False], ["cons", "x0", False, None, False]],
    },
    "what_fails": "producers/consumers are selected once, by the sign of the coefficient under the FIRST segment's parameters at the model's initial "
                  "state (and scaled by the coefficient at the initial state, not at the row): with dx/dt = p*v, p=1 then p=-1, v is reported as a producer "
                  "of x in segment 1 where it consumes x (Coq: C10_producers_consumers_refuted; old rule = C10_producers_consumers_partial; demo "
                  "findings/c10_prodcons_per_row.py). Proposed repair fixes/C10-prodcons-per-segment.diff (coefficient evaluated on every reported row, NaN "
                  "where a listed flux has the other sign; unchanged output where the sign is constant; suite-neutral 1378; full theorem "
                  "C10_producers_consumers proved for the repaired bodies): recorded until the lead applies it, then `tools/c10_switch.py prodcons repaired <commit>`.",
}
PROD_FIXED = (f"fixed: property=C10 {commit} Simulation.get_producers/get_consumers chose the listed fluxes once, by the sign of the coefficient under the "
              "FIRST segment's parameters at the model's initial state, and scaled by the coefficient at the initial state: a flux was listed as producer in "
              "segments/rows where it consumes (demo: findings/c10_prodcons_per_row.py; repair: fixes/C10-prodcons-per-segment.diff -- coefficient evaluated "
              "on every reported row; the old rule is the regression theorem C10_producers_consumers_refuted and reverting the repair breaks C10_facts_pinned) "
              "(id " + PROD_ID + ")")
ASSIGN_ID = "C10-assigned-parameter-snapshot"
ASSIGN_FINDING = {
    "property": "C10",
    "id": "C10-assigned-parameter-snapshot",
    "call_site": "src/mxlpy/simulator.py Simulator._handle_simulation_results (simulation_parameters.append(self.model.get_parameter_values())) -> Simulation.raw_parameters, re-applied by Simulation._compute_args / get_right_hand_side",
    "guard": "some parameter is given by an InitialAssignment during at least one segment (or is turned into / out of one by a user edit before a read) and its definition kind (number / which assignment) is not the same in every segment and at read time (complement: the set of assignment-defined parameters and their assignments never change -- then the views are right, also after plain parameters they depend on were changed)",
    "witness": {
        "kind": "assign",
        "see": "harness/c10_assign.py WITNESS; demo findings/c10_assigned_parameter_snapshot.py"
    },
    "what_fails": "the per-segment parameter snapshot is model.get_parameter_values(), which lists plain values only: a parameter that is a number in segment 0 and the assignment 2*p in segment 1 is reported (and used for fluxes, derived values, derivatives) with the stale number in segment 1; one that is an assignment in segment 0 and a number later is reported with the later number in segment 0 (demo: findings/c10_assigned_parameter_snapshot.py; a repair exists -- fixes/C10-segment-parameters-keep-assignments.diff: snapshot {k: p.value} of the raw parameters, suite-neutral 1378 -- but is NOT applied: it changes what Simulator records per segment, which the checks of C04/C14/C09/C12 observe; lead's decision 2026-10-02: this stays a recorded finding and tools/c10_switch.py assign stays in the snapshot position)"
}
ASSIGN_FIXED = (f"fixed: property=C10 {commit} the per-segment parameter snapshot of a result (Simulator: model.get_parameter_values()) listed plain values "
                "only, so a parameter given by an initial assignment in some segment was reported -- and used for fluxes, derived values and derivatives -- "
                "with the definition the model happened to have at read time (demo: findings/c10_assigned_parameter_snapshot.py; repair: "
                "fixes/C10-segment-parameters-keep-assignments.diff -- snapshot {k: p.value} of the raw parameters) (id " + ASSIGN_ID + ")")

kfp = V / "known_findings.d/C10.json"
kf = json.loads(kfp.read_text())
mp = V / "tools/manifest_src.d/C10.json"
man = json.loads(mp.read_text())


def swap_note(snap: str, rep: str) -> None:
    have, want = (rep, snap) if mode == "snapshot" else (snap, rep)
    if have in man["note"]:
        man["note"] = man["note"].replace(have, want)
    elif want not in man["note"]:
        print("WARNING: tools/manifest_src.d/C10.json: switch sentence not found in the note; edit it by hand")


if what == "prodcons":
    ef = V / "coq/simres/ExpectedFacts.v"
    text = ef.read_text()
    want = "PKFirst" if mode == "snapshot" else "PKRows"
    new = re.sub(r"(Definition C10_expected_prod : prod_kind := )\w+\.", rf"\g<1>{want}.", text)
    if new != text:
        ef.write_text(new)
    kf["findings"] = [f for f in kf.get("findings", []) if f.get("id") != PROD_ID]
    kf["fixed"] = [x for x in kf.get("fixed", []) if PROD_ID not in x]
    if mode == "snapshot":
        kf["findings"].insert(0, PROD_FINDING)
    else:
        kf["fixed"].append(PROD_FIXED)
    swap_note(
        "Switch position producers/consumers: ExpectedFacts.v = PKFirst (the tree carries the snapshot's bodies): C10_producers_consumers_of_the_source says the "
        "tree follows the first-segment rule (C10_producers_consumers_partial), which violates the property (C10_producers_consumers_refuted, recorded finding "
        "C10-prodcons-coefficient-frame); the full theorem C10_producers_consumers is proved for the repaired bodies of fixes/C10-prodcons-per-segment.diff and "
        "applies to the tree once the diff is applied and tools/c10_switch.py prodcons repaired <commit> was run.",
        "Switch position producers/consumers: ExpectedFacts.v = PKRows (the tree carries the repaired bodies, fixes/C10-prodcons-per-segment.diff): the full theorem "
        "C10_producers_consumers applies to the tree with no guard on the coefficients (C10_producers_consumers_of_the_source); the snapshot's first-segment rule "
        "stays as the regression theorems C10_producers_consumers_partial / _refuted and the oracle judges every producers/consumers read by the per-row rule.",
    )
    print(f"C10 check now expects the {mode} producers/consumers bodies ({want})")
else:
    kf["findings"] = [f for f in kf.get("findings", []) if f.get("id") != ASSIGN_ID]
    kf["fixed"] = [x for x in kf.get("fixed", []) if ASSIGN_ID not in x]
    if mode == "repaired":
        kf["fixed"].append(ASSIGN_FIXED)
    else:
        kf["findings"].append(ASSIGN_FINDING)
    swap_note(
        "Switch position assignment-defined parameters: SNAPSHOT -- finding C10-assigned-parameter-snapshot recorded (the tree snapshots plain parameter values only); "
        "cases of the oracle stream inside its guard are excused. The repair fixes/C10-segment-parameters-keep-assignments.diff exists but is deliberately NOT applied "
        "(it changes what Simulator records per segment, which C04/C14/C09/C12 observe); should it ever be applied: tools/c10_switch.py assign repaired <commit>.",
        "Switch position assignment-defined parameters: fixes/C10-segment-parameters-keep-assignments.diff is applied; every case of the oracle stream is judged.",
    )
    print(f"C10 check: assignment-defined parameters -> {mode}")
kfp.write_text(json.dumps(kf, indent=1) + "\n")
mp.write_text(json.dumps(man, indent=1) + "\n")
subprocess.run([sys.executable, str(V / "tools/mkmanifest.py")], check=True)
