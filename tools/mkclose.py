#!/usr/bin/env python3
"""tools/mkclose.py "<IDS>" "<AREA>" "<MODS>" [extra-notes-file]  -> closing prompt for the owner of the property's check.
Lists every seeded change of the property that is missed or caught only through a pinned fact."""
import json, glob, sys, subprocess
ids, area, mods = sys.argv[1:4]
extra = open(sys.argv[4]).read() if len(sys.argv) > 4 else ""
items = []
for pid in [x.strip() for x in ids.split('+')]:
    for f in sorted(glob.glob(f'/verif/seeded/{pid}-*/meta.json')):
        m = json.load(open(f)); name = f.split('/')[-2]
        if m.get('caught_with_concrete_input'):
            continue
        if not m.get('applies_to_repo_head', True):
            continue
        status = 'MISSED (check exits 0)' if not m.get('caught') else 'caught ONLY through a pinned fact / shape pin ("no-failing-input-found")'
        other = m.get('caught_by_other_checks')
        items.append(f"  * seeded/{name} — {status}{'; ' + '; '.join(other) if other else ''}.\n    Change: {' '.join((m.get('breaks') or '').split())}\n    Needs to manifest: {' '.join((m.get('needs_to_manifest') or '').split())}")
notes = ("- Independent engineers (who saw only the property text) produced seeded breaking changes under seeded/<ID>-<n>/ (patch.diff, demo.py, meta.json — read them, and the demo shows the failing input). "
         "The following are NOT yet reported with a concrete failing input by the property's own check. Close every one: strengthen generator + oracle so that the oracle finds a concrete failing input on the changed code "
         "(and extend the Coq model / correspondence / theorems where the behaviour lies inside the modelled logic — a regression theorem for the seeded shape where cheap); each must end \"caught concrete\" under "
         "`tools/seed_recheck.sh seeded/<ID>-<n>`; all other seeded changes of the property must still be caught; the check must stay green (3 seeds, quick + thorough) and deterministic on /repo; quick tier under ~2 min.\n"
         + "\n".join(items) + "\n"
         "- If closing one exposes a genuine defect on the UNCHANGED tree, follow BUILDING.md section 4 (demo + fix proposal with switch file and lead to-do list, or finding).\n"
         "- Record in design/<ID>.md which part of the check catches each seeded change; python3 tools/mkmanifest.py at the end.\n" + extra)
print(subprocess.run(['python3', '/verif/tools/mkdeepen.py', ids, area, mods, notes], capture_output=True, text=True, check=True).stdout)
