#!/bin/bash
# tools/mutate.sh <PROP> <patch-or-sed-script.py> [tier]
# Development self-test: copy /repo to /var/tmp, apply a mutation, run ./check against the copy
# (MXLPY_VERIF_REPO), print the tail, delete the copy, then restore Gen files by re-running gen on /repo.
PROP="$1"; MUT="$2"; TIER="${3:-quick}"
D=/var/tmp/mxlpy-verif-$$
rm -rf "$D"; mkdir -p "$D"; rsync -a --exclude .git --exclude docs --exclude publication-figures /repo/ "$D/"
case "$MUT" in
  *.diff|*.patch) (cd "$D" && patch -p1 -s < "$MUT") || { echo "patch failed"; rm -rf "$D"; exit 2; } ;;
  *" "*) (cd "$D" && eval "$MUT") || { echo "mutation cmd failed"; rm -rf "$D"; exit 2; } ;;
  *.py) (cd "$D" && python3 "$MUT") || { echo "mutation script failed"; rm -rf "$D"; exit 2; } ;;
  *) (cd "$D" && eval "$MUT") || { echo "mutation cmd failed"; rm -rf "$D"; exit 2; } ;;
esac
(cd "$D" && diff -ru /repo/src src | head -40)
MXLPY_VERIF_REPO="$D" /verif/check "$PROP" --tier "$TIER" 2>&1 | tail -15
echo "exit=$?"
rm -rf "$D"
# restore generated facts for /repo
/verif/check --regen >/dev/null 2>&1
