import sys
t=open('/verif/tools/deepen_prompt.txt').read()
ids,area,mods,notes=sys.argv[1:5]
print(t.replace('{IDS}',ids).replace('{ID}',ids.split('+')[0].strip()).replace('{AREA}',area).replace('{MODS}',mods).replace('{NOTES}',notes))
