#!/bin/bash
# tools/seed_recheck.sh <seeded-dir> [tier]   -- re-run the property's check against a scratch copy of /repo with
# the stored seeded change applied; updates check.log / check_verdict.txt / replay.json / meta.json (caught fields).
OUT="$(realpath "$1")"; TIER="${2:-quick}"
ID=$(python3 -c "import json,sys; print(json.load(open('$OUT/meta.json'))['property'])")
D=/var/tmp/mxlpy-seedre-$ID-$$; rm -rf "$D"; mkdir -p "$D"
rsync -a --exclude .git --exclude docs --exclude publication-figures /repo/ "$D/"
(cd "$D" && patch -p1 -s < "$OUT/patch.diff") || { echo "patch does not apply"; rm -rf "$D"; exit 2; }
MXLPY_VERIF_REPO="$D" /verif/check "$ID" --tier "$TIER" > "$OUT/check.log" 2>&1; RC=$?
(grep -E "^VIOLATION" "$OUT/check.log" | head -4; grep -E "^KNOWN-FINDING" "$OUT/check.log" | cut -c1-200 | sort -u | head -6) > "$OUT/check_verdict.txt"
REPLAY=$(grep -m1 -oE "replay=[^ ]+" "$OUT/check.log" | cut -d= -f2)
[ -n "$REPLAY" ] && [ -f "$REPLAY" ] && cp "$REPLAY" "$OUT/replay.json"
rm -rf "$D"
MXLPY_VERIF_REPO=/repo /venv/bin/python - "$OUT" "$RC" "$TIER" "$ID" <<'PY'
import json, sys, os, importlib
out, rc, tier, pid = sys.argv[1], int(sys.argv[2]), sys.argv[3], sys.argv[4]
verdict = open(os.path.join(out, "check_verdict.txt")).read().strip().splitlines()
m = json.load(open(os.path.join(out, "meta.json")))
m["check_exit"] = rc; m["check_verdict"] = verdict
m["caught"] = rc == 1 and any(v.startswith("VIOLATION") for v in verdict)
m["caught_with_concrete_input"] = any(v.startswith("VIOLATION") and "no-failing-input-found" not in v for v in verdict)
m["rechecked_tier"] = tier
json.dump(m, open(os.path.join(out, "meta.json"), "w"), indent=1)
print(pid, "caught" if m["caught"] else "MISSED", "concrete" if m["caught_with_concrete_input"] else "no-concrete-input")
PY
# restore this property's generated facts for /repo
(cd /verif && PYTHONPATH=/repo/src:/verif MXLPY_VERIF_REPO=/repo /venv/bin/python -c "
import importlib; m=importlib.import_module('harness.${ID,,}'); getattr(m,'gen',lambda:None)()" >/dev/null 2>&1)
