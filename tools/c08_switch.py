#!/usr/bin/env python3
"""tools/c08_switch.py <reference|loader|names> <snapshot|repaired> [commit]

Keeps the hand-maintained places of the C08 check consistent with the tree in /repo for the three repairs the C08 check
PROPOSES (each is independent of the others; apply the diffs in this order, they touch neighbouring lines):

  reference  fixes/C08-stoichiometry-reference-per-coefficient.diff   (_export.py::_create_sbml_reactions)
             snapshot: coq/sbmlexp/ExpectedFacts.v expects RefPerSpecies, finding shared-stoichiometry-reference is recorded
             repaired: expects RefCounted, the finding moves to "fixed" (a reappearance is a VIOLATION)
  names      fixes/C08-escaped-names-in-math.diff                     (_export.py::_sbmlify_fn, _sbml_ids, _create_sbml_*)
             snapshot: expects MathRawNames; dangling identifiers of names that need escaping belong to the recorded finding
                       names-needing-escaping
             repaired: expects MathIds; the finding stays (components still come back under another NAME) but its text
                       changes, and a dangling identifier / a re-imported model that differs by position is a VIOLATION
  loader     fixes/C08-reimport-stale-bytecode.diff                   (_import.py::import_from_path)
             snapshot: expects LoaderSourceCached, finding stale-bytecode-on-reimport is recorded
             repaired: expects LoaderCompileSource, the finding moves to "fixed"

Then runs tools/mkmanifest.py (idempotent merge of known_findings.d / manifest_src.d)."""
import json, re, subprocess, sys
from pathlib import Path

V = Path(__file__).resolve().parent.parent
which = sys.argv[1] if len(sys.argv) > 1 else ""
mode = sys.argv[2] if len(sys.argv) > 2 else ""
if which not in ("reference", "loader", "names") or mode not in ("snapshot", "repaired"):
    sys.exit(__doc__)
commit = sys.argv[3] if len(sys.argv) > 3 else "<commit-to-be-filled>"

REF = {
    "property": "C08",
    "id": "shared-stoichiometry-reference",
    "call_site": "src/mxlpy/sbml/_export.py::_create_sbml_reactions, `reference = f\"{compound_id}ref\"`",
    "guard": "one species has a computed (Derived) coefficient in two or more reactions, i.e. a reference id occurs twice in the document (complement of the NoDup hypothesis of C08_reference_rule_partial / C08_document_computed_coefficients_partial; refuted: C08_reference_rule_refuted, C08_shared_reference_coefficient_refuted)",
    "witness": {"reactions": "n400: f0(n100), n101: Derived(lambda: 0.5) ; n401: f0(n100), n101: Derived(lambda: -1.5)", "state": {"n100": 1.0, "n101": 1.0}, "original_dn101_dt": -1.0, "after_roundtrip": -3.0},
    "what_fails": "the species-reference id and its assignment rule are named after the species only, so both reactions write a rule for `n101ref` (duplicate id, duplicate rule: invalid SBML) and after import both coefficients take the value of the last rule: dn101/dt = -1.0 becomes -3.0. Proposed repair fixes/C08-stoichiometry-reference-per-coefficient.diff: a per-species counter, the FIRST computed coefficient of a species keeps `<species>ref` (tests/sbml/test_roundtrip.py pins `xref`), further ones are `<species>ref2`, ... (suite-neutral: 1378 pass; demo findings/c08_shared_reference.py; the repaired exporter is theorem C08_document_computed_coefficients / C08_reference_rule_counted, without the guard). Recorded until the lead applies it, then `tools/c08_switch.py reference repaired <commit>`.",
}
REF_FIXED = (f"fixed: property=C08 {commit} two computed coefficients of one species shared the reference id `<species>ref`: duplicate "
             "rule, both coefficients took the value of the last one after import (dn101/dt -1.0 -> -3.0). Repaired by a per-species "
             "counter: `<species>ref`, `<species>ref2`, ... (fixes/C08-stoichiometry-reference-per-coefficient.diff; demo "
             "findings/c08_shared_reference.py; Coq: C08_document_computed_coefficients, regression C08_shared_reference_coefficient_refuted; "
             "id shared-stoichiometry-reference)")
STALE = {
    "property": "C08",
    "id": "stale-bytecode-on-reimport",
    "call_site": "src/mxlpy/sbml/_import.py::import_from_path, `loader.exec_module(module)` on ~/.cache/mxlpy/mb_<stem>.py, which read() rewrites on every call",
    "guard": "byte-code caching is on (the interpreter's default; ./check itself runs with PYTHONDONTWRITEBYTECODE=1) AND a file whose stem maps to the same module name (valid_filename) is read again within the same second AND the generated module has the same size (e.g. a parameter value edited to one with the same number of digits) -- the complement of the hypotheses of C08_read_fresh_partial (no byte code cached) and C08_read_fresh_partial_times (every read in a later second)",
    "witness": {"session": "write kf=0.5 -> read; write kf=4.0 over the same file -> read; ... (harness/c08.py::session_corpus, run by harness/c08_session.py with byte-code caching on)"},
    "what_fails": "the second read returns the FIRST model (kf = 0.5 instead of 4.0; also for a file of the same name in another directory): the source loader trusts the .pyc it cached for the previous version of mb_<stem>.py because mtime (whole seconds) and size are unchanged (Coq: C08_stale_bytecode_refuted; the session model agrees with the implementation on observed histories, stale reads included). Proposed repair fixes/C08-reimport-stale-bytecode.diff: compile the source that was just written (suite-neutral: 1378 pass; demo findings/c08_stale_bytecode.py; the repaired loader is theorem C08_read_fresh, without any guard). Recorded until the lead applies it, then `tools/c08_switch.py loader repaired <commit>`.",
}
STALE_FIXED = (f"fixed: property=C08 {commit} sbml.read imported the module it had just generated through the ordinary source loader, which "
               "reuses cached byte code when mtime (seconds) and size are unchanged: a model edited and exported over the same file (or "
               "under the same name elsewhere) and read again within the second came back as the FIRST model. Repaired by compiling "
               "the freshly written source (fixes/C08-reimport-stale-bytecode.diff; demo findings/c08_stale_bytecode.py; Coq: "
               "C08_read_fresh, regression C08_stale_bytecode_refuted; id stale-bytecode-on-reimport)")
NAMES_SNAPSHOT = ("a variable named '1x' (or 'x-1', 'x.y', '_x', 'ATP[c]') is exported under the id CPD_1x (x__45__1, ...) while the math refers to the "
                  "unescaped name, the symbol of an initial assignment carries the prefix IA_ and a computed species reference the prefix CPD_ "
                  "while its rule is AR_ (dangling identifiers: C08_raw_names_refuted; for a name that gets a prefix the re-imported model "
                  "cannot even be evaluated: MissingDependenciesError), and the importer turns ids into Python identifiers (CPD_1x, x_1, xy, "
                  "CPD__x, ATPc): the component is not found under its name after export+import. The escaping is not injective either ('x-y' "
                  "and 'x__45__y' get the same id: Coq C08_id_injective_refuted). Proposed PARTIAL repair fixes/C08-escaped-names-in-math.diff "
                  "(every reference uses the declared id: _sbml_ids; suite-neutral, 1378 pass; demo findings/c08_escaped_names.py; Coq "
                  "C08_math_ids_declared): the round trip then preserves initial values, fluxes and derivatives BY POSITION; finding the "
                  "component under its NAME needs a reversible naming scheme shared by exporter, importer and code generator -- not a small "
                  "patch. After the lead applies the diff: `tools/c08_switch.py names repaired <commit>`.")
NAMES_REPAIRED = ("a variable named '1x' (or 'x-1', 'x.y', '_x', 'ATP[c]') is exported under the id CPD_1x (x__45__1, ...) and the importer turns ids "
                  "into Python identifiers (CPD_1x, x_1, xy, CPD__x, ATPc): the component is not found under its NAME after export+import (since "
                  "the repair of the identifiers inside the math the document is consistent and initial values, fluxes and derivatives are "
                  "preserved by position -- checked every run). The escaping is not injective either ('x-y' and 'x__45__y' get the same id: "
                  "Coq C08_id_injective_refuted). Repair needs an agreed reversible naming scheme shared by exporter, importer and code "
                  "generator -- not a small patch.")
NAMES_FIXED = (f"fixed: property=C08 {commit} the exported math referred to the unescaped model names (and initial assignments / computed species "
               "references to ids with another prefix than their component): for a name that gets a prefix ('1k' -> PAR_1k) the written "
               "document had dangling identifiers and the re-imported model could not be evaluated. Repaired by referring to the declared "
               "ids everywhere (fixes/C08-escaped-names-in-math.diff; demo findings/c08_escaped_names.py; Coq: C08_math_ids_declared, "
               "regression C08_raw_names_refuted; part of finding names-needing-escaping, which stays for the NAME after import)")

ef = V / "coq/sbmlexp/ExpectedFacts.v"
text = ef.read_text()
defs = {"reference": ("C08_expected_ref_id : refid_mode", "RefPerSpecies", "RefCounted"),
        "loader": ("C08_expected_loader : loader_mode", "LoaderSourceCached", "LoaderCompileSource"),
        "names": ("C08_expected_math_names : math_names", "MathRawNames", "MathIds")}
name, snap, rep = defs[which]
want = snap if mode == "snapshot" else rep
new = re.sub(rf"(Definition {re.escape(name)} := )\w+\.", rf"\g<1>{want}.", text)
assert want in new
if new != text:
    ef.write_text(new)

kfp = V / "known_findings.d/C08.json"
kf = json.loads(kfp.read_text())
if which in ("reference", "loader"):
    finding, fixed = (REF, REF_FIXED) if which == "reference" else (STALE, STALE_FIXED)
    kf["findings"] = [f for f in kf.get("findings", []) if f.get("id") != finding["id"]]
    kf["fixed"] = [x for x in kf.get("fixed", []) if f"id {finding['id']})" not in x]
    if mode == "snapshot":
        kf["findings"].append(finding)
    else:
        kf["fixed"].append(fixed)
else:
    for f in kf["findings"]:
        if f.get("id") == "names-needing-escaping":
            f["what_fails"] = NAMES_SNAPSHOT if mode == "snapshot" else NAMES_REPAIRED
    kf["fixed"] = [x for x in kf.get("fixed", []) if "C08_math_ids_declared" not in x]
    if mode == "repaired":
        kf["fixed"].append(NAMES_FIXED)
kfp.write_text(json.dumps(kf, indent=1) + "\n")
subprocess.run([sys.executable, str(V / "tools/mkmanifest.py")], check=True)
print(f"C08 check now expects the {mode} {which} ({want})")
