#!/usr/bin/env python3
"""Markdown for DESIGN.md section 17 from known_findings.json."""
import json, re
kf = json.load(open('/verif/known_findings.json'))
print("### 17.1 Defects repaired in /repo (one `fix:` commit each; the unedited pinned suite passes after every one)\n")
print("| property | commit | what failed |")
print("|---|---|---|")
for f in kf['fixed']:
    m = re.match(r'fixed: property=(C\d+) (\S+) (.*)', f, re.S)
    what = " ".join(m.group(3).split())
    print(f"| {m.group(1)} | `{m.group(2)}` | {what[:330]} |")
print("\n### 17.2 Recorded findings (genuine defects not repaired; each check prints `KNOWN-FINDING` while its witness reproduces)\n")
print("| property | id | call site | what fails | why not repaired / guard |")
print("|---|---|---|---|---|")
for f in kf['findings']:
    what = " ".join(f['what_fails'].split())[:330]
    print(f"| {f['property']} | {f['id']} | {' '.join(f.get('call_site','').split())[:120]} | {what} | {' '.join(f.get('guard','').split())[:220]} |")
