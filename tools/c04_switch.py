#!/usr/bin/env python3
"""tools/c04_switch.py snapshot|repaired [commit]

Keeps the hand-maintained places of the C04 check consistent with /repo's src/mxlpy/simulation.py:
  snapshot   the views of get_result() leave the model they share with the Simulator at the LAST segment's
             parameters (state before fixes/C04-views-restore-parameters.diff): coq/sim/ExpectedFacts.v expects
             ViewLastSegment, the finding view-read-reverts-parameter-update is recorded (theorem
             C04_view_reverts_update_refuted describes the tree; C04_views_read_only_partial holds under the
             guard views_in_force);
  repaired   the diff is applied (`fix:` commit <commit>): ExpectedFacts.v expects ViewRestores, the finding moves
             to "fixed" (it then suppresses nothing: a view that changes the live model's parameters is a
             VIOLATION wherever it is read), C04_views_read_only applies to the tree for ALL histories.
Never run it while a C04 / C14 check is running (shared Coq area).  Then runs tools/mkmanifest.py."""
import json, re, subprocess, sys
from pathlib import Path

V = Path(__file__).resolve().parent.parent
mode = sys.argv[1] if len(sys.argv) > 1 else ""
if mode not in ("snapshot", "repaired"):
    sys.exit(__doc__)
commit = sys.argv[2] if len(sys.argv) > 2 else "<commit-to-be-filled>"
FID = "view-read-reverts-parameter-update"
FINDING = {
    "property": "C04",
    "id": FID,
    "call_site": "src/mxlpy/simulation.py:Simulation._compute_args / get_right_hand_side / _get_fluxes_by_sign (self.model.update_parameters(p) per segment on the model object shared with the Simulator: Simulator.get_result() passes model=self.model), reached through every view that evaluates the model: .variables, .fluxes, get_args, get_combined, get_right_hand_side, get_producers, get_consumers, get_variables with derived quantities",
    "guard": "complement of views_in_force in C04_views_read_only_partial: a model-evaluating view of get_result() READ WHILE the parameter values in force differ from those recorded for the last segment (i.e. after update_parameter(s), or a protocol cut short, and before the next accepted simulating call), and whatever is simulated / updated with the reverted values until the next simulating call has been judged. NOT covered (judged by the oracle, proved in C04_view_after_segment_partial / C04_view_guard_stable / C04_view_touches_only_parameters): a read while the parameters in force ARE the last segment's (right after any call that recorded a segment, also after update_variable(s) or other reads in between) changes nothing at all; a read never changes results, time bookkeeping or integrator; get_variables without derived quantities never touches the model",
    "witness": {"mode": "exact", "y0": ["1", "1"], "p0": ["1", "0", "0", "0"],
                "ops": [["sim", "1", 1], ["updpar", {"k": "3"}], ["view", "variables"], ["sim", "2", 1]]},
    "what_fails": "reading a view of get_result() between two simulation calls undoes a parameter update made since the last segment: simulate(1); update_parameter(k, 3); get_result().variables; simulate(2) runs and records the second segment with k = 1 (x' = k*y, y = 1: x(2) = 3 instead of 5). Proposed repair: fixes/C04-views-restore-parameters.diff (views put back the parameter values they found; demo findings/c04_view_reverts_update.py; unedited suite 1378 passed before and after); after it is applied run `python3 tools/c04_switch.py repaired <commit>`",
}
FIXED = (f"fixed: property=C04 {commit} every model-evaluating view of Simulator.get_result() (.variables, .fluxes, get_args, get_combined, "
         "get_right_hand_side, get_producers, get_consumers) left the model it shares with the Simulator at the LAST segment's parameter values: "
         "simulate(1); update_parameter(k, 3); get_result().variables; simulate(2) ran and recorded the second segment with k = 1 "
         "(fix: fixes/C04-views-restore-parameters.diff -- the views put back the values they found; demo: findings/c04_view_reverts_update.py; the old "
         "behaviour is theorem C04_view_reverts_update_refuted and reverting the repair breaks C04_view_mode_pinned) (id " + FID + ")")

ef = V / "coq/sim/ExpectedFacts.v"
text = ef.read_text()
want = "ViewLastSegment" if mode == "snapshot" else "ViewRestores"
new = re.sub(r"(Definition C04_expected_view : view_mode := )\w+\.", rf"\g<1>{want}.", text)
if new != text:
    ef.write_text(new)
kfp = V / "known_findings.d/C04.json"
kf = json.loads(kfp.read_text())
kf["findings"] = [f for f in kf.get("findings", []) if f.get("id") != FID]
kf["fixed"] = [x for x in kf.get("fixed", []) if FID not in x]
if mode == "snapshot":
    kf["findings"].append(FINDING)
else:
    kf["fixed"].append(FIXED)
kfp.write_text(json.dumps(kf, indent=1) + "\n")

SNAP_NOTE = ("Current switch position: coq/sim/ExpectedFacts.v = ViewLastSegment (the tree's views leave the shared model at the last segment's parameters): "
             "C04_views_read_only_partial holds under the guard views_in_force; its complement is the recorded finding view-read-reverts-parameter-update "
             "(C04_view_reverts_update_refuted), for which fixes/C04-views-restore-parameters.diff is proposed; C04_views_read_only (no guard) is proved for the "
             "repaired views and applies to the tree once the diff is applied and tools/c04_switch.py repaired <commit> was run.")
REP_NOTE = ("Current switch position: coq/sim/ExpectedFacts.v = ViewRestores (the tree carries fixes/C04-views-restore-parameters.diff): C04_views_read_only applies "
            "to the tree for ALL histories with view reads; the unrepaired views are the regression theorem C04_view_reverts_update_refuted and its witness is an "
            "ordinary corpus history.")
mp = V / "tools/manifest_src.d/C04.json"
m = json.loads(mp.read_text())
have, want_note = (REP_NOTE, SNAP_NOTE) if mode == "snapshot" else (SNAP_NOTE, REP_NOTE)
if have in m["note"]:
    m["note"] = m["note"].replace(have, want_note)
elif want_note not in m["note"]:
    m["note"] = m["note"].rstrip() + " " + want_note
mp.write_text(json.dumps(m, indent=1) + "\n")
subprocess.run([sys.executable, str(V / "tools/mkmanifest.py")], check=True)
print(f"C04 check now expects the {mode} views ({want})")
