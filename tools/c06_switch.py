#!/usr/bin/env python3
"""tools/c06_switch.py fallback|arity snapshot|repaired [commit]

Keeps the hand-maintained places of the C06 check consistent with the tree in /repo.  Two independent switches
(coq/fnsym/ExpectedFacts.v), each with a recorded finding and a proposed repair:

  fallback   fixes/C06-no-return-no-expression.diff  (C06_expected_fallback: FbLastAssigned -> FbRaise;
             finding fallthrough-callee-compared, witness harness/c06_corpus.py::compares_none)
  arity      fixes/C06-empty-call-arity.diff         (C06_expected_arity: ArityStrictNonEmpty -> ArityStrict;
             finding zero-arg-call-of-defaulted-helper, witness harness/c06_corpus.py::caller0)

  snapshot   /repo does not have the diff: ExpectedFacts.v expects the shipped value, the finding is recorded (its
             witness is replayed on every run and reported as KNOWN-FINDING);
  repaired   the diff is applied (`fix:` commit <commit>): ExpectedFacts.v expects the repaired value, the finding moves
             to "fixed" (it suppresses nothing any more; its witness becomes an ordinary corpus witness).
Then runs tools/mkmanifest.py.  Never run it while a ./check C06 is running."""
import json, re, subprocess, sys
from pathlib import Path

V = Path(__file__).resolve().parent.parent
which = sys.argv[1] if len(sys.argv) > 1 else ""
mode = sys.argv[2] if len(sys.argv) > 2 else ""
if which not in ("fallback", "arity") or mode not in ("snapshot", "repaired"):
    sys.exit(__doc__)
commit = sys.argv[3] if len(sys.argv) > 3 else "<commit-to-be-filled>"
FB_ID = "fallthrough-callee-compared"
FB_FINDING = {
    "property": "C06",
    "id": FB_ID,
    "call_site": "src/mxlpy/meta/source_tools.py::_handle_fn_body, the fallback after the loop (`for node in reversed(body): ... return ctx.symbols[target_name]`)",
    "guard": "at the evaluation point a NESTED call of the real function returns None (the callee falls off its end after an assignment) and CPython lets that None "
             "flow on (== / != against a number is False / True); the check attributes a wrong expression to this finding only when the exact twin of the function, "
             "run at the failing point with every nested function wrapped, sees such a None, the extracted fact is FbLastAssigned and this entry is recorded. "
             "In the Coq model a call whose callee has no value has no value (PyLang), so the soundness theorems make no claim at such points.",
    "witness": {"function": "harness/c06_corpus.py::compares_none  (def no_return(a, b): b = b; pass   /   def compares_none(a, b): if no_return(1, 3.0) == b: return a * 2; return b)",
                "model_args": None, "point": {"a": 3, "b": 3}, "python_value": 3, "expression": "Piecewise((2.0*a, Eq(b, 3.0)), (b, True))", "expression_value": 6},
    "what_fails": "a helper that falls off its end returns None in Python but is translated as its last assigned variable; a caller that compares the helper's result with == / != "
                  "has a value in Python (None == b is False) while the translated caller takes the other branch (demo findings/c06_fallthrough_callee.py). Proposed repair "
                  "fixes/C06-no-return-no-expression.diff (drop the fallback: a body that falls off its end raises the existing ValueError, so the helper and its callers are refused; "
                  "full suite unchanged: 1378 passed / 761 failed as at baseline): recorded until the lead applies it, then `python3 tools/c06_switch.py fallback repaired <commit>`.",
}
FB_FIXED = (f"fixed: property=C06 {commit} a function that falls off its end (returns None) was translated as its last assigned variable, so a caller comparing its result with == / != "
         "got a wrong expression (compares_none: python 3, expression 6 at a = b = 3); the fallback is gone, such bodies are refused "
         "(fixes/C06-no-return-no-expression.diff; demo findings/c06_fallthrough_callee.py) (id " + FB_ID + ")")

AR_ID = "zero-arg-call-of-defaulted-helper"
AR_FINDING = {
    "property": "C06",
    "id": AR_ID,
    "call_site": "src/mxlpy/meta/source_tools.py::fn_to_sympy, `if model_args is not None and len(model_args):` in front of the strict zip (reached from _handle_call with model_args = [])",
    "guard": "a nested call WITHOUT arguments of a helper that has parameters, all of them defaulted (`allopt()` with `def allopt(n=2.0)`); the complement of the hypothesis arity_ok "
             "(no definition has all its parameters defaulted) of C06_sound / C06_sound_unrenamed for the shipped arity rule. The generator never produces this call shape; the witness is replayed on every run.",
    "witness": {"function": "harness/c06_corpus.py::caller0  (def allopt(n=2.0): return n * 3   /   def caller0(a): return a + allopt())",
                "model_args": None, "point": {"a": 3}, "python_value": 9, "expression": "a + 3.0*n", "expression_value": None},
    "what_fails": "the strict zip that refuses every other arity mismatch (a call relying on a default value is untranslatable) is skipped for an empty argument list, so the helper's "
                  "parameter stays in the caller's expression as a free symbol: the default is lost and a model component of the same name silently takes its place (Coq: C06_empty_call_refuted; "
                  "demo findings/c06_empty_call_defaults.py). Proposed repair fixes/C06-empty-call-arity.diff (`if model_args is not None:` -- the empty list is zipped strictly too; "
                  "full suite unchanged: 1378 passed / 761 failed as at baseline): recorded until the lead applies it, then `python3 tools/c06_switch.py arity repaired <commit>`.",
}
AR_FIXED = (f"fixed: property=C06 {commit} a nested call without arguments of a helper whose parameters all have defaults skipped the strict zip and left the helper's parameter as a free symbol "
            "(caller0: a + 3.0*n, python 7 at a = 1); the empty argument list is now zipped strictly, such calls are refused like every other call relying on a default "
            "(fixes/C06-empty-call-arity.diff; demo findings/c06_empty_call_defaults.py) (id " + AR_ID + ")")

FID, FINDING, FIXED = (FB_ID, FB_FINDING, FB_FIXED) if which == "fallback" else (AR_ID, AR_FINDING, AR_FIXED)

ef = V / "coq/fnsym/ExpectedFacts.v"
text = ef.read_text()
if which == "fallback":
    want = "FbLastAssigned" if mode == "snapshot" else "FbRaise"
    new = re.sub(r"(Definition C06_expected_fallback : fb_mode := )\w+\.", rf"\g<1>{want}.", text)
else:
    want = "ArityStrictNonEmpty" if mode == "snapshot" else "ArityStrict"
    new = re.sub(r"(Definition C06_expected_arity : arity_mode := )\w+\.", rf"\g<1>{want}.", text)
if new != text:
    ef.write_text(new)
kfp = V / "known_findings.d/C06.json"
kf = json.loads(kfp.read_text())
kf["findings"] = [f for f in kf.get("findings", []) if f.get("id") != FID]
kf["fixed"] = [x for x in kf.get("fixed", []) if FID not in x]
if mode == "snapshot":
    kf["findings"].append(FINDING)
else:
    kf["fixed"].append(FIXED)
kfp.write_text(json.dumps(kf, indent=1) + "\n")
# the sentence of the manifest note that states the switch position
FB_SNAP = "Current switch position: coq/fnsym/ExpectedFacts.v = FbLastAssigned (the tree still has the 'last assigned variable' fallback of _handle_fn_body): a helper that falls off its end (returns None) is translated as that variable, and a caller comparing its result with == / != gets a wrong expression -- recorded finding fallthrough-callee-compared with proposed repair fixes/C06-no-return-no-expression.diff (after applying: tools/c06_switch.py fallback repaired <commit>); the Coq semantics gives a call without value no value, so the theorems make no claim there and the oracle attributes such an alarm to the finding only when the real function, re-run with nested calls wrapped, sees a None returned. "
FB_REP = "Current switch position: coq/fnsym/ExpectedFacts.v = FbRaise (fixes/C06-no-return-no-expression.diff is applied: a body that falls off its end is refused; the earlier 'last assigned variable' fallback, which translated a None-returning helper as that variable, is a fixed defect and a return to it breaks C06_facts_pinned and is found by the corpus witness compares_none). "
mp = V / "tools/manifest_src.d/C06.json"
man = json.loads(mp.read_text())
AR_SNAP = "Second switch: ExpectedFacts.v = ArityStrictNonEmpty (the tree guards the strict zip of fn_to_sympy with `len(model_args)`): the soundness theorems carry the hypothesis arity_ok = 'no definition has ALL its parameters defaulted'; its complement -- `helper()` of such a helper leaves the parameter as a free symbol -- is the recorded finding zero-arg-call-of-defaulted-helper (C06_empty_call_refuted) with proposed repair fixes/C06-empty-call-arity.diff (after applying: tools/c06_switch.py arity repaired <commit>). "
AR_REP = "Second switch: ExpectedFacts.v = ArityStrict (fixes/C06-empty-call-arity.diff is applied: every argument list, the empty one included, is zipped strictly against the parameters): arity_ok is True, the soundness theorems hold without a guard on default arguments; the earlier `len(model_args)` guard is a fixed defect (C06_empty_call_refuted) and a return to it breaks C06_facts_pinned and is found by the corpus witness caller0. "
SNAP_NOTE, REP_NOTE = (FB_SNAP, FB_REP) if which == "fallback" else (AR_SNAP, AR_REP)
man["note"] = man["note"].replace(SNAP_NOTE, "@@POS@@").replace(REP_NOTE, "@@POS@@").replace("@@POS@@", SNAP_NOTE if mode == "snapshot" else REP_NOTE)
mp.write_text(json.dumps(man, indent=1))
subprocess.run([sys.executable, str(V / "tools/mkmanifest.py")], check=False)
print(f"C06: ExpectedFacts.v expects {want}; finding {FID} is {'recorded' if mode == 'snapshot' else 'fixed (' + commit + ')'}")
