#!/usr/bin/env python3
"""tools/c06_switch.py fallback|arity|alias|lambda snapshot|repaired [commit]

Keeps the hand-maintained places of the C06 check consistent with the tree in /repo.  Four independent switches
(coq/fnsym/ExpectedFacts.v), each with a recorded finding and a proposed repair:

  fallback   fixes/C06-no-return-no-expression.diff  (C06_expected_fallback: FbLastAssigned -> FbRaise;
             finding fallthrough-callee-compared, witness harness/c06_corpus.py::compares_none)
  arity      fixes/C06-empty-call-arity.diff         (C06_expected_arity: ArityStrictNonEmpty -> ArityStrict;
             finding zero-arg-call-of-defaulted-helper, witness harness/c06_corpus.py::caller0)

  alias      fixes/C06-import-alias.diff             (C06_expected_alias: AliasIgnored -> AliasHonoured;
             finding local-import-alias-ignored, witness harness/c06_corpus.py::scope_alias_unused)
  lambda     fixes/C06-lambda-not-a-def.diff         (C06_expected_lambda: LamDefLine -> LamRefused;
             finding lambda-on-def-line, witness harness/c06_corpus.py::lam_on_def_line)

  snapshot   /repo does not have the diff: ExpectedFacts.v expects the shipped value, the finding is recorded (its
             witness is replayed on every run and reported as KNOWN-FINDING);
  repaired   the diff is applied (`fix:` commit <commit>): ExpectedFacts.v expects the repaired value, the finding moves
             to "fixed" (it suppresses nothing any more; its witness becomes an ordinary corpus witness).
Then runs tools/mkmanifest.py.  Never run it while a ./check C06 is running."""
import json, re, subprocess, sys
from pathlib import Path

V = Path(__file__).resolve().parent.parent
which = sys.argv[1] if len(sys.argv) > 1 else ""
mode = sys.argv[2] if len(sys.argv) > 2 else ""
if which not in ("fallback", "arity", "alias", "lambda") or mode not in ("snapshot", "repaired"):
    sys.exit(__doc__)
commit = sys.argv[3] if len(sys.argv) > 3 else "<commit-to-be-filled>"
FB_ID = "fallthrough-callee-compared"
FB_FINDING = {
    "property": "C06",
    "id": FB_ID,
    "call_site": "src/mxlpy/meta/source_tools.py::_handle_fn_body, the fallback after the loop (`for node in reversed(body): ... return ctx.symbols[target_name]`)",
    "guard": "at the evaluation point a NESTED call of the real function returns None (the callee falls off its end after an assignment) and CPython lets that None "
             "flow on (== / != against a number is False / True); the check attributes a wrong expression to this finding only when the exact twin of the function, "
             "run at the failing point with every nested function wrapped, sees such a None, the extracted fact is FbLastAssigned and this entry is recorded. "
             "In the Coq model a call whose callee has no value has no value (PyLang), so the soundness theorems make no claim at such points.",
    "witness": {"function": "harness/c06_corpus.py::compares_none  (def no_return(a, b): b = b; pass   /   def compares_none(a, b): if no_return(1, 3.0) == b: return a * 2; return b)",
                "model_args": None, "point": {"a": 3, "b": 3}, "python_value": 3, "expression": "Piecewise((2.0*a, Eq(b, 3.0)), (b, True))", "expression_value": 6},
    "what_fails": "a helper that falls off its end returns None in Python but is translated as its last assigned variable; a caller that compares the helper's result with == / != "
                  "has a value in Python (None == b is False) while the translated caller takes the other branch (demo findings/c06_fallthrough_callee.py). Proposed repair "
                  "fixes/C06-no-return-no-expression.diff (drop the fallback: a body that falls off its end raises the existing ValueError, so the helper and its callers are refused; "
                  "full suite unchanged: 1378 passed / 761 failed as at baseline): recorded until the lead applies it, then `python3 tools/c06_switch.py fallback repaired <commit>`.",
}
FB_FIXED = (f"fixed: property=C06 {commit} a function that falls off its end (returns None) was translated as its last assigned variable, so a caller comparing its result with == / != "
         "got a wrong expression (compares_none: python 3, expression 6 at a = b = 3); the fallback is gone, such bodies are refused "
         "(fixes/C06-no-return-no-expression.diff; demo findings/c06_fallthrough_callee.py) (id " + FB_ID + ")")

AR_ID = "zero-arg-call-of-defaulted-helper"
AR_FINDING = {
    "property": "C06",
    "id": AR_ID,
    "call_site": "src/mxlpy/meta/source_tools.py::fn_to_sympy, `if model_args is not None and len(model_args):` in front of the strict zip (reached from _handle_call with model_args = [])",
    "guard": "a nested call WITHOUT arguments of a helper that has parameters, all of them defaulted (`allopt()` with `def allopt(n=2.0)`); the complement of the hypothesis arity_ok "
             "(no definition has all its parameters defaulted) of C06_sound / C06_sound_unrenamed for the shipped arity rule. The generator never produces this call shape; the witness is replayed on every run.",
    "witness": {"function": "harness/c06_corpus.py::caller0  (def allopt(n=2.0): return n * 3   /   def caller0(a): return a + allopt())",
                "model_args": None, "point": {"a": 3}, "python_value": 9, "expression": "a + 3.0*n", "expression_value": None},
    "what_fails": "the strict zip that refuses every other arity mismatch (a call relying on a default value is untranslatable) is skipped for an empty argument list, so the helper's "
                  "parameter stays in the caller's expression as a free symbol: the default is lost and a model component of the same name silently takes its place (Coq: C06_empty_call_refuted; "
                  "demo findings/c06_empty_call_defaults.py). Proposed repair fixes/C06-empty-call-arity.diff (`if model_args is not None:` -- the empty list is zipped strictly too; "
                  "full suite unchanged: 1378 passed / 761 failed as at baseline): recorded until the lead applies it, then `python3 tools/c06_switch.py arity repaired <commit>`.",
}
AR_FIXED = (f"fixed: property=C06 {commit} a nested call without arguments of a helper whose parameters all have defaults skipped the strict zip and left the helper's parameter as a free symbol "
            "(caller0: a + 3.0*n, python 7 at a = 1); the empty argument list is now zipped strictly, such calls are refused like every other call relying on a default "
            "(fixes/C06-empty-call-arity.diff; demo findings/c06_empty_call_defaults.py) (id " + AR_ID + ")")

AL_ID = "local-import-alias-ignored"
AL_FINDING = {
    "property": "C06",
    "id": AL_ID,
    "call_site": "src/mxlpy/meta/source_tools.py::_handle_fn_body, the ast.Import / ast.ImportFrom blocks (`name = alias.name` is the key under which ctx.modules / ctx.fns / ctx.symbols record a function-local import; alias.asname is never read)",
    "guard": "a translated function (or a helper it calls) contains a function-local import written with `as` (`from m import a as b`, `import a.b as c`); the complement of the hypothesis alias_ok "
             "(no import of the function uses `as`) of C06_names_resolved_as_python / C06_sound_with_local_imports for the shipped alias rule. The name-resolution stage generates `as` imports only when the "
             "source has the repaired blocks or this entry is not recorded; the witness is replayed on every run.",
    "witness": {"function": "harness/c06_corpus.py::scope_alias_unused  (module level: from harness.c06_libfast import scale [2 x];   def scope_alias_unused(s): from harness.c06_libslow import scale as sc; return scale(s))",
                "model_args": None, "point": {"s": 3}, "python_value": 6, "expression": "3.0*s", "expression_value": 9},
    "what_fails": "a function-local import with an alias is recorded under the name BEFORE `as`: the translator then resolves that name to the imported object although Python did not bind it "
                  "(`from slow import scale as sc; return scale(s)` is translated with slow.scale, Python calls the module-level scale), and the alias itself stays unknown or resolves to a module-level "
                  "binding of the same name (`import pkg.slowconsts as consts; return consts.K * s` reads the module-level consts) -- a wrong expression without any warning "
                  "(Coq: C06_alias_ignored_refuted; demo findings/c06_import_alias.py). Proposed repair fixes/C06-import-alias.diff (record the import under `alias.asname or alias.name`, as Python binds it; "
                  "full suite unchanged: 1378 passed / 761 failed as at baseline): recorded until the lead applies it, then `python3 tools/c06_switch.py alias repaired <commit>`.",
}
AL_FIXED = (f"fixed: property=C06 {commit} a function-local import written with `as` was recorded under the name before `as` (scope_alias_unused: `from slow import scale as sc; return scale(s)` gave 3.0*s, "
            "python 6 at s = 3; `import pkg.consts as consts` left the module-level consts in force); the import is now recorded under the name Python binds "
            "(fixes/C06-import-alias.diff; demo findings/c06_import_alias.py) (id " + AL_ID + ")")

LA_ID = "lambda-on-def-line"
LA_FINDING = {
    "property": "C06",
    "id": LA_ID,
    "call_site": "src/mxlpy/meta/source_tools.py::get_fn_ast (`if not isinstance(fn_def := tree.body[0], ast.FunctionDef)` is the only test: the parsed source is never checked to be the source of `fn`)",
    "guard": "the function handed to fn_to_sympy / get_fn_ast is a LAMBDA whose source statement (what inspect.getsource returns for a lambda) is a `def`: the lambda is a default value or a decorator "
             "argument of that def; the complement of the hypothesis lambda_guard (the statement is not a def) of C06_lambda_refused for the shipped get_fn_ast. The lambda stage generates such statements "
             "only when the source has the repaired test or this entry is not recorded; the witness is replayed on every run.",
    "witness": {"function": "harness/c06_corpus.py::lam_on_def_line  (def rate_with_alt(s, k, alt=lambda s, k: s + k): return k * s;   lam_on_def_line = rate_with_alt.__defaults__[0])",
                "model_args": None, "point": {"s": 3, "k": 3}, "python_value": 6, "expression": "k*s", "expression_value": 9},
    "what_fails": "every other lambda is refused ('Not a function'), but for a lambda written on a def line inspect.getsource returns the whole def, get_fn_ast accepts it and the DEF's body is translated "
                  "in the lambda's place: fn_to_sympy(<the lambda s + k>) returns k*s (Coq: C06_lambda_on_def_line_refuted; demo findings/c06_lambda_def_line.py). Proposed repair "
                  "fixes/C06-lambda-not-a-def.diff (get_fn_ast refuses every function whose __name__ is '<lambda>'; full suite unchanged: 1378 passed / 761 failed as at baseline): recorded until the lead "
                  "applies it, then `python3 tools/c06_switch.py lambda repaired <commit>`.",
}
LA_FIXED = (f"fixed: property=C06 {commit} a lambda written on a def line (default value, decorator argument) was translated as that DEF (lam_on_def_line: k*s for `lambda s, k: s + k`); get_fn_ast now "
            "refuses every lambda (fixes/C06-lambda-not-a-def.diff; demo findings/c06_lambda_def_line.py) (id " + LA_ID + ")")

FID, FINDING, FIXED = {"fallback": (FB_ID, FB_FINDING, FB_FIXED), "arity": (AR_ID, AR_FINDING, AR_FIXED), "alias": (AL_ID, AL_FINDING, AL_FIXED), "lambda": (LA_ID, LA_FINDING, LA_FIXED)}[which]

ef = V / "coq/fnsym/ExpectedFacts.v"
text = ef.read_text()
if which == "fallback":
    want = "FbLastAssigned" if mode == "snapshot" else "FbRaise"
    new = re.sub(r"(Definition C06_expected_fallback : fb_mode := )\w+\.", rf"\g<1>{want}.", text)
elif which == "arity":
    want = "ArityStrictNonEmpty" if mode == "snapshot" else "ArityStrict"
    new = re.sub(r"(Definition C06_expected_arity : arity_mode := )\w+\.", rf"\g<1>{want}.", text)
elif which == "alias":
    want = "AliasIgnored" if mode == "snapshot" else "AliasHonoured"
    new = re.sub(r"(Definition C06_expected_alias : alias_mode := )\w+\.", rf"\g<1>{want}.", text)
else:
    want = "LamDefLine" if mode == "snapshot" else "LamRefused"
    new = re.sub(r"(Definition C06_expected_lambda : lambda_mode := )\w+\.", rf"\g<1>{want}.", text)
if new != text:
    ef.write_text(new)
kfp = V / "known_findings.d/C06.json"
kf = json.loads(kfp.read_text())
kf["findings"] = [f for f in kf.get("findings", []) if f.get("id") != FID]
kf["fixed"] = [x for x in kf.get("fixed", []) if FID not in x]
if mode == "snapshot":
    kf["findings"].append(FINDING)
else:
    kf["fixed"].append(FIXED)
kfp.write_text(json.dumps(kf, indent=1) + "\n")
# the sentence of the manifest note that states the switch position
FB_SNAP = "Current switch position: coq/fnsym/ExpectedFacts.v = FbLastAssigned (the tree still has the 'last assigned variable' fallback of _handle_fn_body): a helper that falls off its end (returns None) is translated as that variable, and a caller comparing its result with == / != gets a wrong expression -- recorded finding fallthrough-callee-compared with proposed repair fixes/C06-no-return-no-expression.diff (after applying: tools/c06_switch.py fallback repaired <commit>); the Coq semantics gives a call without value no value, so the theorems make no claim there and the oracle attributes such an alarm to the finding only when the real function, re-run with nested calls wrapped, sees a None returned. "
FB_REP = "Current switch position: coq/fnsym/ExpectedFacts.v = FbRaise (fixes/C06-no-return-no-expression.diff is applied: a body that falls off its end is refused; the earlier 'last assigned variable' fallback, which translated a None-returning helper as that variable, is a fixed defect and a return to it breaks C06_facts_pinned and is found by the corpus witness compares_none). "
mp = V / "tools/manifest_src.d/C06.json"
man = json.loads(mp.read_text())
AR_SNAP = "Second switch: ExpectedFacts.v = ArityStrictNonEmpty (the tree guards the strict zip of fn_to_sympy with `len(model_args)`): the soundness theorems carry the hypothesis arity_ok = 'no definition has ALL its parameters defaulted'; its complement -- `helper()` of such a helper leaves the parameter as a free symbol -- is the recorded finding zero-arg-call-of-defaulted-helper (C06_empty_call_refuted) with proposed repair fixes/C06-empty-call-arity.diff (after applying: tools/c06_switch.py arity repaired <commit>). "
AR_REP = "Second switch: ExpectedFacts.v = ArityStrict (fixes/C06-empty-call-arity.diff is applied: every argument list, the empty one included, is zipped strictly against the parameters): arity_ok is True, the soundness theorems hold without a guard on default arguments; the earlier `len(model_args)` guard is a fixed defect (C06_empty_call_refuted) and a return to it breaks C06_facts_pinned and is found by the corpus witness caller0. "
AL_SNAP = "Third switch: ExpectedFacts.v = AliasIgnored (the tree records a function-local import under alias.name): C06_names_resolved_as_python / C06_sound_with_local_imports carry the hypothesis alias_ok = 'no import of the function is written with `as`'; its complement is the recorded finding local-import-alias-ignored (C06_alias_ignored_refuted) with proposed repair fixes/C06-import-alias.diff (after applying: tools/c06_switch.py alias repaired <commit>); the stage generates `as` imports only on a repaired tree. "
AL_REP = "Third switch: ExpectedFacts.v = AliasHonoured (fixes/C06-import-alias.diff is applied: a function-local import is recorded under the name Python binds): alias_ok is True, the stage generates `as` imports; the earlier rule is a fixed defect (C06_alias_ignored_refuted), a return to it breaks C06_rfacts_pinned and is found by the corpus witnesses scope_alias_unused / scope_alias_module. "
LA_SNAP = "Fourth switch: ExpectedFacts.v = LamDefLine (get_fn_ast only tests that the parsed source starts with a def): C06_lambda_refused carries the hypothesis lambda_guard = 'the lambda's source statement is not a def'; its complement is the recorded finding lambda-on-def-line (C06_lambda_on_def_line_refuted) with proposed repair fixes/C06-lambda-not-a-def.diff (after applying: tools/c06_switch.py lambda repaired <commit>); the stage generates def-line lambdas only on a repaired tree. "
LA_REP = "Fourth switch: ExpectedFacts.v = LamRefused (fixes/C06-lambda-not-a-def.diff is applied: get_fn_ast refuses every lambda): lambda_guard is True, the stage generates def-line lambdas; the earlier test is a fixed defect (C06_lambda_on_def_line_refuted), a return to it breaks C06_rfacts_pinned and is found by the corpus witness lam_on_def_line. "
SNAP_NOTE, REP_NOTE = {"fallback": (FB_SNAP, FB_REP), "arity": (AR_SNAP, AR_REP), "alias": (AL_SNAP, AL_REP), "lambda": (LA_SNAP, LA_REP)}[which]
sn, rn = SNAP_NOTE.strip(), REP_NOTE.strip()
note = man["note"]
if sn not in note and rn not in note:
    note = note.rstrip() + " " + sn
man["note"] = note.replace(sn, "@@POS@@").replace(rn, "@@POS@@").replace("@@POS@@", sn if mode == "snapshot" else rn)
mp.write_text(json.dumps(man, indent=1))
subprocess.run([sys.executable, str(V / "tools/mkmanifest.py")], check=False)
print(f"C06: ExpectedFacts.v expects {want}; finding {FID} is {'recorded' if mode == 'snapshot' else 'fixed (' + commit + ')'}")
