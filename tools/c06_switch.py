#!/usr/bin/env python3
"""tools/c06_switch.py snapshot|repaired [commit]

Keeps the two hand-maintained places of the C06 check consistent with the tree in /repo:
  snapshot   /repo's _handle_fn_body still ends with the "return the last assigned variable" fallback (the state
             before fixes/C06-no-return-no-expression.diff): coq/fnsym/ExpectedFacts.v expects FbLastAssigned and a
             wrong expression caused by a nested call that falls off its end is the recorded finding
             C06 fallthrough-callee-compared (witness harness/c06_corpus.py::compares_none, replayed on every run);
  repaired   the diff is applied (`fix:` commit <commit>): ExpectedFacts.v expects FbRaise, the finding moves to
             "fixed" (it suppresses nothing any more: the harness excuses the shape only while the finding is recorded
             AND the extracted fact is FbLastAssigned).
Then runs tools/mkmanifest.py.  Never run it while a ./check C06 is running."""
import json, re, subprocess, sys
from pathlib import Path

V = Path(__file__).resolve().parent.parent
mode = sys.argv[1] if len(sys.argv) > 1 else ""
if mode not in ("snapshot", "repaired"):
    sys.exit(__doc__)
commit = sys.argv[2] if len(sys.argv) > 2 else "<commit-to-be-filled>"
FID = "fallthrough-callee-compared"
FINDING = {
    "property": "C06",
    "id": FID,
    "call_site": "src/mxlpy/meta/source_tools.py::_handle_fn_body, the fallback after the loop (`for node in reversed(body): ... return ctx.symbols[target_name]`)",
    "guard": "at the evaluation point a NESTED call of the real function returns None (the callee falls off its end after an assignment) and CPython lets that None "
             "flow on (== / != against a number is False / True); the check attributes a wrong expression to this finding only when the exact twin of the function, "
             "run at the failing point with every nested function wrapped, sees such a None, the extracted fact is FbLastAssigned and this entry is recorded. "
             "In the Coq model a call whose callee has no value has no value (PyLang), so the soundness theorems make no claim at such points.",
    "witness": {"function": "harness/c06_corpus.py::compares_none  (def no_return(a, b): b = b; pass   /   def compares_none(a, b): if no_return(1, 3.0) == b: return a * 2; return b)",
                "model_args": None, "point": {"a": 3, "b": 3}, "python_value": 3, "expression": "Piecewise((2.0*a, Eq(b, 3.0)), (b, True))", "expression_value": 6},
    "what_fails": "a helper that falls off its end returns None in Python but is translated as its last assigned variable; a caller that compares the helper's result with == / != "
                  "has a value in Python (None == b is False) while the translated caller takes the other branch (demo findings/c06_fallthrough_callee.py). Proposed repair "
                  "fixes/C06-no-return-no-expression.diff (drop the fallback: a body that falls off its end raises the existing ValueError, so the helper and its callers are refused; "
                  "full suite unchanged: 1378 passed / 761 failed as at baseline): recorded until the lead applies it, then `python3 tools/c06_switch.py repaired <commit>`.",
}
FIXED = (f"fixed: property=C06 {commit} a function that falls off its end (returns None) was translated as its last assigned variable, so a caller comparing its result with == / != "
         "got a wrong expression (compares_none: python 3, expression 6 at a = b = 3); the fallback is gone, such bodies are refused "
         "(fixes/C06-no-return-no-expression.diff; demo findings/c06_fallthrough_callee.py) (id " + FID + ")")

ef = V / "coq/fnsym/ExpectedFacts.v"
text = ef.read_text()
want = "FbLastAssigned" if mode == "snapshot" else "FbRaise"
new = re.sub(r"(Definition C06_expected_fallback : fb_mode := )\w+\.", rf"\g<1>{want}.", text)
if new != text:
    ef.write_text(new)
kfp = V / "known_findings.d/C06.json"
kf = json.loads(kfp.read_text())
kf["findings"] = [f for f in kf.get("findings", []) if f.get("id") != FID]
kf["fixed"] = [x for x in kf.get("fixed", []) if FID not in x]
if mode == "snapshot":
    kf["findings"].append(FINDING)
else:
    kf["fixed"].append(FIXED)
kfp.write_text(json.dumps(kf, indent=1) + "\n")
# the sentence of the manifest note that states the switch position
SNAP_NOTE = "Current switch position: coq/fnsym/ExpectedFacts.v = FbLastAssigned (the tree still has the 'last assigned variable' fallback of _handle_fn_body): a helper that falls off its end (returns None) is translated as that variable, and a caller comparing its result with == / != gets a wrong expression -- recorded finding fallthrough-callee-compared with proposed repair fixes/C06-no-return-no-expression.diff (after applying: tools/c06_switch.py repaired <commit>); the Coq semantics gives a call without value no value, so the theorems make no claim there and the oracle attributes such an alarm to the finding only when the real function, re-run with nested calls wrapped, sees a None returned. "
REP_NOTE = "Current switch position: coq/fnsym/ExpectedFacts.v = FbRaise (fixes/C06-no-return-no-expression.diff is applied: a body that falls off its end is refused; the earlier 'last assigned variable' fallback, which translated a None-returning helper as that variable, is a fixed defect and a return to it breaks C06_facts_pinned and is found by the corpus witness compares_none). "
mp = V / "tools/manifest_src.d/C06.json"
man = json.loads(mp.read_text())
man["note"] = man["note"].replace(SNAP_NOTE, "@@POS@@").replace(REP_NOTE, "@@POS@@").replace("@@POS@@", SNAP_NOTE if mode == "snapshot" else REP_NOTE)
mp.write_text(json.dumps(man, indent=1))
subprocess.run([sys.executable, str(V / "tools/mkmanifest.py")], check=False)
print(f"C06: ExpectedFacts.v expects {want}; finding {FID} is {'recorded' if mode == 'snapshot' else 'fixed (' + commit + ')'}")
