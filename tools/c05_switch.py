#!/usr/bin/env python3
"""tools/c05_switch.py snapshot|repaired [commit]

Keeps the two hand-maintained places of the C05 check consistent with the tree in /repo:
  snapshot   /repo's label_map._create_isotopomer_reactions renames the rate arguments through ONE dict keyed by compound (the state
             before fixes/C05-homodimer.diff): coq/label/ExpectedFacts.v expects ReplDict and the two defects of that form are the
             recorded findings c05-homodimer and c05-labelled-modifier (theorems C05_homodimer_refuted / C05_labelled_modifier_refuted);
  repaired   the diff is applied (`fix:` commit <commit>): ExpectedFacts.v expects ReplPositional, both defects are listed under "fixed"
             (they suppress nothing any more: a reappearance is a VIOLATION; theorems C05_dynamics_collapse / C05_dynamics_collapse_model
             / C05_homodimer_repaired / C05_labelled_modifier_repaired describe the tree).
The finding c05-reversible-unbalanced is untouched (no small repair).  Then runs tools/mkmanifest.py."""
import json, re, subprocess, sys
from pathlib import Path

V = Path(__file__).resolve().parent.parent
mode = sys.argv[1] if len(sys.argv) > 1 else ""
if mode not in ("snapshot", "repaired"):
    sys.exit(__doc__)
commit = sys.argv[2] if len(sys.argv) > 2 else "<commit-to-be-filled>"
IDS = ("c05-homodimer", "c05-labelled-modifier")
STORE = V / "tools/c05_findings_snapshot.json"   # the two finding entries, kept here while they are listed as fixed

ef = V / "coq/label/ExpectedFacts.v"
text = ef.read_text()
want = "ReplDict" if mode == "snapshot" else "ReplPositional"
new = re.sub(r"(Definition C05_expected_repl : repl_kind := )\w+\.", rf"\g<1>{want}.", text)
if new != text:
    ef.write_text(new)
kfp = V / "known_findings.d/C05.json"
kf = json.loads(kfp.read_text())
present = [f for f in kf.get("findings", []) if f.get("id") in IDS]
if present:
    STORE.write_text(json.dumps(present, indent=1) + "\n")
stored = json.loads(STORE.read_text()) if STORE.exists() else []
kf["findings"] = [f for f in kf.get("findings", []) if f.get("id") not in IDS]
kf["fixed"] = [x for x in kf.get("fixed", []) if not any(i in x for i in IDS)]
if mode == "snapshot":
    kf["findings"] = stored + kf["findings"]
else:
    kf["fixed"] += [
        f"fixed: property=C05 {commit} 2A -> B with mass action k*A*A: both argument occurrences of A were renamed to the LAST isotopomer of the "
        "pattern (one dict keyed by compound), summed isotopomer derivatives -40 vs base -32; repaired by per-occurrence renaming "
        "(fixes/C05-homodimer.diff; demo findings/c05_homodimer.py; the dict form is theorem C05_homodimer_refuted, reverting the repair breaks "
        "C05_facts_pinned and the witness is a corpus case; id c05-homodimer)",
        f"fixed: property=C05 {commit} a labelled modifier of a mapped reaction kept its base name, which the labelled model does not define "
        "(MissingDependenciesError at the first right-hand side); repaired by reading it through <name>__total (same diff "
        "fixes/C05-homodimer.diff; theorem C05_labelled_modifier_refuted; id c05-labelled-modifier)",
    ]
kfp.write_text(json.dumps(kf, indent=1) + "\n")
subprocess.run([sys.executable, str(V / "tools/mkmanifest.py")], check=True)
print(f"C05 check now expects the {mode} form of the renaming block ({want})")
