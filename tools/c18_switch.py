#!/usr/bin/env python3
"""tools/c18_switch.py snapshot|repaired [commit]

Keeps the two hand-maintained places of the C18 check consistent with the tree in /repo:
  snapshot   /repo's mca.py displaces every scanned value relatively (old * (1 +- d), divisor 2 * d * old; the state before
             fixes/C18-zero-state.diff): coq/mca/ExpectedFacts.v expects QuotCentralRel and the NaN column at a zero value
             is the recorded finding c18-zero-state (theorem C18_zero_state_refuted describes the tree);
  repaired   the diff is applied (`fix:` commit <commit>): ExpectedFacts.v expects QuotCentralRelAbs0, the finding moves to
             "fixed" (it suppresses nothing: the oracle now judges the cells at a zero value, a reappearance is a
             VIOLATION with the stored witness; theorems C18_zero_state_repaired_* describe the tree,
             C18_zero_state_refuted stays as the regression theorem about the old rule).
Then runs tools/mkmanifest.py (idempotent merge of known_findings.d / manifest_src.d)."""
import json, re, subprocess, sys
from pathlib import Path

V = Path(__file__).resolve().parent.parent
mode = sys.argv[1] if len(sys.argv) > 1 else ""
if mode not in ("snapshot", "repaired"):
    sys.exit(__doc__)
commit = sys.argv[2] if len(sys.argv) > 2 else "<commit-to-be-filled>"
FID = "c18-zero-state"
FINDING = {
    "property": "C18",
    "id": FID,
    "call_site": "src/mxlpy/mca.py: variable_elasticities / parameter_elasticities / _response_coefficient_worker, "
                 "`old * (1 +- displacement)` and `(upper - lower) / (2 * displacement * old)`",
    "guard": "the scanned variable / parameter value is exactly 0 (then the relative displacement old*(1 +- d) is 0 and the quotient is "
             "0/0) -- the complement of the hypothesis `~ x == 0` of C18_coefficient_power_law / C18_rule_agrees_off_zero. (Cells with "
             "normalized=True whose unperturbed flux / steady-state value is 0 are NOT part of the finding: the scaled partial "
             "derivative value/flux * dv/dx has no value there, under either rule -- C18_zero_state_repaired_scaled.)",
    "witness": {"routine": "variable_elasticities", "variables": {"x0": 0.0, "x1": 2.0}, "parameters": {"k0": 2.0, "k1": 1.0},
                "reactions": {"v0": "k0*x0", "v1": "k1*x1"}, "normalized": False},
    "what_fails": "variable_elasticities(normalized=False) at x0 = 0 returns NaN for the whole x0 column although d v0/d x0 = k0 = 2 and "
                  "d v1/d x0 = 0 are well defined (a relative displacement of a zero value is zero); the same for a zero-valued parameter "
                  "in parameter_elasticities and response_coefficients (Coq: C18_zero_state_refuted; demo findings/c18_zero_state.py). "
                  "Proposed repair fixes/C18-zero-state.diff (helper _displace: absolute displacement +-d and divisor 2d for a value that "
                  "is exactly 0, bit-identical everywhere else; the result changes only where it was NaN; suite-neutral, 1378 pass): "
                  "recorded until the lead applies it, then `tools/c18_switch.py repaired <commit>`.",
}
FIXED = (f"fixed: property=C18 {commit} variable_elasticities / parameter_elasticities / response_coefficients returned NaN for the whole "
         "column of a scanned variable or parameter whose value is exactly 0 (relative displacement of 0 is 0, quotient 0/0) although the "
         "partial derivative is well defined (k0 = 2 in the witness). Repaired by the helper _displace (absolute displacement +-d, divisor "
         "2d at a zero value; fixes/C18-zero-state.diff); demo: findings/c18_zero_state.py; the old rule is theorem "
         "C18_zero_state_refuted and reverting the repair breaks C18_facts_pinned and is reported with the stored witness (id " + FID + ")")

ef = V / "coq/mca/ExpectedFacts.v"
text = ef.read_text()
want = "QuotCentralRel" if mode == "snapshot" else "QuotCentralRelAbs0"
new = re.sub(r"(Definition C18_expected_quot : quot_kind := )\w+\.", rf"\g<1>{want}.", text)
if new != text:
    ef.write_text(new)
kfp = V / "known_findings.d/C18.json"
kf = json.loads(kfp.read_text())
kf["findings"] = [f for f in kf.get("findings", []) if f.get("id") != FID]
kf["fixed"] = [x for x in kf.get("fixed", []) if FID not in x]
if mode == "snapshot":
    kf["findings"].append(FINDING)
else:
    kf["fixed"].append(FIXED)
kfp.write_text(json.dumps(kf, indent=1) + "\n")
subprocess.run([sys.executable, str(V / "tools/mkmanifest.py")], check=True)
print(f"C18 check now expects the {mode} displacement rule ({want})")
