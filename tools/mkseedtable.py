#!/usr/bin/env python3
"""Markdown table of the seeded changes (seeded/*/meta.json) for DESIGN.md section 17."""
import json, glob, os
rows = []
for d in sorted(glob.glob('/verif/seeded/*/')):
    try:
        m = json.load(open(d + 'meta.json'))
    except Exception:
        continue
    name = os.path.basename(d.rstrip('/'))
    what = " ".join((m.get('breaks') or '').split())[:170]
    needs = " ".join((m.get('needs_to_manifest') or '').split())[:150]
    res = 'caught, concrete input' if m.get('caught_with_concrete_input') else ('caught, no-failing-input-found' if m.get('caught') else 'MISSED')
    by = m.get('caught_by', '')
    rows.append(f"| {name} | {what} | {needs} | {res}{(' — ' + by) if by else ''} |")
print("| id | change | needs to manifest | result of `./check <ID>` |")
print("|---|---|---|---|")
print("\n".join(rows))
