#!/bin/bash
# tools/seed_confirm.sh <ID> <worktree> <i>
# Confirms a seeded change WITHOUT running our check (so it can run while the area's owner is working):
#   demo passes on unchanged source, fails with the change; existing pinned suite still passes with the change.
# Stores patch.diff, demo.py, meta.json (check fields pending) under the next free /verif/seeded/<ID>-<n>/ and prints it.
# Then run  tools/seed_recheck.sh seeded/<ID>-<n>  (needs exclusive use of the property's Coq area).
ID="$1"; WT="$2"; I="$3"
[ -f "$WT/out/change$I.diff" ] && [ -f "$WT/out/demo$I.py" ] || { echo "no change$I for $ID"; exit 2; }
N=1; while [ -e /verif/seeded/$ID-$N ]; do N=$((N+1)); done
OUT=/verif/seeded/$ID-$N; mkdir -p "$OUT"
cp "$WT/out/change$I.diff" "$OUT/patch.diff"; cp "$WT/out/demo$I.py" "$OUT/demo.py"; cp "$WT/out/meta$I.json" "$OUT/meta_agent.json" 2>/dev/null
D=/var/tmp/mxlpy-seedc-$ID-$I-$$; rm -rf "$D"; mkdir -p "$D"
rsync -a --exclude .git --exclude docs --exclude publication-figures /repo/ "$D/"
(cd "$D" && PYTHONPATH="$D/src" PYTHONHASHSEED=0 timeout 600 /venv/bin/python "$OUT/demo.py" > "$OUT/demo_unchanged.log" 2>&1); U=$?
(cd "$D" && patch -p1 -s < "$OUT/patch.diff") || { echo "$ID-$N: patch does not apply"; rm -rf "$D" "$OUT"; exit 2; }
(cd "$D" && PYTHONPATH="$D/src" PYTHONHASHSEED=0 timeout 600 /venv/bin/python "$OUT/demo.py" > "$OUT/demo_changed.log" 2>&1); C=$?
(cd "$D" && PYTHONPATH="$D/src" /venv/bin/python -m pytest -q -p no:cacheprovider -n 8 --timeout=900 --continue-on-collection-errors --junitxml="$OUT/junit.xml" > "$OUT/pytest.log" 2>&1; tail -3 "$OUT/pytest.log" > "$OUT/pytest_tail.log"; rm -f "$OUT/pytest.log")
SUITE=$(/venv/bin/python - "$OUT/junit.xml" <<'PY'
import json, sys, xml.etree.ElementTree as ET
base=set(json.load(open('/root/.vp/BASELINE.json'))['stable_pass'])
passed=set()
for tc in ET.parse(sys.argv[1]).getroot().iter('testcase'):
    if not any(c.tag in ('failure','error','skipped') for c in tc):
        passed.add(f"{tc.get('classname')}::{tc.get('name')}")
missing=sorted(base-passed)
print(json.dumps({"baseline_pass": len(base), "still_passing": len(base)-len(missing), "now_failing": missing[:10]}))
PY
)
rm -f "$OUT/junit.xml"; rm -rf "$D"
python3 - "$OUT" "$ID" "$U" "$C" "$SUITE" <<'PY'
import json, sys, os
out, pid, u, c, suite = sys.argv[1:6]
meta = {}
p = os.path.join(out, "meta_agent.json")
if os.path.exists(p):
    try: meta = json.load(open(p))
    except Exception: meta = {"raw": open(p).read()[:2000]}
res = {
  "property": pid, "round": 4,
  "breaks": meta.get("summary"), "needs_to_manifest": meta.get("needs_to_manifest"), "files_changed": meta.get("files_changed"),
  "confirmed_by_lead": {"demo_exit_unchanged": int(u), "demo_exit_with_change": int(c), "existing_suite_with_change": json.loads(suite),
     "ran": f"tools/seed_confirm.sh {pid} <worktree> (scratch copy of /repo + patch; demo before/after; full pytest -n 8), then tools/seed_recheck.sh (./check {pid} --tier quick with MXLPY_VERIF_REPO=<copy>)"},
  "check_exit": None, "check_verdict": [], "caught": False, "caught_with_concrete_input": False,
}
s = res["confirmed_by_lead"]["existing_suite_with_change"]
ok = int(u) == 0 and int(c) != 0 and s["still_passing"] == s["baseline_pass"]
res["confirmed"] = ok
json.dump(res, open(os.path.join(out, "meta.json"), "w"), indent=1)
print(os.path.basename(out), "CONFIRMED" if ok else "REJECTED", "demo:", u, "->", c, "suite:", suite)
PY
