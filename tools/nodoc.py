#!/venv/bin/python
import ast, sys
src=open(sys.argv[1]).read()
lo=int(sys.argv[2]) if len(sys.argv)>2 else 1
hi=int(sys.argv[3]) if len(sys.argv)>3 else 10**9
tree=ast.parse(src)
skip=set()
for n in ast.walk(tree):
    if isinstance(n,(ast.FunctionDef,ast.ClassDef,ast.Module,ast.AsyncFunctionDef)) and n.body and isinstance(n.body[0],ast.Expr) and isinstance(n.body[0].value,ast.Constant) and isinstance(n.body[0].value.value,str):
        d=n.body[0]
        skip.update(range(d.lineno,d.end_lineno+1))
for i,l in enumerate(src.splitlines(),1):
    if lo<=i<=hi and i not in skip and l.strip():
        print(f"{i}:{l}")
