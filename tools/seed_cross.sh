#!/bin/bash
# tools/seed_cross.sh <seeded-dir> <ID>  -- run ANOTHER property's check against the seeded change (nothing stored)
S="$(realpath "$1")"; ID="$2"
D=/var/tmp/mxlpy-seedx-$ID-$$; rm -rf "$D"; mkdir -p "$D"
rsync -a --exclude .git --exclude docs --exclude publication-figures /repo/ "$D/"
(cd "$D" && patch -p1 -s < "$S/patch.diff") || { echo "patch does not apply"; rm -rf "$D"; exit 2; }
MXLPY_VERIF_REPO="$D" /verif/check "$ID" --tier quick > /verif/work/cross_$$.log 2>&1; RC=$?
echo "$(basename $S) vs $ID: exit=$RC $(grep -c '^VIOLATION' /verif/work/cross_$$.log) violation line(s); $(grep -m1 '^VIOLATION' /verif/work/cross_$$.log | grep -o 'no-failing-input-found')"
grep -B1 -m1 "^VIOLATION" /verif/work/cross_$$.log | head -1 | cut -c1-300
rm -rf "$D" /verif/work/cross_$$.log
(cd /verif && PYTHONPATH=/repo/src:/verif MXLPY_VERIF_REPO=/repo /venv/bin/python -c "
import importlib; m=importlib.import_module('harness.${ID,,}'); getattr(m,'gen',lambda:None)()" >/dev/null 2>&1)
