#!/usr/bin/env python3
"""tools/c09_switch.py tc|dups|cache snapshot|repaired [commit]

Keeps the two hand-maintained places of the C09 check consistent with the tree in /repo, separately for the three
proposed repairs:

  tc    fixes/C09-tc-placeholder-start-point.diff  (NaN placeholder axis of the time-course and protocol-time-course workers)
  dups  fixes/C09-duplicate-labels-refused.diff    (dict-keyed entry points refuse tables with equal index labels)
  cache fixes/C09-cached-steady-state-unique-index.diff (steady-state scans refuse tables with equal index labels when a result cache is given)

  snapshot   the diff is NOT applied: coq/scan/ExpectedFacts.v expects the old form (TcRequested + PtcRequested /
             DupCollapse) and the defect is the recorded finding (tc-placeholder-misses-t0 / duplicate-index-labels);
  repaired   the diff is applied (`fix:` commit <commit>): ExpectedFacts.v expects the repaired form (TcWithStart +
             PtcJoined / DupRefuse) and the defect is listed under "fixed" (it suppresses nothing: the harness only
             excuses RECORDED findings, so a reappearance is a VIOLATION with the witness as replay).
Then runs tools/mkmanifest.py (idempotent merge of known_findings.d / manifest_src.d)."""
import json, re, subprocess, sys
from pathlib import Path

V = Path(__file__).resolve().parent.parent
which = sys.argv[1] if len(sys.argv) > 1 else ""
mode = sys.argv[2] if len(sys.argv) > 2 else ""
if which not in ("tc", "dups", "cache") or mode not in ("snapshot", "repaired"):
    sys.exit(__doc__)
commit = sys.argv[3] if len(sys.argv) > 3 else "<commit-to-be-filled>"

SQ = {"vars": [[10, ["P", 0]]], "pars": [[20, ["P", 1]]], "der": [], "rxn": [[40, 5, [10], [[10, 1]]]]}
ENTRIES = {
    "tc": {
        "id": "tc-placeholder-misses-t0",
        "finding": {
            "property": "C09",
            "id": "tc-placeholder-misses-t0",
            "call_site": "src/mxlpy/scan.py _time_course_worker / _protocol_time_course_worker: Simulation.default(model, time_points=time_points)",
            "guard": "time-course scans (scan.time_course, mc.time_course) whose time points do not start at 0, and protocol-time-course scans "
                     "(scan/mc.protocol_time_course) whose time points are not exactly the axis of a successful run (t=0, every step end, nothing "
                     "beyond the protocol), WITH a failing row -- the complement of `starts_at_zero tps = true` in C09_tc_placeholder_shape_partial",
            "witness": {"case": {"spec": SQ, "kind": "tc", "tps": [1, 2], "cols": [10], "rows": [[0], [100]], "labels": [0, 1], "flavour": "blow"},
                        "mode": ["seq"]},
            "what_fails": "the integrators insert their start point t0=0 when the first requested point is later (and a protocol run also reports "
                          "the step ends and drops points beyond the protocol), so a successful row has a different time axis than the NaN placeholder "
                          "built from the requested points: time points [1,2] give t=0,1,2 for a row that works and t=1,2 for one that fails (theorems "
                          "C09_tc_placeholder_shape_refuted, C09_ptc_requested_axis_refuted; demo findings/c09_tc_placeholder_start_point.py). Proposed "
                          "repair fixes/C09-tc-placeholder-start-point.diff (the workers build the placeholder grid as the integrators / the Simulator "
                          "do; suite-neutral, 1378 pass): recorded until the lead applies it, then `tools/c09_switch.py tc repaired <commit>`.",
        },
        "fixed": "the NaN placeholder of a failing time-course / protocol-time-course scan row was built from the requested time points, while a "
                 "successful row has the axis the Simulator reports (t=0 in front when the first requested point is later; for protocols also the step "
                 "ends and nothing beyond the protocol): time points [1,2] gave t=0,1,2 for rows that work and t=1,2 for the failing row -- "
                 "fixes/C09-tc-placeholder-start-point.diff (demo: findings/c09_tc_placeholder_start_point.py; regression theorems "
                 "C09_tc_placeholder_shape_refuted / C09_ptc_requested_axis_refuted; id tc-placeholder-misses-t0)",
        "lines": {"C09_tc_repaired": None},
    },
    "dups": {
        "id": "duplicate-index-labels",
        "finding": {
            "property": "C09",
            "id": "duplicate-index-labels",
            "call_site": "src/mxlpy/scan.py time_course/protocol/protocol_time_course and mc.py time_course/protocol/protocol_time_course: "
                         "raw_results=dict(res); mc.scan_steady_state: {k: v.variables.T for k, v in res}",
            "guard": "scan tables whose index has duplicate labels (e.g. two tables concatenated without ignore_index) -- the complement of "
                     "`NoDup (map fst rows)` in C09_dict_scan_equals_independent_any_worker_partial / C09_time_course_scan_equals_independent_partial",
            "witness": {"case": {"spec": SQ, "kind": "tc", "tps": [0, 1], "cols": [10], "rows": [[0], [1], [0]], "labels": [5, 7, 5], "flavour": "plain"},
                        "mode": ["seq"]},
            "what_fails": "time-course / protocol scans key their results by the table's index label: rows with equal labels collapse to one block "
                          "(value of the last, position of the first), so rows are silently lost (theorems C09_duplicate_labels_refuted, "
                          "C09_duplicate_labels_collapse_refuted; demo findings/c09_duplicate_labels.py). Proposed repair "
                          "fixes/C09-duplicate-labels-refused.diff (the seven dict-keyed entry points refuse such a table up front with a ValueError "
                          "naming the labels; suite-neutral, 1378 pass): recorded until the lead applies it, then `tools/c09_switch.py dups repaired <commit>`.",
        },
        "fixed": "time-course / protocol scans (scan.* and mc.*, and the outer level of mc.scan_steady_state) keyed their results by the table's index "
                 "label and silently lost rows with equal labels (3 rows labelled 5,7,5 came back as 2 blocks); such a table is now refused up front "
                 "with a ValueError naming the duplicated labels -- fixes/C09-duplicate-labels-refused.diff (demo: findings/c09_duplicate_labels.py; "
                 "regression theorem C09_duplicate_labels_collapse_refuted; id duplicate-index-labels)",
        "lines": {"C09_dups_repaired": None},
    },
    "cache": {
        "id": "cached-duplicate-labels",
        "finding": {
         "property": "C09",
         "id": "cached-duplicate-labels",
         "call_site": "src/mxlpy/scan.py steady_state / src/mxlpy/mc.py steady_state: parallelise(..., inputs=list(table.iterrows()), cache=cache) -> parallel.py _load_or_run: file = cache.tmp_dir / cache.name_fn(k) with k = the row's index label",
         "guard": "steady-state scans (scan.steady_state, mc.steady_state) called WITH cache= on a table whose index has duplicate labels (e.g. two grids glued with pd.concat without ignore_index) -- the complement of `NoDup (map fst inputs)` in C09_cache_transparent_unique_labels / C09_cache_any_interleaving; without a cache, and for the dict-keyed scans (which refuse such tables), nothing is affected",
         "witness": {
          "kind": "cached-dups",
          "entry": "scan.steady_state seq",
          "labels": [
           0,
           1,
           2,
           0,
           1
          ]
         },
         "what_fails": "steady-state scans are positional and accept tables with duplicate index labels, but the result cache names its files after the row label: the second row under a label is answered with the first row's cached result (x' = k - x over k = 1..5 under labels 0,1,2,0,1 gives x = 1,2,3,1,2 instead of 1,2,3,4,5; sequentially always, in the pool depending on timing) -- right length, right index, wrong numbers (theorems C09_cache_first_row_with_label_wins, C09_cached_duplicate_labels_refuted; demo findings/c09_cached_duplicate_labels.py). Proposed repair fixes/C09-cached-steady-state-unique-index.diff (both entry points start with `if cache is not None: _require_unique_index(table)`: a visible refusal, as the dict-keyed scans give; suite-neutral): recorded until the lead applies it, then `tools/c09_switch.py cache repaired <commit>`."
        },
        "fixed": "scan.steady_state / mc.steady_state accepted a table with equal index labels together with a result cache, whose files are named "
                 "after the row label: the second row under a label was answered with the first row's cached result (x' = k - x over k = 1..5 under "
                 "labels 0,1,2,0,1 gave x = 1,2,3,1,2); with a cache such a table is now refused up front with the ValueError of the dict-keyed scans -- "
                 "fixes/C09-cached-steady-state-unique-index.diff (demo: findings/c09_cached_duplicate_labels.py; regression theorems "
                 "C09_cache_first_row_with_label_wins / C09_cached_duplicate_labels_refuted; id cached-duplicate-labels)",
        "lines": {"C09_cache_repaired": None},
    },
}
E = ENTRIES[which]
ef = V / "coq/scan/ExpectedFacts.v"
text = ef.read_text()
val = "true" if mode == "repaired" else "false"
for name in E["lines"]:
    new = re.sub(rf"(Definition {name} : bool := )\w+\.", rf"\g<1>{val}.", text)
    if new == text and f"Definition {name} : bool := {val}." not in text:
        sys.exit(f"could not find the switch line {name} in {ef}")
    text = new
ef.write_text(text)
kfp = V / "known_findings.d/C09.json"
kf = json.loads(kfp.read_text())
kf["findings"] = [f for f in kf.get("findings", []) if f.get("id") != E["id"]]
kf["fixed"] = [x for x in kf.get("fixed", []) if f"id {E['id']})" not in x]
if mode == "snapshot":
    kf["findings"].append(E["finding"])
else:
    kf["fixed"].append(f"fixed: property=C09 {commit} " + E["fixed"])
kfp.write_text(json.dumps(kf, indent=1) + "\n")
subprocess.run([sys.executable, str(V / "tools/mkmanifest.py")], check=True)
print(f"C09 check now expects the {mode} form of '{which}'")
