import sys
t=open('/verif/tools/continue_prompt.txt').read()
ids,area,logical,mods,notes=sys.argv[1:6]
print(t.replace('{IDS}',ids).replace('{ID}',ids.split('+')[0].split(',')[0].strip()).replace('{AREA}',area).replace('{LOGICAL}',logical).replace('{MODS}',mods).replace('{NOTES}',notes))
