"""Abstract model descriptions shared by C01 / C03 / C13: generator, builder of the real
mxlpy.Model through the public API, Gallina literal printer, and an INDEPENDENT evaluator
(memoised recursion on names over exact integers -- no sorting, no cache, no code shared with the
Coq model).

Names are small ints: 0 is "time"; k>0 is the string f"n{k:04d}" (string order = numeric order).

desc = {
  "par": [(n, ("plain", v) | ("ia", fid, [args]))],
  "var": [(n, ("plain", v) | ("ia", fid, [args]))],
  "der": [(n, fid, [args])],
  "rxn": [(n, fid, [args], [(cpd, coef)])],        coef = ("stat", q) | ("dyn", fid, [args]) | ("named", n)
  "sur": [(n, mfid, [args], [outs], [(out, [(cpd, coef)])])],
  "ro":  [(n, fid, [args])],
  "dat": [(n, v)],
}
"""

from __future__ import annotations

from typing import Any

from harness import fnlib
from harness.common import clist, cn, cz

BIG = 2**50


def nm(k: int) -> str:
    return "time" if k == 0 else f"n{k:04d}"


def un(s: str) -> int:
    return 0 if s == "time" else int(s[1:])


# ---------------------------------------------------------------------------------------
# generator of well-formed (complete, acyclic) models
# ---------------------------------------------------------------------------------------


def gen_model(rng, *, max_comp: int = 8, ia_bias: float = 0.25, surrogates: bool = True, data: bool = True) -> dict:
    nxt = [1]

    def fresh() -> int:
        nxt[0] += 1
        return nxt[0] - 1 + 10

    desc: dict[str, list] = {"par": [], "var": [], "der": [], "rxn": [], "sur": [], "ro": [], "dat": []}
    pool: list[int] = [0] if rng.random() < 0.5 else []  # names a component may use as argument
    params: list[int] = []
    for _ in range(rng.randint(1, 3)):
        n = fresh()
        desc["par"].append((n, ("plain", rng.randint(-2, 2))))
        pool.append(n)
        params.append(n)
    variables: list[int] = []
    for _ in range(rng.randint(1, 3)):
        n = fresh()
        desc["var"].append((n, ("plain", rng.randint(-2, 2))))
        pool.append(n)
        variables.append(n)
    if data and rng.random() < 0.3:
        n = fresh()
        desc["dat"].append((n, rng.randint(-2, 2)))
        pool.append(n)
    late_vars: list[int] = []

    def pick_args(ar: int) -> list[int]:
        return [rng.choice(pool) for _ in range(ar)] if pool else []

    def pick_fn() -> tuple[int, list[int]]:
        ar = rng.choice([0, 1, 1, 2, 2, 2, 3]) if pool else 0
        fid = rng.choice(fnlib.BY_ARITY[ar])
        return fid, pick_args(ar)

    datas: set[int] = {n for n, _ in desc["dat"]}

    def pick_coef(named_ok: bool = True) -> tuple:
        # guard of the model/theorems: a computed coefficient does not name a data set (the code pops the
        # data keys before coefficients are evaluated, in every entry point alike); surrogate
        # stoichiometries take numbers or Derived only (str is converted by add_reaction only)
        r = rng.random()
        if r < 0.55:
            return ("stat", rng.choice([-2, -1, 1, 1, 2, 3]))
        if r < 0.7 and named_ok:
            return ("named", rng.choice(params))
        fid, args = pick_fn()
        if set(args) & datas:
            return ("stat", 1)
        return ("dyn", fid, args)

    for _ in range(rng.randint(1, max_comp)):
        kind = rng.choices(["der", "rxn", "iapar", "iavar", "sur"], weights=[4, 4, 4 * ia_bias, 4 * ia_bias, 1.2 if surrogates else 0])[0]
        if kind == "der":
            n = fresh()
            fid, args = pick_fn()
            desc["der"].append((n, fid, args))
            pool.append(n)
        elif kind == "rxn":
            n = fresh()
            fid, args = pick_fn()
            targets = rng.sample(variables + late_vars, rng.randint(0, min(2, len(variables + late_vars))))
            desc["rxn"].append((n, fid, args, [(c, pick_coef()) for c in targets]))
            pool.append(n)
        elif kind == "iapar":
            n = fresh()
            fid, args = pick_fn()
            desc["par"].append((n, ("ia", fid, args)))
            pool.append(n)
            params.append(n)
        elif kind == "iavar":
            n = fresh()
            fid, args = pick_fn()
            desc["var"].append((n, ("ia", fid, args)))
            pool.append(n)
            late_vars.append(n)
        else:
            n = fresh()
            mf = rng.randrange(len(fnlib.MULTI))
            if not pool:
                continue
            args = pick_args(fnlib.MULTI_ARITY[mf])
            outs = [fresh() for _ in range(fnlib.MULTI_OUT[mf])]
            st = []
            for o in outs:
                if rng.random() < 0.6:
                    targets = rng.sample(variables + late_vars, rng.randint(0, min(2, len(variables + late_vars))))
                    st.append((o, [(c, pick_coef(named_ok=False)) for c in targets]))
            desc["sur"].append((n, mf, args, outs, st))
            pool += outs
    if rng.random() < 0.3 and pool:
        n = fresh()
        fid, args = pick_fn()
        desc["ro"].append((n, fid, args))
    # declaration order within each kind is arbitrary
    for k in ("par", "var", "der", "rxn", "sur"):
        rng.shuffle(desc[k])
    return desc


def gen_state(rng, desc: dict) -> tuple[int, dict[int, int]]:
    return rng.randint(0, 3), {n: rng.randint(-2, 2) for n, _ in desc["var"]}


# ---------------------------------------------------------------------------------------
# builder (public API only)
# ---------------------------------------------------------------------------------------


def py_coef(c: tuple) -> Any:
    from mxlpy.types import Derived

    if c[0] == "stat":
        return c[1]
    if c[0] == "named":
        return nm(c[1])
    return Derived(fn=fnlib.FNS[c[1]], args=[nm(a) for a in c[2]])


def py_valia(v: tuple) -> Any:
    from mxlpy.types import InitialAssignment

    if v[0] == "plain":
        return v[1]
    return InitialAssignment(fn=fnlib.FNS[v[1]], args=[nm(a) for a in v[2]])


def py_surrogate(s: tuple) -> Any:
    from mxlpy.surrogates.abstract import MockSurrogate

    _n, mf, args, outs, st = s
    return MockSurrogate(
        fn=fnlib.MULTI[mf],
        args=[nm(a) for a in args],
        outputs=[nm(o) for o in outs],
        stoichiometries={nm(o): {nm(c): py_coef(cf) for c, cf in ent} for o, ent in st},
    )


def build(desc: dict) -> Any:
    from mxlpy import Model

    m = Model()
    for n, v in desc["dat"]:
        m.add_data(nm(n), v)  # scalar "data set": the model only passes it on to functions
    for n, v in desc["par"]:
        m.add_parameter(nm(n), py_valia(v))
    for n, v in desc["var"]:
        m.add_variable(nm(n), py_valia(v))
    for n, fid, args in desc["der"]:
        m.add_derived(nm(n), fn=fnlib.FNS[fid], args=[nm(a) for a in args])
    for n, fid, args, st in desc["rxn"]:
        m.add_reaction(nm(n), fn=fnlib.FNS[fid], args=[nm(a) for a in args], stoichiometry={nm(c): py_coef(cf) for c, cf in st})
    for s in desc["sur"]:
        m.add_surrogate(nm(s[0]), py_surrogate(s))
    for n, fid, args in desc["ro"]:
        m.add_readout(nm(n), fn=fnlib.FNS[fid], args=[nm(a) for a in args])
    return m


# ---------------------------------------------------------------------------------------
# Gallina literals
# ---------------------------------------------------------------------------------------


def coq_coef(c: tuple) -> str:
    if c[0] == "stat":
        return f"CStat {cz(c[1])}"
    if c[0] == "named":
        return f"CDyn 0%N {clist([cn(c[1])])}"  # fns.constant(x) = x = f_id
    return f"CDyn {cn(c[1])} {clist(map(cn, c[2]))}"


def coq_valia(v: tuple) -> str:
    return f"Plain {cz(v[1])}" if v[0] == "plain" else f"IA {cn(v[1])} {clist(map(cn, v[2]))}"


def coq_st(st: list) -> str:
    return clist(f"({cn(c)}, {coq_coef(cf)})" for c, cf in st)


def coq_model(desc: dict) -> str:
    par = clist(f"({cn(n)}, {coq_valia(v)})" for n, v in desc["par"])
    var = clist(f"({cn(n)}, {coq_valia(v)})" for n, v in desc["var"])
    der = clist(f"({cn(n)}, mkDer {cn(f)} {clist(map(cn, a))})" for n, f, a in desc["der"])
    rxn = clist(f"({cn(n)}, mkRxn {cn(f)} {clist(map(cn, a))} {coq_st(st)})" for n, f, a, st in desc["rxn"])
    sur = clist(
        f"({cn(n)}, mkSur {cn(f)} {clist(map(cn, a))} {clist(map(cn, o))} {clist('(' + cn(x) + ', ' + coq_st(e) + ')' for x, e in st)})"
        for n, f, a, o, st in desc["sur"]
    )
    ro = clist(f"({cn(n)}, mkDer {cn(f)} {clist(map(cn, a))})" for n, f, a in desc["ro"])
    dat = clist(f"({cn(n)}, {cz(v)})" for n, v in desc["dat"])
    return f"(mkModel {par} {var} {der} {rxn} {sur} {ro} {dat})"


def coq_env(pairs) -> str:
    return clist(f"({cn(k)}, {cz(v)})" for k, v in pairs)


# ---------------------------------------------------------------------------------------
# independent evaluator (the specification, executable)
# ---------------------------------------------------------------------------------------


class Unbounded(Exception):
    """an intermediate left the exactly-representable range: the case is discarded (and counted)"""


class Oracle:
    def __init__(self, desc: dict) -> None:
        self.d = desc
        self.par = dict(desc["par"])
        self.var = dict(desc["var"])
        self.der = {n: (f, a) for n, f, a in desc["der"]}
        self.rxn = {n: (f, a, st) for n, f, a, st in desc["rxn"]}
        self.dat = dict(desc["dat"])
        self.sur_of_out: dict[int, tuple] = {}
        for s in desc["sur"]:
            for i, o in enumerate(s[3]):
                self.sur_of_out[o] = (s, i)
        self._init: dict[int, int] | None = None

    def _chk(self, v: int) -> int:
        if abs(v) >= BIG:
            raise Unbounded
        return v

    def value(self, n: int, state: dict[int, int], t: int, memo: dict | None = None, frozen: bool = True) -> int:
        """Value of name n at (state, t).  Initial-assignment parameters are frozen at (initial state, 0)."""
        memo = {} if memo is None else memo
        if n in memo:
            return memo[n]
        if n == 0:
            v = t
        elif n in self.var:
            v = state[n]
        elif n in self.dat:
            v = self.dat[n]
        elif n in self.par:
            p = self.par[n]
            if p[0] == "plain":
                v = p[1]
            else:
                v = self.initial_env()[n]
        elif n in self.der:
            f, a = self.der[n]
            v = fnlib.fsem(f, [self.value(x, state, t, memo) for x in a])
        elif n in self.rxn:
            f, a, _ = self.rxn[n]
            v = fnlib.fsem(f, [self.value(x, state, t, memo) for x in a])
        elif n in self.sur_of_out:
            s, i = self.sur_of_out[n]
            v = fnlib.fsemN(s[1], [self.value(x, state, t, memo) for x in s[2]])[i]
        else:
            raise KeyError(n)
        memo[n] = self._chk(v)
        return memo[n]

    def initial_env(self) -> dict[int, int]:
        """Everything at time 0 from the declared initial state, initial assignments resolved in
        dependency order (by demand-driven recursion)."""
        if self._init is not None:
            return self._init
        memo: dict[int, int] = {}
        ias = {n: v for n, v in list(self.par.items()) + list(self.var.items()) if v[0] == "ia"}

        def val(n: int) -> int:
            if n in memo:
                return memo[n]
            if n == 0:
                v = 0
            elif n in ias:
                _, f, a = ias[n]
                v = fnlib.fsem(f, [val(x) for x in a])
            elif n in self.var:
                v = self.var[n][1]
            elif n in self.par:
                v = self.par[n][1]
            elif n in self.dat:
                v = self.dat[n]
            elif n in self.der:
                f, a = self.der[n]
                v = fnlib.fsem(f, [val(x) for x in a])
            elif n in self.rxn:
                f, a, _ = self.rxn[n]
                v = fnlib.fsem(f, [val(x) for x in a])
            elif n in self.sur_of_out:
                s, i = self.sur_of_out[n]
                v = fnlib.fsemN(s[1], [val(x) for x in s[2]])[i]
            else:
                raise KeyError(n)
            memo[n] = self._chk(v)
            return memo[n]

        self._init = memo
        for n in list(ias) + list(self.var) + list(self.par) + list(self.der) + list(self.rxn) + list(self.sur_of_out):
            val(n)
        return memo

    def initial_conditions(self) -> dict[int, int]:
        e = self.initial_env()
        return {n: e[n] for n, _ in self.d["var"]}

    def coef(self, c: tuple, state, t, memo) -> int:
        if c[0] == "stat":
            return c[1]
        if c[0] == "named":
            return self.value(c[1], state, t, memo)
        return self._chk(fnlib.fsem(c[1], [self.value(x, state, t, memo) for x in c[2]]))

    def flux_entries(self):
        """(flux name, [(cpd, coef)]) over reactions then surrogate stoichiometries."""
        for n, _f, _a, st in self.d["rxn"]:
            yield n, st
        for s in self.d["sur"]:
            for o, ent in s[4]:
                yield o, ent

    def rhs(self, state: dict[int, int], t: int) -> dict[int, int]:
        memo: dict[int, int] = {}
        dx = {n: 0 for n, _ in self.d["var"]}
        for flux, st in self.flux_entries():
            for cpd, c in st:
                dx[cpd] = self._chk(dx[cpd] + self.coef(c, state, t, memo) * self.value(flux, state, t, memo))
        return dx

    def only_params(self, n: int, seen: frozenset = frozenset()) -> bool:
        """derived parameter <=> depends, through any chain, only on parameters"""
        if n in self.par:
            return True
        if n in self.der and n not in seen:
            return all(self.only_params(a, seen | {n}) for a in self.der[n][1])
        return False

    def all_names(self) -> list[int]:
        return (
            [n for n, _ in self.d["var"]]
            + [n for n, _ in self.d["par"]]
            + list(self.der)
            + list(self.rxn)
            + list(self.sur_of_out)
        )


# =======================================================================================
# APPENDED (second deepening round of C01 / C02 / C13).  Nothing above was changed; other checks draw from
# gen_model with their own rng streams, so everything new lives in new functions.
# =======================================================================================


def all_value_names(desc: dict) -> list[int]:
    """Every name that exists as a VALUE in the model (what a component may legally name), without `time`.
    A surrogate's container name (s[0]) is NOT a value: only its outputs are."""
    out = [n for n, _ in desc["par"]] + [n for n, _ in desc["var"]] + [n for n, _ in desc["dat"]]
    out += [n for n, _, _ in desc["der"]] + [n for n, *_ in desc["rxn"]]
    for s in desc["sur"]:
        out += list(s[3])
    return out


def _fresh_from(desc: dict):
    used = set(all_value_names(desc)) | {s[0] for s in desc["sur"]} | {n for n, *_ in desc["ro"]}
    nxt = [max(used | {10}) + 1]

    def fresh() -> int:
        nxt[0] += 1
        return nxt[0] - 1

    return fresh


def copy_desc(desc: dict) -> dict:
    return {k: list(v) for k, v in desc.items()}


def retime(rng, desc: dict, where: str) -> dict:
    """A copy of `desc` in which `time` (name 0) is read by exactly one kind of component:

    where = "sur"      only a surrogate names time (no derived quantity, reaction or coefficient does); a derived
                       quantity and a reaction are put downstream of the surrogate's outputs
            "coef"     only a computed stoichiometric coefficient names time
            "data_der" only a derived quantity that also reads a data set names time (a reaction reads it)
            "none"     nothing names time (autonomous model)
    Initial assignments may keep naming time (they are evaluated once, at time 0).  The result is again a complete
    acyclic well-formed description (new components only name base values or each other in dependency order)."""
    from harness import fnlib

    d = copy_desc(desc)
    fresh = _fresh_from(d)
    plain_p = [n for n, v in d["par"] if v[0] == "plain"]
    variables = [n for n, _ in d["var"]]
    base = plain_p + [n for n, v in d["var"] if v[0] == "plain"]

    def sub(args):
        return [rng.choice(plain_p) if a == 0 else a for a in args]

    def sub_coef(c):
        return ("dyn", c[1], sub(c[2])) if c[0] == "dyn" else c

    d["der"] = [(n, f, sub(a)) for n, f, a in d["der"]]
    d["rxn"] = [(n, f, sub(a), [(c, sub_coef(cf)) for c, cf in st]) for n, f, a, st in d["rxn"]]
    d["sur"] = [(n, mf, sub(a), outs, [(o, [(c, sub_coef(cf)) for c, cf in ent]) for o, ent in st]) for n, mf, a, outs, st in d["sur"]]
    d["ro"] = [(n, f, sub(a)) for n, f, a in d["ro"]]
    if where == "none":
        return d
    if where == "sur":
        if d["sur"] and rng.random() < 0.6:
            i = rng.randrange(len(d["sur"]))
            n, mf, a, outs, st = d["sur"][i]
            a = list(a)
            a[rng.randrange(len(a))] = 0
            d["sur"][i] = (n, mf, a, outs, st)
            outs_all = list(outs)
        else:
            mf = rng.randrange(len(fnlib.MULTI))
            a = [rng.choice(base) for _ in range(fnlib.MULTI_ARITY[mf])]
            a[rng.randrange(len(a))] = 0
            n = fresh()
            outs_all = [fresh() for _ in range(fnlib.MULTI_OUT[mf])]
            st = [(outs_all[0], [(rng.choice(variables), ("stat", rng.choice([-1, 1, 2])))])]
            d["sur"].append((n, mf, a, outs_all, st))
        # something downstream of the time-reading surrogate: a derived quantity and a reaction on it
        dn = fresh()
        d["der"].append((dn, rng.choice(fnlib.BY_ARITY[2]), [rng.choice(outs_all), rng.choice(base)]))
        d["rxn"].append((fresh(), rng.choice(fnlib.BY_ARITY[1]), [dn], [(rng.choice(variables), ("stat", rng.choice([-2, 1, 3])))]))
    elif where == "coef":
        cf = ("dyn", rng.choice(fnlib.BY_ARITY[2]), [0, rng.choice(plain_p)]) if rng.random() < 0.5 else ("dyn", rng.choice(fnlib.BY_ARITY[1]), [0])
        if d["rxn"] and rng.random() < 0.7:
            i = rng.randrange(len(d["rxn"]))
            n, f, a, st = d["rxn"][i]
            tgt = rng.choice(variables)
            st = [(c, x) for c, x in st if c != tgt] + [(tgt, cf)]
            d["rxn"][i] = (n, f, a, st)
        else:
            d["rxn"].append((fresh(), rng.choice(fnlib.BY_ARITY[1]), [rng.choice(base)], [(rng.choice(variables), cf)]))
    elif where == "data_der":
        if not d["dat"]:
            d["dat"].append((fresh(), rng.randint(-2, 2)))
        dn = fresh()
        d["der"].append((dn, rng.choice(fnlib.BY_ARITY[2]), [d["dat"][0][0], 0]))
        d["rxn"].append((fresh(), rng.choice(fnlib.BY_ARITY[2]), [dn, rng.choice(base)], [(rng.choice(variables), ("stat", rng.choice([-1, 2])))]))
    else:
        raise ValueError(where)
    return d


def reads_time(desc: dict) -> dict[str, bool]:
    """Which kinds of component name `time` directly."""
    return {
        "der": any(0 in a for _, _, a in desc["der"]),
        "rxn": any(0 in a for _, _, a, _ in desc["rxn"]),
        "sur": any(0 in s[2] for s in desc["sur"]),
        "coef": any(c[0] == "dyn" and 0 in c[2] for _, st in Oracle(desc).flux_entries() for _, c in st),
    }


# ---- declaration orders -----------------------------------------------------------------


def decl_items(desc: dict) -> list[tuple[str, int]]:
    """(kind, name) of every declared item (readouts excluded: they are not part of the dependency graph)."""
    out = []
    for k in ("dat", "par", "var", "der", "rxn", "sur"):
        out += [(k, it[0]) for it in desc[k]]
    return out


def reorder(desc: dict, seq: list[tuple[str, int]]) -> dict:
    """The description whose per-kind lists follow the global declaration sequence `seq`."""
    d = copy_desc(desc)
    for k in ("dat", "par", "var", "der", "rxn", "sur"):
        by = {it[0]: it for it in desc[k]}
        d[k] = [by[n] for kk, n in seq if kk == k]
        assert len(d[k]) == len(desc[k])
    return d


def build_ordered(desc: dict, seq: list[tuple[str, int]]) -> Any:
    """Build through the public API, adding the items one by one in the order `seq` (kinds interleaved)."""
    from mxlpy import Model

    m = Model()
    by = {k: {it[0]: it for it in desc[k]} for k in ("dat", "par", "var", "der", "rxn", "sur")}
    for k, n in seq:
        it = by[k][n]
        if k == "dat":
            m.add_data(nm(n), it[1])
        elif k == "par":
            m.add_parameter(nm(n), py_valia(it[1]))
        elif k == "var":
            m.add_variable(nm(n), py_valia(it[1]))
        elif k == "der":
            m.add_derived(nm(n), fn=fnlib.FNS[it[1]], args=[nm(a) for a in it[2]])
        elif k == "rxn":
            m.add_reaction(nm(n), fn=fnlib.FNS[it[1]], args=[nm(a) for a in it[2]], stoichiometry={nm(c): py_coef(cf) for c, cf in it[3]})
        else:
            m.add_surrogate(nm(n), py_surrogate(it))
    for n, fid, args in desc["ro"]:
        m.add_readout(nm(n), fn=fnlib.FNS[fid], args=[nm(a) for a in args])
    return m


# ---- the dependency graph of a description, judged independently (Kahn; no code shared with the sorter) ------


def graph_components(desc: dict) -> list[tuple[int, list[int], list[int]]]:
    """(component name, names it requires, names it provides) for everything `_create_cache` has to order:
    initial assignments, derived quantities, reactions, surrogates (which provide their OUTPUTS, not their name)."""
    out = []
    for n, v in desc["var"] + desc["par"]:
        if v[0] == "ia":
            out.append((n, list(v[2]), [n]))
    out += [(n, list(a), [n]) for n, _, a in desc["der"]]
    out += [(n, list(a), [n]) for n, _, a, _ in desc["rxn"]]
    out += [(s[0], list(s[2]), list(s[3])) for s in desc["sur"]]
    return out


def graph_outcome(desc: dict) -> tuple:
    """("ok",) | ("missing", {component: sorted names that do not exist}) | ("circular", [components on/behind a cycle])"""
    comps = graph_components(desc)
    base = {0} | {n for n, v in desc["par"] if v[0] == "plain"} | {n for n, v in desc["var"] if v[0] == "plain"} | {n for n, _ in desc["dat"]}
    exists = set(base)
    for _, _, prov in comps:
        exists |= set(prov)
    missing = {n: sorted(set(req) - exists) for n, req, _ in comps if set(req) - exists}
    if missing:
        return ("missing", missing)
    have, left, progress = set(base), list(comps), True
    while left and progress:
        progress = False
        for c in list(left):
            if set(c[1]) <= have:
                have |= set(c[2])
                left.remove(c)
                progress = True
    return ("circular", sorted(c[0] for c in left)) if left else ("ok",)


def rewire(desc: dict, kind: str, name: int, new_args: list[int]) -> dict:
    """Copy of desc in which component `name` (kind: der | rxn | sur | iapar | iavar) names `new_args` instead."""
    d = copy_desc(desc)
    if kind == "der":
        d["der"] = [(n, f, list(new_args) if n == name else a) for n, f, a in desc["der"]]
    elif kind == "rxn":
        d["rxn"] = [(n, f, list(new_args) if n == name else a, st) for n, f, a, st in desc["rxn"]]
    elif kind == "sur":
        d["sur"] = [(n, mf, list(new_args) if n == name else a, o, st) for n, mf, a, o, st in desc["sur"]]
    elif kind == "iapar":
        d["par"] = [(n, ("ia", v[1], list(new_args)) if n == name else v) for n, v in desc["par"]]
    elif kind == "iavar":
        d["var"] = [(n, ("ia", v[1], list(new_args)) if n == name else v) for n, v in desc["var"]]
    else:
        raise ValueError(kind)
    return d


def apply_rewire(m: Any, desc: dict, kind: str, name: int, new_args: list[int]) -> None:
    """The same edit on the real model, through the public update_* API (args only; the function is kept)."""
    from mxlpy.types import InitialAssignment

    a = [nm(x) for x in new_args]
    if kind == "der":
        m.update_derived(nm(name), args=a)
    elif kind == "rxn":
        m.update_reaction(nm(name), args=a)
    elif kind == "sur":
        m.update_surrogate(nm(name), args=a)
    elif kind == "iapar":
        fid = dict(desc["par"])[name][1]
        m.update_parameter(nm(name), InitialAssignment(fn=fnlib.FNS[fid], args=a))
    elif kind == "iavar":
        fid = dict(desc["var"])[name][1]
        m.update_variable(nm(name), InitialAssignment(fn=fnlib.FNS[fid], args=a))
    else:
        raise ValueError(kind)


def rewirable(desc: dict) -> list[tuple[str, int, list[int]]]:
    """(kind, name, current args) of every component with at least one argument."""
    out = [("der", n, list(a)) for n, _, a in desc["der"] if a]
    out += [("rxn", n, list(a)) for n, _, a, _ in desc["rxn"] if a]
    out += [("sur", s[0], list(s[2])) for s in desc["sur"] if s[2]]
    out += [("iapar", n, list(v[2])) for n, v in desc["par"] if v[0] == "ia" and v[2]]
    out += [("iavar", n, list(v[2])) for n, v in desc["var"] if v[0] == "ia" and v[2]]
    return out


# =======================================================================================
# APPENDED (closing round, seeded C01-9): quantities computed from data sets only.  New functions only.
# =======================================================================================


def plant_data_readers(rng, desc: dict) -> dict:
    """A copy of `desc` that holds at least one data set and, downstream of it,

    * a derived quantity whose arguments are ONLY data sets and plain parameters (never the state, never time),
    * with probability 1/2 a second derived quantity chained to the first (first + a parameter, still state-free),
    * with probability 1/2 a derived quantity reading the data set AND a variable or time,
    * with probability 1/3 a parameter defined by an initial assignment that reads the data set,
    * one reaction per planted quantity that reads it and moves a variable with a numeric coefficient.

    Everything planted names base values or earlier planted names only, so the description stays complete and acyclic."""
    from harness import fnlib

    d = copy_desc(desc)
    fresh = _fresh_from(d)
    plain_p = [n for n, v in d["par"] if v[0] == "plain"]
    variables = [n for n, _ in d["var"]]
    if not d["dat"]:
        d["dat"].append((fresh(), rng.randint(-2, 2)))
    if len(d["dat"]) < 2 and rng.random() < 0.4:
        d["dat"].append((fresh(), rng.randint(-2, 2)))
    dats = [n for n, _ in d["dat"]]

    def rxn_on(x: int) -> None:
        f = rng.choice(fnlib.BY_ARITY[1] + fnlib.BY_ARITY[2])
        a = [x] if fnlib.ARITY[f] == 1 else rng.sample([x, rng.choice(plain_p + variables)], 2)
        d["rxn"].append((fresh(), f, a, [(rng.choice(variables), ("stat", rng.choice([-2, -1, 1, 2, 3])))]))

    # (1) data and parameters only
    ar = rng.choice([1, 2, 2, 3])
    a = [rng.choice(dats)] + [rng.choice(plain_p + dats) for _ in range(ar - 1)]
    rng.shuffle(a)
    d1 = fresh()
    d["der"].append((d1, rng.choice(fnlib.BY_ARITY[ar]), a))
    last = d1
    if rng.random() < 0.5:
        d2 = fresh()
        a2 = [d1, rng.choice(plain_p)]
        rng.shuffle(a2)
        d["der"].append((d2, rng.choice(fnlib.BY_ARITY[2]), a2))
        last = d2
    rxn_on(last)
    if last != d1 and rng.random() < 0.5:
        rxn_on(d1)
    # (2) data and state / time
    if rng.random() < 0.5:
        d3 = fresh()
        a3 = [rng.choice(dats), rng.choice(variables + [0])]
        rng.shuffle(a3)
        d["der"].append((d3, rng.choice(fnlib.BY_ARITY[2]), a3))
        rxn_on(d3)
    # (3) a parameter assigned from the data set (resolved once, at time zero, from the data the model holds then)
    if rng.random() < 1 / 3:
        p = fresh()
        a4 = [rng.choice(dats), rng.choice(plain_p)]
        d["par"].append((p, ("ia", rng.choice(fnlib.BY_ARITY[2]), a4)))
        rxn_on(p)
    for k in ("par", "der", "rxn"):
        rng.shuffle(d[k])
    return d


def data_only_names(desc: dict) -> list[int]:
    """derived quantities that depend, through any chain, only on data sets and parameters and on at least one data set"""
    par = {n for n, _ in desc["par"]}
    dat = {n for n, _ in desc["dat"]}
    der = {n: a for n, _, a in desc["der"]}
    memo: dict[int, tuple[bool, bool]] = {}

    def go(n: int) -> tuple[bool, bool]:  # (state free, reads data)
        if n in memo:
            return memo[n]
        if n in dat:
            r = (True, True)
        elif n in par:
            r = (True, False)
        elif n in der:
            rs = [go(a) for a in der[n]]
            r = (all(x for x, _ in rs), any(y for _, y in rs))
        else:
            r = (False, False)
        memo[n] = r
        return r

    return [n for n in der if go(n) == (True, True)]


# =======================================================================================
# APPENDED (closing round, seeded C02-7 / C02-8): removal of base quantities (parameter, variable, data set) on a
# description and on the live model, and putting them back.  New functions only.
# =======================================================================================


def coef_names(desc: dict) -> set[int]:
    """names read by stoichiometric coefficients (they are evaluated outside the sorted dependency graph)"""
    out: set[int] = set()
    for _flux, ent in Oracle(desc).flux_entries():
        for _cpd, c in ent:
            if c[0] == "named":
                out.add(c[1])
            elif c[0] == "dyn":
                out |= set(c[2])
    return out


def removable_bases(desc: dict) -> list[tuple[str, int, bool]]:
    """(kind, name, named_by_a_component) of every plain parameter / plain variable / data set that may be removed
    through the public API without touching anything the dependency graph does not cover: not read by a coefficient or
    a readout; a variable only while another variable stays."""
    taboo = coef_names(desc) | {a for _, _, args in desc["ro"] for a in args}
    used = {a for _, req, _ in graph_components(desc) for a in req}
    out = [("par", n, n in used) for n, v in desc["par"] if v[0] == "plain" and n not in taboo]
    if len(desc["var"]) >= 2:
        out += [("var", n, n in used) for n, v in desc["var"] if v[0] == "plain" and n not in taboo]
    out += [("dat", n, n in used) for n, _ in desc["dat"] if n not in taboo]
    return out


def remove_base(desc: dict, kind: str, name: int) -> dict:
    """The description after remove_parameter / remove_variable (stoichiometric entries of the variable go with it) /
    remove_data."""
    d = copy_desc(desc)
    assert any(it[0] == name for it in desc[kind]), (kind, name)
    d[kind] = [it for it in desc[kind] if it[0] != name]
    if kind == "var":
        d["rxn"] = [(n, f, a, [(c, cf) for c, cf in st if c != name]) for n, f, a, st in desc["rxn"]]
        d["sur"] = [(n, mf, a, o, [(x, [(c, cf) for c, cf in ent if c != name]) for x, ent in st]) for n, mf, a, o, st in desc["sur"]]
    return d


def apply_remove(m: Any, kind: str, name: int) -> None:
    if kind == "par":
        m.remove_parameter(nm(name))
    elif kind == "var":
        m.remove_variable(nm(name))
    elif kind == "dat":
        m.remove_data(nm(name))
    else:
        raise ValueError(kind)


def add_base_back(desc: dict, orig: dict, kind: str, name: int) -> dict:
    """The description after the removed item is declared again (with its original value): it is now the LAST of its
    kind; stoichiometric entries that went with a removed variable do not come back."""
    d = copy_desc(desc)
    d[kind] = list(desc[kind]) + [next(it for it in orig[kind] if it[0] == name)]
    return d


def apply_add_back(m: Any, orig: dict, kind: str, name: int) -> None:
    it = next(it for it in orig[kind] if it[0] == name)
    if kind == "par":
        m.add_parameter(nm(name), py_valia(it[1]))
    elif kind == "var":
        m.add_variable(nm(name), py_valia(it[1]))
    elif kind == "dat":
        m.add_data(nm(name), it[1])
    else:
        raise ValueError(kind)
