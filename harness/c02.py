"""C02 -- dependency resolution is order-independent; bad graphs are rejected.

Tie to the source:
  (1) facts regenerated from src/mxlpy/model.py::_sort_dependencies into coq/core/GenSortFacts.v
      (cap expression, comparison, last_name branch, initial completeness check) -- PropsC02.v
      pins them, so an edit there breaks a proof obligation;
  (2) correspondence: the Gallina model `Sort.sort gen_sort_facts` is evaluated inside Coq
      (vm_compute) on the same graphs the real `_sort_dependencies` ran on, outcomes compared
      exactly (order list / missing map / circular payload);
  (3) an independent oracle (Kahn + completeness, no code shared with the model) judges the
      PROPERTY on the implementation's outcome, directly on `_sort_dependencies` and through
      `Model.get_args()` for declaration-order independence of the values.
"""

from __future__ import annotations

import ast
import itertools
import signal
from typing import Any

from harness import common
from harness.common import Run, cn, clist

AREA = "core"
PROPS = "PropsC02.v"


# ---------------------------------------------------------------------------------------
# (1) fact extraction (fail-closed)
# ---------------------------------------------------------------------------------------


def extract_facts() -> dict[str, str]:
    src = (common.REPO / "src/mxlpy/model.py").read_text()
    tree = ast.parse(src)
    fn = next((n for n in tree.body if isinstance(n, ast.FunctionDef) and n.name == "_sort_dependencies"), None)
    facts = {"cap": "CapUnknown", "cmp": "CmpUnknown", "shortcut": "ScUnknown", "checks_first": "false"}
    if fn is None:
        return facts
    body = [s for s in fn.body if not (isinstance(s, ast.Expr) and isinstance(s.value, ast.Constant))]
    # first statement: _check_if_is_sortable(available, elements)
    if body and isinstance(body[0], ast.Expr) and isinstance(body[0].value, ast.Call):
        c = body[0].value
        if (
            isinstance(c.func, ast.Name)
            and c.func.id == "_check_if_is_sortable"
            and [ast.unparse(a) for a in c.args] == ["available", "elements"]
            and not c.keywords
        ):
            facts["checks_first"] = "true"
    # the checker itself must be the function we model (compare a normalised dump)
    chk = next((n for n in tree.body if isinstance(n, ast.FunctionDef) and n.name == "_check_if_is_sortable"), None)
    if chk is None or _norm(chk) != _CHECK_SORTABLE_SHAPE:
        facts["checks_first"] = "false"
    for node in ast.walk(fn):
        if isinstance(node, ast.Assign) and ast.unparse(node.targets[0]) == "max_iterations":
            e = ast.unparse(node.value).replace(" ", "")
            facts["cap"] = {
                "len(elements)**2": "CapSquare",
                "len(elements)*len(elements)": "CapSquare",
                "len(elements)*2": "CapDouble",
                "2*len(elements)": "CapDouble",
                "len(elements)": "CapLinear",
                "len(elements)**3": "CapCube",
            }.get(e, "CapUnknown")
        if isinstance(node, ast.If):
            t = ast.unparse(node.test).replace(" ", "")
            if t in ("i>max_iterations", "max_iterations<i"):
                facts["cmp"] = "CmpGt"
            elif t in ("i>=max_iterations", "max_iterations<=i"):
                facts["cmp"] = "CmpGe"
    # the last_name branch
    sc = "ScAbsent"
    for node in ast.walk(fn):
        if isinstance(node, ast.If) and ast.unparse(node.test).replace(" ", "") in (
            "last_name==dependency.name",
            "dependency.name==last_name",
        ):
            stmts = node.body
            if (
                len(stmts) == 2
                and ast.unparse(stmts[0]).replace(" ", "") in ("order.append(last_name)", "order.append(dependency.name)")
                and isinstance(stmts[1], ast.Break)
            ):
                sc = "ScAppendBreak"
            elif (
                len(stmts) == 1
                and isinstance(stmts[0], ast.Raise)
                and isinstance(stmts[0].exc, ast.Call)
                and ast.unparse(stmts[0].exc.func) == "CircularDependencyError"
            ):
                sc = "ScRaise"
            else:
                sc = "ScUnknown"
    facts["shortcut"] = sc
    return facts


def _norm(fn: ast.FunctionDef) -> str:
    body = [s for s in fn.body if not (isinstance(s, ast.Expr) and isinstance(s.value, ast.Constant))]
    return "\n".join(ast.unparse(s) for s in body)


_CHECK_SORTABLE_SHAPE = """all_available = available.copy()
for dependency in elements:
    all_available.update(dependency.provided)
not_solvable = {}
for dependency in elements:
    if not dependency.required.issubset(all_available):
        not_solvable[dependency.name] = sorted(dependency.required.difference(all_available))
if not_solvable:
    raise MissingDependenciesError(not_solvable=not_solvable)"""


def gen() -> dict[str, str]:
    f = extract_facts()
    text = (
        "(* REGENERATED from src/mxlpy/model.py (_sort_dependencies, _check_if_is_sortable) by harness/c02.py;\n"
        "   do not edit.  An unrecognised shape yields a *Unknown constructor, which breaks C02_facts_pinned. *)\n"
        "From Core Require Import Sort.\n"
        f"Definition gen_sort_facts : sort_facts := mkSortFacts {f['cap']} {f['cmp']} {f['shortcut']} {f['checks_first']}.\n"
    )
    common.write_if_changed(common.area_dir(AREA) / "GenSortFacts.v", text)
    return f


# ---------------------------------------------------------------------------------------
# graphs
# ---------------------------------------------------------------------------------------
# a graph case = (avail: list[int], els: list[(name:int, req: list[int], prov: list[int])])


def name_of(k: int) -> str:
    return f"n{k:04d}"


def gen_random_graph(rng, n_max: int) -> tuple[list[int], list[tuple[int, list[int], list[int]]], str]:
    kind = rng.choice(["dag", "dag", "dag", "revchain", "cycle", "selfloop", "missing", "multi", "mixed", "diamond"])
    n = rng.randint(1, n_max)
    avail = [0, 1][: rng.randint(1, 2)]
    base = 10  # element names base+0..; extra provided names 500+..; missing 900+
    names = [base + i for i in range(n)]
    els: list[tuple[int, list[int], list[int]]] = []
    if kind == "revchain":
        # x_{n-1} <- ... <- x_0, declared in reverse: the worst case for the retry queue
        for i in range(n):
            els.append((names[i], [names[i - 1]] if i > 0 else [avail[0]], [names[i]]))
        els.reverse()
        return avail, els, kind
    if kind == "diamond":
        for i in range(n):
            req = [avail[0]] if i == 0 else sorted({names[(i - 1) // 2], names[max(0, i - 2)]})
            els.append((names[i], req, [names[i]]))
        rng.shuffle(els)
        return avail, els, kind
    provides: dict[int, list[int]] = {}
    for i, nm in enumerate(names):
        if kind in ("multi", "mixed") and rng.random() < 0.35:
            k = rng.randint(1, 3)
            provides[nm] = [500 + 10 * i + j for j in range(k)]  # surrogate-like: outputs, not own name
        else:
            provides[nm] = [nm]
    for i, nm in enumerate(names):
        pool = list(avail)
        for j in range(i):
            pool += provides[names[j]]
        k = rng.randint(0, min(3, len(pool)))
        req = rng.sample(pool, k)
        if rng.random() < 0.15 and req:
            req.append(req[0])  # duplicate argument name (set() removes it)
        els.append((nm, req, provides[nm]))
    if kind in ("cycle", "mixed") and n >= 2:
        k = rng.randint(2, min(n, 5))
        cyc = rng.sample(range(n), k)
        for a, b in zip(cyc, cyc[1:] + cyc[:1]):
            nm, req, prov = els[a]
            els[a] = (nm, req + [provides[names[b]][0]], prov)
    if kind == "selfloop" or (kind == "mixed" and rng.random() < 0.3):
        a = rng.randrange(n)
        nm, req, prov = els[a]
        els[a] = (nm, req + [prov[0]], prov)
    if kind == "missing" or (kind == "mixed" and rng.random() < 0.3):
        for _ in range(rng.randint(1, 2)):
            a = rng.randrange(n)
            nm, req, prov = els[a]
            els[a] = (nm, req + [900 + rng.randint(0, 3)], prov)
    rng.shuffle(els)
    return avail, els, kind


def enum_small_graphs(n: int):
    """All graphs with n elements named 10..; requirements among {outputs, 0 (available), 900 (missing)}."""
    names = [10 + i for i in range(n)]
    universe = names + [0, 900]
    subsets = []
    for r in range(len(universe) + 1):
        subsets += [list(c) for c in itertools.combinations(universe, r)]
    for reqs in itertools.product(subsets, repeat=n):
        yield [0], [(names[i], list(reqs[i]), [names[i]]) for i in range(n)], f"enum{n}"


# ---------------------------------------------------------------------------------------
# implementation driver
# ---------------------------------------------------------------------------------------


class _Timeout(Exception):
    pass


def _alarm(signum, frame):  # noqa: ANN001, ARG001
    raise _Timeout


def run_impl(avail: list[int], els: list[tuple[int, list[int], list[int]]]) -> tuple[str, Any]:
    """-> ("Ok", [names]) | ("Missing", [(name, [names])]) | ("Circular", [(name,[names])]) | ("Timeout"/"Err:..", msg)"""
    from mxlpy.model import CircularDependencyError, Dependency, MissingDependenciesError, _sort_dependencies

    deps = [Dependency(name=name_of(n), required={name_of(r) for r in req}, provided={name_of(p) for p in prov}) for n, req, prov in els]
    signal.signal(signal.SIGALRM, _alarm)
    signal.setitimer(signal.ITIMER_REAL, 5.0)
    try:
        order = _sort_dependencies({name_of(a) for a in avail}, deps)
        return "Ok", [int(x[1:]) for x in order]
    except MissingDependenciesError as e:
        return "Missing", _parse_payload(str(e))
    except CircularDependencyError as e:
        return "Circular", _parse_payload(str(e))
    except _Timeout:
        return "Timeout", "no answer within 5 s"
    except Exception as e:  # noqa: BLE001
        return "Err:" + type(e).__name__, str(e)[:200]
    finally:
        signal.setitimer(signal.ITIMER_REAL, 0)


def _parse_payload(msg: str) -> list[tuple[int, list[int]]]:
    out = []
    for line in msg.splitlines():
        if line.startswith("\t") and ": " in line:
            k, v = line[1:].split(": ", 1)
            v = v.strip()
            vals = [] if v in ("set()", "[]") else sorted(int(x[1:]) for x in ast.literal_eval(v))
            out.append((int(k[1:]), vals))
    return out


# ---------------------------------------------------------------------------------------
# independent oracle (the property itself; shares nothing with the Coq model)
# ---------------------------------------------------------------------------------------


def oracle(avail, els, outcome) -> str | None:
    """None if the outcome satisfies the property, else a description of what is wrong."""
    kind, val = outcome
    provided_by_all = set(avail)
    for _, _, prov in els:
        provided_by_all |= set(prov)
    missing = {n: sorted(set(req) - provided_by_all) for n, req, _ in els if set(req) - provided_by_all}
    if missing:
        if kind != "Missing":
            return f"graph names non-existent things {missing} but outcome is {kind}"
        if dict(val) != missing or [k for k, _ in val] != [n for n, _, _ in els if n in missing]:
            return f"missing-dependency error lists {val}, expected exactly {missing}"
        return None
    # complete: Kahn
    have = set(avail)
    left = list(els)
    progress = True
    while left and progress:
        progress = False
        for e in list(left):
            if set(e[1]) <= have:
                have |= set(e[2])
                left.remove(e)
                progress = True
    acyclic = not left
    if acyclic:
        if kind != "Ok":
            return f"complete acyclic graph rejected/unfinished: {kind} {val}"
        if sorted(val) != sorted(n for n, _, _ in els):
            return f"order {val} is not a permutation of the elements"
        have = set(avail)
        by_name = {n: (req, prov) for n, req, prov in els}
        for n in val:
            req, prov = by_name[n]
            if not set(req) <= have:
                return f"order {val}: element {n} placed before its requirements {sorted(set(req) - have)}"
            have |= set(prov)
        return None
    if kind != "Circular":
        return f"graph has a dependency cycle among {[e[0] for e in left]} but outcome is {kind} {val}"
    return None


# ---------------------------------------------------------------------------------------
# correspondence
# ---------------------------------------------------------------------------------------


def coq_case(avail, els, outcome) -> str:
    deps = clist(f"mkDep {cn(n)} {clist(map(cn, req))} {clist(map(cn, prov))}" for n, req, prov in els)
    kind, val = outcome
    if kind == "Ok":
        exp = f"Ok {clist(map(cn, val))}"
    elif kind in ("Missing", "Circular"):
        exp = f"{kind} {clist('(' + cn(k) + ', ' + clist(map(cn, v)) + ')' for k, v in val)}"
    else:
        exp = "OutOfFuel"  # never equal to any model outcome: counts as a mismatch
    return f"({clist(map(cn, avail))}, {deps}, {exp})"


def corr_file(cases: list[str]) -> str:
    body = ";\n  ".join(cases)
    return (
        "From MxlBase Require Import ListX.\nFrom Core Require Import Sort GenSortFacts.\n"
        "Definition cases : list (list N * list dep * outcome) := [\n  " + body + "\n].\n"
        "Definition mismatches := filter_idx (fun c => match c with (a, e, o) => negb (outcome_eqb (sort gen_sort_facts a e) o) end) cases.\n"
        "Eval vm_compute in mismatches.\n"
    )


# ---------------------------------------------------------------------------------------
# model-level: declaration-order independence of the VALUES through the public API
# ---------------------------------------------------------------------------------------


def gen_value_model(rng):
    """A random acyclic component set: parameters, derived chain, reactions, one initial assignment."""
    from harness import fnlib

    n_par = rng.randint(1, 3)
    comps = []  # (kind, name, fid, args)
    pool = [f"p{i}" for i in range(n_par)] + ["x0", "time"]
    n = rng.randint(2, 7)
    for i in range(n):
        kind = rng.choice(["derived", "derived", "reaction", "ia"]) if i > 0 else "derived"
        ar = rng.choice([a for a in (1, 2, 2, 3) if a in fnlib.BY_ARITY])
        fid = rng.choice(fnlib.BY_ARITY[ar])
        args = [rng.choice(pool) for _ in range(ar)]
        name = f"{kind[0]}{i}"
        comps.append((kind, name, fid, args))
        pool.append(name)
    pars = {f"p{i}": rng.randint(-3, 3) for i in range(n_par)}
    return pars, rng.randint(-3, 3), comps


def build_value_model(pars, x0, comps, order):
    from mxlpy import InitialAssignment, Model

    from harness import fnlib

    m = Model()
    m.add_variable("x0", x0)
    ia = [c for c in comps if c[0] == "ia"]
    m.add_parameters(pars)
    for i in order:
        kind, name, fid, args = comps[i]
        fn = fnlib.FNS[fid]
        if kind == "derived":
            m.add_derived(name, fn=fn, args=args)
        elif kind == "reaction":
            m.add_reaction(name, fn=fn, args=args, stoichiometry={"x0": 1})
        else:
            m.add_parameter(name, InitialAssignment(fn=fn, args=args))
    return m


def value_oracle(pars, x0, comps, t=0):
    from harness import fnlib

    env = dict(pars) | {"x0": x0, "time": t}
    for _kind, name, fid, args in comps:  # comps are generated in dependency order
        env[name] = fnlib.fsem(fid, [env[a] for a in args])
    return env


# ---------------------------------------------------------------------------------------
# the check
# ---------------------------------------------------------------------------------------


def check(run: Run) -> None:
    thorough = run.tier == "thorough"
    facts = gen()
    run.coverage["gen_facts"] = facts
    run.rule = (
        "graphs: random DAGs/reverse chains/diamonds/k-cycles/self loops/missing names/multi-output providers in random "
        "declaration order (+ exhaustive enumeration of all graphs with <=2 (quick) or <=3 (thorough) elements over "
        "{outputs, one available, one missing}); a case is non-trivial if it has >=2 elements or is rejected; distinct by content"
    )
    proofs_ok = run.check_proofs(AREA, PROPS)
    run.assumptions += [
        "Coq 8.16.1 kernel + vm_compute; no axioms (all theorems closed under the global context)",
        "fact extractor harness/c02.py::extract_facts (fail-closed ast matcher)",
        "Python sets are modelled as lists used through membership only; SimpleQueue as a FIFO list",
        "correspondence harness: literal printer, error-message payload parser, coqc output parser",
    ]

    rng = common.rng_for(run.seed, "c02")
    cases = []
    for n in (1, 2, 3) if thorough else (1, 2):
        for g in enum_small_graphs(n):
            cases.append(g)
            if thorough and n == 3:
                # every declaration order of the same graph
                a, els, k = g
                if len({tuple(e[1]) for e in els}) > 1 and rng.random() < 0.25:
                    for perm in itertools.permutations(els):
                        cases.append((a, list(perm), k + "perm"))
    n_random = 20000 if thorough else 2500
    for _ in range(n_random):
        cases.append(gen_random_graph(rng, 40 if rng.random() < 0.1 else 9))
    # permutations of a sample of random graphs: declaration-order independence of the KIND
    perm_groups = []
    for _ in range(600 if thorough else 150):
        a, els, k = gen_random_graph(rng, 7)
        group = [(a, els, k)]
        for _ in range(3):
            e2 = list(els)
            rng.shuffle(e2)
            group.append((a, e2, k + "/perm"))
        perm_groups.append(group)
        cases += group

    kinds: dict[str, int] = {}
    outcomes: dict[str, int] = {}
    coq_cases = []
    results = {}
    n_viol = 0
    for idx, (avail, els, kind) in enumerate(cases):
        out = run_impl(avail, els)
        results[idx] = out
        kinds[kind] = kinds.get(kind, 0) + 1
        outcomes[out[0]] = outcomes.get(out[0], 0) + 1
        run.count_case((avail, els), nontrivial=len(els) >= 2 or out[0] != "Ok")
        bad = oracle(avail, els, out)
        if bad and n_viol < 5:
            n_viol += 1
            run.violation(
                f"_sort_dependencies: {bad}",
                {"kind": "sort", "available": [name_of(a) for a in avail],
                 "elements": [{"name": name_of(n), "required": [name_of(r) for r in req], "provided": [name_of(p) for p in prov]} for n, req, prov in els],
                 "outcome": out, "raw": {"avail": avail, "els": els}},
            )
        coq_cases.append(coq_case(avail, els, out))
    for g in perm_groups[:1]:
        run.sample({"graph": g[0], "outcome": run_impl(g[0][0], g[0][1])})
    # outcome kind must not depend on declaration order
    base = len(cases) - sum(len(g) for g in perm_groups)
    i = base
    for g in perm_groups:
        ks = {results[i + j][0] for j in range(len(g))}
        if len(ks) > 1 and n_viol < 8:
            n_viol += 1
            run.violation(f"outcome kind depends on the declaration order: {sorted(ks)}", {"kind": "sort-perm", "group": g})
        i += len(g)
    # large graphs, implementation + oracle only (no size bound in the theorems; the Coq evaluation of the
    # model is kept to <= 40 elements): reverse chains need n(n+1)/2 queue operations, so any absolute cap,
    # any cap below n^2/2 and any per-size shortcut shows up here with a concrete graph
    n_large = 0
    for n in (50, 100, 200, 400) if thorough else (50, 100, 200):
        names = [10 + i for i in range(n)]
        chain = [(names[i], [names[i - 1]] if i > 0 else [0], [names[i]]) for i in range(n)]
        shuffled = list(chain)
        rng.shuffle(shuffled)
        cyc = [(names[i], [names[i - 1]], [names[i]]) for i in range(n)]  # n-cycle
        tail = list(reversed(chain[: n // 2])) + [(names[i], [names[i - 1] if i > n // 2 else names[n - 1]], [names[i]]) for i in range(n // 2, n)]
        for kind, els in (("large-revchain", list(reversed(chain))), ("large-shuffled", shuffled), ("large-cycle", cyc), ("large-chain+cycle", tail)):
            out = run_impl([0], els)
            n_large += 1
            kinds[kind] = kinds.get(kind, 0) + 1
            outcomes[out[0]] = outcomes.get(out[0], 0) + 1
            run.count_case(([0], els), nontrivial=True)
            bad = oracle([0], els, out)
            if bad and n_viol < 8:
                n_viol += 1
                run.violation(
                    f"_sort_dependencies ({kind}, {n} elements): {bad}",
                    {"kind": "sort", "available": [name_of(0)],
                     "elements": [{"name": name_of(a), "required": [name_of(r) for r in req], "provided": [name_of(q) for q in prov]} for a, req, prov in els],
                     "outcome": out, "raw": {"avail": [0], "els": els}},
                )
    run.coverage["input_distribution"] = {"graph_kinds": kinds, "impl_outcomes": outcomes, "large_graphs_oracle_only": n_large}

    # correspondence inside Coq
    files = {f"c02_{k:04d}": corr_file(chunk) for k, chunk in enumerate(common.chunks(coq_cases, 400))}
    res = common.coq_eval_many(AREA, files, timeout_s=900)
    mism_total = 0
    for k, name in enumerate(sorted(files)):
        ok, out = res[name]
        lists = common.parse_eval_list(out) if ok else None
        if not ok or not lists:
            run.broken_correspondence.append(f"correspondence shard {name} did not evaluate: {out[-300:]}")
            continue
        for j in lists[-1]:
            mism_total += 1
            gi = k * 400 + j
            avail, els, kind = cases[gi]
            if len(run.broken_correspondence) < 5:
                run.broken_correspondence.append(
                    f"model/implementation disagree on graph #{gi} ({kind}): avail={avail} els={els} impl={results[gi]}"
                )
    run.coverage["traces_validated_against_impl"] = len(cases) - mism_total
    run.coverage["correspondence_mismatches"] = mism_total

    # values through the public API, across declaration orders
    n_models = 400 if thorough else 80
    vm = 0
    for _ in range(n_models):
        pars, x0, comps = gen_value_model(rng)
        expect = value_oracle(pars, x0, comps)
        orders = [list(range(len(comps))), list(reversed(range(len(comps))))]
        for _ in range(2):
            o = list(range(len(comps)))
            rng.shuffle(o)
            orders.append(o)
        for o in orders:
            vm += 1
            run.count_case(("val", pars, x0, comps, o))
            try:
                m = build_value_model(pars, x0, comps, o)
                got = m.get_args({"x0": x0}, time=0)
                bad = {k: (float(got[k]), v) for k, v in expect.items() if k in got.index and float(got[k]) != float(v)}
                missing = [k for k in expect if k not in got.index and k != "time"]
                if bad or missing:
                    raise AssertionError(f"values differ from the resolved values: {bad} missing={missing}")
            except Exception as e:  # noqa: BLE001
                if n_viol < 10:
                    n_viol += 1
                    run.violation(
                        f"Model.get_args on an acyclic complete model declared in order {o}: {type(e).__name__}: {e}",
                        {"kind": "values", "pars": pars, "x0": x0, "components": comps, "declaration_order": o},
                    )
    run.coverage["value_models_x_orders"] = vm
    if not proofs_ok:
        run.note("proof obligations broken; searched the generated graphs with the oracle for a concrete failing input")


def replay(rep: dict) -> int:
    r = rep["replay"]
    if r.get("kind") == "sort":
        out = run_impl(r["raw"]["avail"], [tuple(e) for e in r["raw"]["els"]])
        bad = oracle(r["raw"]["avail"], [tuple(e) for e in r["raw"]["els"]], out)
        print("outcome:", out, "\noracle:", bad or "property holds on this input")
        return 1 if bad else 0
    if r.get("kind") == "values":
        comps = [tuple(c) for c in r["components"]]
        try:
            m = build_value_model(r["pars"], r["x0"], comps, r["declaration_order"])
            got = m.get_args({"x0": r["x0"]}, time=0)
            exp = value_oracle(r["pars"], r["x0"], comps)
            bad = {k: (float(got[k]), v) for k, v in exp.items() if k in got.index and float(got[k]) != float(v)}
            print("bad:", bad)
            return 1 if bad else 0
        except Exception as e:  # noqa: BLE001
            print("raised", type(e).__name__, e)
            return 1
    print("nothing to replay: ", rep.get("what"))
    return 1
