"""C11, stream `names`: how the function translator resolves a NAME (source_tools.py::_handle_name) against CPython.

Small functions -- parameters a, b, c; up to three straight-line assignments to w, n, t; a returned expression over
+ - *, small integers and names -- are written into scratch modules that have module-level NUMBERS (ints and integer-valued
floats) under the very names the functions use for their parameters and local variables (a, b, c, w, n) and under names of
their own (k1, k2).

  * correspondence (shard c11_names, coq/mxlgen/NameScope.v): `translate_fn gen_name_lookup Gs f` evaluated at two argument
    points against the value of the REAL fn_to_sympy(fn) at the same points (None = refused); Gs = the module numbers the
    scan of the tree under test finds (shipped: floats only -- read from the predicate in the source);
  * oracle (the property itself, no code shared with the Coq model): a model with one variable per parameter and ONE derived
    quantity computed by the function goes through generate_mxlpy_code -> exec -> create_model(); the derived value of the
    rebuilt model must be what the SOURCE model gives at the same state (generation may raise instead).
"""

from __future__ import annotations

import importlib
import shutil
import sys
from typing import Any

from harness import common
from harness.common import clist, cstr, cz

PARAMS = ["a", "b", "c"]
LOCALS = ["w", "n", "t"]
MODULE_NAMES = ["a", "b", "c", "w", "n", "k1", "k2"]
POINTS = ([2, 5, -3], [-1, 3, 4])

# expression: ("num", z) | ("name", x) | ("add" | "sub" | "mul", e1, e2)
_OPS = {"add": "+", "sub": "-", "mul": "*"}
_COQ = {"add": "EAdd", "sub": "ESub", "mul": "EMul"}


def py_ex(e) -> str:
    if e[0] == "num":
        return str(e[1])
    if e[0] == "name":
        return e[1]
    return f"({py_ex(e[1])} {_OPS[e[0]]} {py_ex(e[2])})"


def coq_ex(e) -> str:
    if e[0] == "num":
        return f"(ENum {cz(e[1])})"
    if e[0] == "name":
        return f"(EName {cstr(e[1])})"
    return f"({_COQ[e[0]]} {coq_ex(e[1])} {coq_ex(e[2])})"


def fn_src(name: str, fd: dict) -> str:
    lines = [f"def {name}({', '.join(fd['params'])}):"]
    lines += [f"    {x} = {py_ex(e)}" for x, e in fd["body"]]
    lines.append(f"    return {py_ex(fd['ret'])}")
    return "\n".join(lines) + "\n"


def coq_fn(fd: dict) -> str:
    body = clist("(" + cstr(x) + ", " + coq_ex(e) + ")" for x, e in fd["body"])
    return f"(mkPyFn {clist(map(cstr, fd['params']))} {body} {coq_ex(fd['ret'])})"


def _fd(params, body, ret) -> dict:
    return {"params": list(params), "body": [(x, e) for x, e in body], "ret": ret}


N = lambda x: ("name", x)  # noqa: E731
K = lambda z: ("num", z)  # noqa: E731

# (module numbers [(name, value, is_float)], functions): the functions of the `shadow` stream of harness/c11.py and the
# shapes of seeded change C11-8 (parameter named like a float / an int of the module; computed local variable named like
# a number of the module; a genuine module-level float read as a global; an int read as a global: refused by the shipped scan)
CORPUS = [
    ([("a", 7, True), ("b", 3, False), ("c", 2, True)],
     [_fd(["a", "b"], [], ("sub", N("a"), N("b"))),
      _fd(["a", "b", "c"], [], ("add", ("mul", N("a"), N("b")), N("c"))),
      _fd(["a", "b"], [], ("add", ("sub", ("mul", N("a"), N("a")), ("mul", K(3), N("b"))), K(1)))]),
    ([("w", 5, True), ("n", 2, False), ("k1", 1, True), ("k2", 4, False)],
     [_fd(["a", "b", "c"], [("w", ("mul", N("a"), N("b")))], ("add", N("w"), N("c"))),
      _fd(["a", "b"], [("n", ("mul", N("a"), N("a"))), ("w", ("mul", K(3), N("b")))], ("add", ("sub", N("n"), N("w")), K(1))),
      _fd(["a", "b"], [], ("mul", ("mul", N("k1"), N("a")), N("b"))),
      _fd(["a"], [], ("mul", N("k2"), N("a"))),
      _fd(["a"], [("t", ("add", N("a"), N("n")))], ("mul", N("t"), N("w")))]),
]


def gen_module(rng) -> tuple[list, list]:
    numbers = [(x, rng.randint(2, 9), rng.random() < 0.8) for x in MODULE_NAMES if rng.random() < 0.55]
    have = [x for x, _v, _f in numbers]
    fns = []
    for _ in range(rng.randint(3, 6)):
        params = PARAMS[: rng.randint(1, 3)]
        targets = [rng.choice(LOCALS) for _ in range(rng.choice([0, 1, 1, 2, 2, 3]))]
        all_locals = set(params) | set(targets)
        bound = list(params)

        def name(later: list[str]) -> tuple:
            r = rng.random()
            glob = [x for x in have if x not in all_locals]
            if r < 0.05 and later:  # a local variable read BEFORE its assignment (CPython: UnboundLocalError)
                return N(rng.choice(later))
            if r < 0.30 and glob:
                return N(rng.choice(glob))
            return N(rng.choice(bound))

        def ex(depth: int, later: list[str]) -> tuple:
            r = rng.random()
            if depth == 0 or r < 0.3:
                return K(rng.randint(-3, 4)) if rng.random() < 0.2 else name(later)
            return (rng.choice(["add", "sub", "mul"]), ex(depth - 1, later), ex(depth - 1, later))

        body = []
        for i, x in enumerate(targets):
            body.append((x, ex(rng.randint(1, 2), [y for y in targets[i:] if y not in bound])))
            if x not in bound:
                bound.append(x)
        fns.append(_fd(params, body, ex(2, [])))
    return numbers, fns


class Mods:
    def __init__(self) -> None:
        self.dir = common.scratch_dir("c11names")
        self.n = 0
        self.names: list[str] = []
        sys.path.insert(0, str(self.dir))

    def make(self, numbers: list, fns: list) -> Any:
        self.n += 1
        mn = f"c11names_{self.dir.name.replace('-', '_')}_{self.n}"
        text = "# generated by harness/c11_names.py\n"
        text += "".join(f"{x} = {float(v) if fl else int(v)!r}\n" for x, v, fl in numbers) + "\n\n"
        text += "\n\n".join(fn_src(f"fn{i}", fd) for i, fd in enumerate(fns))
        (self.dir / f"{mn}.py").write_text(text)
        importlib.invalidate_caches()
        self.names.append(mn)
        return importlib.import_module(mn)

    def close(self) -> None:
        try:
            sys.path.remove(str(self.dir))
        except ValueError:
            pass
        for mn in self.names:
            sys.modules.pop(mn, None)
        shutil.rmtree(self.dir, ignore_errors=True)


def scan_kind(repo=None) -> str:
    """Which module-level numbers the scan of _handle_name finds on the tree under test: "float" (shipped:
    isinstance(x, float)) or "number" (ints too: the predicate of seeded change C11-8); read from the source."""
    import ast

    try:
        tree = ast.parse(((repo or common.REPO) / "src/mxlpy/meta/source_tools.py").read_text())
    except (OSError, SyntaxError):
        return "float"
    fns = {n.name: n for n in tree.body if isinstance(n, ast.FunctionDef)}
    hn = fns.get("_handle_name")
    if hn is None:
        return "float"
    text = ast.unparse(hn)
    for n in ast.walk(hn):
        if isinstance(n, ast.Name) and n.id in fns and n.id != "_handle_name":
            text += "\n" + ast.unparse(fns[n.id])
    return "number" if "(int, float)" in text or "(float, int)" in text else "float"


def translate_value(fn: Any, params: list[str], args: list[int]) -> tuple[bool, int | None]:
    """-> (translated?, value of the translated expression with the parameter symbols standing for args)"""
    import sympy
    from mxlpy.meta.sympy_tools import fn_to_sympy

    try:
        expr = fn_to_sympy(fn, origin="c11-names")
    except Exception:  # noqa: BLE001  (a name found nowhere: KeyError escapes the translator)
        expr = None
    if expr is None:
        return False, None
    val = sympy.sympify(expr).subs({sympy.Symbol(p): v for p, v in zip(params, args)})
    return True, common.exact_int(float(val))


def roundtrip_value(fn: Any, params: list[str], args: list[int]) -> tuple[str, Any, Any, str | None]:
    """-> (outcome, derived value of the SOURCE model, of the REBUILT model, generated source) through
    generate_mxlpy_code; outcome: "raised" (generation refused), "python-raises" (the function itself raises on these
    arguments: nothing to compare), "ok", or the error met when the generated source is executed / queried."""
    from mxlpy import Model
    from mxlpy.meta.codegen_mxlpy import generate_mxlpy_code

    names = [f"x{i}" for i in range(len(params))]
    m = Model()
    for x in names:
        m.add_variable(x, 1.0)
    m.add_derived("d", fn=fn, args=names)
    state = {x: float(v) for x, v in zip(names, args)}
    try:
        want = common.exact_int(m.get_args(state)["d"])
    except (UnboundLocalError, NameError):
        return "python-raises", None, None, None
    try:
        src = generate_mxlpy_code(m)
    except Exception:  # noqa: BLE001
        return "raised", want, None, None
    try:
        ns: dict = {}
        exec(compile(src, "<generated>", "exec"), ns)  # noqa: S102
        got = common.exact_int(ns["create_model"]().get_args(state)["d"])
    except Exception as e:  # noqa: BLE001
        return f"{type(e).__name__}: {e}", want, None, src
    return "ok", want, got, src


def corr_file(cases: list[str]) -> str:
    defs = "\n".join(f"Definition case_{i} : name_case := {c}." for i, c in enumerate(cases))
    lst = clist(f"case_{i}" for i in range(len(cases)))
    return (
        "From Coq Require Import ZArith List String.\nFrom MxlBase Require Import ListX.\n"
        "From MxlGen Require Import NameScope Session GenMxlGenFacts.\nImport ListNotations.\nOpen Scope string_scope.\n"
        + defs
        + f"\nDefinition cases : list name_case := {lst}.\n"
        "Definition mismatches := filter_idx (fun c => negb (name_case_ok gen_name_lookup c)) cases.\n"
        "Eval vm_compute in mismatches.\n"
    )


def coq_case(numbers: list, found: str, fd: dict, args: list[int], seen: int | None) -> str:
    g = clist(f"({cstr(x)}, {cz(v)})" for x, v, _fl in numbers)
    gs = clist(f"({cstr(x)}, {cz(v)})" for x, v, fl in numbers if fl or found == "number")
    so = "None" if seen is None else f"(Some {cz(seen)})"
    return f"({g}, {gs}, {coq_fn(fd)}, {clist(map(cz, args))}, {so})"


def run_one(mods: Mods, numbers: list, fns: list, found: str) -> tuple[list[str], list[dict], dict[str, int]]:
    """-> (Coq cases, oracle failures as replay dicts, counters)"""
    mod = mods.make(numbers, fns)
    cases: list[str] = []
    bad: list[dict] = []
    cnt = {"functions": 0, "translated": 0, "local_named_like_a_module_number": 0, "roundtrips_compared": 0, "generation_raised": 0}
    have = {x for x, _v, _f in numbers}
    for i, fd in enumerate(fns):
        fn = getattr(mod, f"fn{i}")
        cnt["functions"] += 1
        if (set(fd["params"]) | {x for x, _e in fd["body"]}) & have:
            cnt["local_named_like_a_module_number"] += 1
        for pt in POINTS:
            args = pt[: len(fd["params"])]
            ok, seen = translate_value(fn, fd["params"], args)
            cases.append(coq_case(numbers, found, fd, args, seen if ok else None))
            outcome, want, got, src = roundtrip_value(fn, fd["params"], args)
            if outcome == "raised":
                cnt["generation_raised"] += 1
            elif outcome == "ok":
                cnt["roundtrips_compared"] += 1
            if outcome not in ("raised", "python-raises") and (outcome != "ok" or want != got):
                bad.append({"kind": "names", "numbers": numbers, "fn": fd, "args": args, "source_value": want, "rebuilt_value": got,
                            "outcome": outcome, "function": fn_src("fn", fd), "generated": src})
        cnt["translated"] += 1 if ok else 0
    return cases, bad, cnt


def replay(r: dict) -> int:
    mods = Mods()
    try:
        numbers = [tuple(x) for x in r["numbers"]]
        fd = _fd(r["fn"]["params"], [(x, _t(e)) for x, e in r["fn"]["body"]], _t(r["fn"]["ret"]))
        mod = mods.make(numbers, [fd])
        outcome, want, got, src = roundtrip_value(mod.fn0, fd["params"], list(r["args"]))
        print("module numbers:", numbers)
        print(fn_src("fn0", fd))
        print("generated source:\n", src)
        print(f"outcome: {outcome}; derived value of the source model {want}, of the rebuilt model {got}")
        return 1 if outcome not in ("raised", "python-raises") and (outcome != "ok" or want != got) else 0
    finally:
        mods.close()


def _t(e) -> tuple:
    return (e[0], e[1]) if e[0] in ("num", "name") else (e[0], _t(e[1]), _t(e[2]))
