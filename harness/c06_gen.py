"""C06: grammar-based generator of PyLang programs, rendered (a) as real Python modules (so that
inspect.getsource works) and (b) as Gallina literals for the correspondence files.

AST (plain tuples):
  expr : ("num", Fraction, is_float) | ("var", id) | ("un", op, e) | ("bin", op, a, b)
       | ("ifexp", cond, a, b) | ("call", j, [e]) | ("callkw", j, [e], slots | None[, npos]) | ("attr", Fraction, text)
       | ("callx", builtin-name, [e]) | ("other", text)
  ("callkw", j, args, slots, npos): args in the order they are WRITTEN; the first npos positional, the others `name=value` where
  the name is callee parameter slots[i] (CPython binds by name); slots None = the old form: the last argument gets the
  keyword of its own position (only used around arity mismatches).
  ("callx", "abs", [e]): a call of something that is not a function of the module (py_fn is None: the translator
  RETURNS None); Gallina: ECall of an index beyond the definitions.
  cond : ("cmp", e, [(op, e)]) | ("cother", text)
  stmt : ("assign", id, e) | ("tuple", [id], [e]) | ("if", cond, [stmt], [stmt]) | ("return", e)
       | ("retnone",) | ("pass",) | ("doc",) | ("other", [lines])
A case = list of functions (params, module 'a'|'b', body); function j may call functions < j.
Names are numbers rendered `v07` (so string order = numeric order).
"""

from __future__ import annotations

from fractions import Fraction

BIN_PY = {"Add": "+", "Sub": "-", "Mul": "*", "Div": "/", "Pow": "**", "Mod": "%", "FloorDiv": "//", "BinOther": "&"}
CMP_PY = {"Gt": ">", "GtE": ">=", "Lt": "<", "LtE": "<=", "CEq": "==", "CNe": "!=", "CmpOther": "is"}
UN_PY = {"UAdd": "+", "USub": "-", "UOther": "~"}

# module-level float constants (same names in both modules, different values in 'b')
CONSTS = {"a": {50: Fraction(5, 2), 51: Fraction(-1), 52: Fraction(2)}, "b": {50: Fraction(3, 2), 51: Fraction(4), 52: Fraction(1, 2)}}
ATTR_CONSTS = {"KA": Fraction(3), "KB": Fraction(1, 4)}  # in the constants module, used as cmod.KA
# In the Coq model an attribute constant is an entry of the READING module's constant table under a name no
# local can have (nothing can assign to `cmod.KA`; the generator never binds 60/61); only module 'a' reads them.
ATTR_IDS = {"KA": 60, "KB": 61}
MOD_IDS = {"a": 0, "b": 1}
UNKNOWN_FN = 99  # ECall index of "not a function of the module" (abs, max, round ...): beyond every definition list
# values a constant may be rebound to between two translations (small dyadics, never 0: `x / K`)
REBIND_POOL = [Fraction(1, 2), Fraction(1), Fraction(3, 2), Fraction(2), Fraction(-1, 2), Fraction(3), Fraction(4), Fraction(-2), Fraction(5, 2), Fraction(1, 4)]


def vn(k: int) -> str:
    return f"v{k:02d}"


def num_src(q: Fraction, is_float: bool) -> str:
    if is_float or q.denominator != 1:
        s = repr(float(q))
    else:
        s = str(q.numerator)
    return f"({s})" if q < 0 else s


class Gen:
    def __init__(self, rng, case_id: str, modname: dict[str, str]) -> None:
        self.rng = rng
        self.case_id = case_id
        self.modname = modname
        self.funcs: list[dict] = []
        self.pure = True  # no node outside the modelled meaning (other/…)
        self.exact = False  # rendering mode: wrap every numeric literal in _X(...) (exact twin for the oracle)
        self.feat: set[str] = set()
        self.shadow: int | None = None  # a module constant this function uses as a LOCAL name (set per function)

    # -- expressions ---------------------------------------------------------------------
    def lit(self, pow2: bool = False) -> tuple:
        r = self.rng
        if pow2:
            return ("num", Fraction(r.choice([1, 2, 4, 2, 1])), False) if r.random() < 0.8 else ("num", Fraction(1, 2), True)
        if r.random() < 0.25:
            return ("num", Fraction(r.choice([1, 3, 5, -1, -3]), 2), True)
        return ("num", Fraction(r.choice([0, 1, 1, 2, 2, 3, -1, -2, 4, 5])), r.random() < 0.15)

    def leaf(self, sc: dict, divisor: bool) -> tuple:
        r = self.rng
        x = r.random()
        if sc["vars"] and x < 0.6:
            return ("var", r.choice(sc["vars"]))
        if x < 0.68 and divisor:
            return self.lit(pow2=True)
        if x < 0.68:
            self.feat.add("global-const")
            # a name the function assigns somewhere is a local for CPython in the WHOLE function: never read as a global
            return ("var", r.choice([k for k in (50, 51, 52) if k != self.shadow]))
        if x < 0.72 and (divisor or sc["mod"] != "a"):
            return self.lit(pow2=divisor)
        if x < 0.72:
            self.feat.add("attr-const")
            k = r.choice(sorted(ATTR_CONSTS))
            return ("attr", ATTR_CONSTS[k], k)
        if x < 0.724 and not divisor:
            self.feat.add("unbound-name")
            return ("var", r.choice([30, 31]))  # never bound: KeyError in the translator, NameError in Python
        return self.lit(pow2=divisor)

    def expr(self, sc: dict, d: int, divisor: bool = False) -> tuple:
        r = self.rng
        if d <= 0 or r.random() < 0.3:
            return self.leaf(sc, divisor)
        x = r.random()
        if x < 0.5:
            op = r.choice(["Add", "Sub", "Mul", "Add", "Sub", "Mul", "Div", "Pow", "Mod", "FloorDiv"])
            if divisor and op in ("Div", "Pow", "Mod", "FloorDiv"):
                op = "Mul"
            a = self.expr(sc, d - 1, divisor)
            if op == "Div":
                self.feat.add("div")
                b = self.expr(sc, d - 1, True) if r.random() < 0.6 else self.lit(pow2=True)
            elif op == "Pow":
                self.feat.add("pow")
                if r.random() < 0.12 and sc["vars"]:
                    a = ("var", r.choice(sc["vars"]))
                    b = ("num", Fraction(-1), False)
                else:
                    b = ("num", Fraction(r.choice([0, 1, 2, 2, 3])), r.random() < 0.2)
            elif op in ("Mod", "FloorDiv"):
                self.feat.add("mod-floordiv")
                # divisor of % and // is always a numeric literal: SymPy's Mod.eval mis-simplifies a
                # divisor sharing a symbolic factor with the dividend (known finding sympy-mod-common-factor)
                b = ("num", Fraction(r.choice([2, 3, 2, 4, -2, 1, 5] if op == "Mod" else [2, 2, 4, -2, 1])), r.random() < 0.15)
            else:
                b = self.expr(sc, d - 1, divisor)
            return ("bin", op, a, b)
        if x < 0.6:
            return ("un", r.choice(["USub", "USub", "UAdd"]), self.expr(sc, d - 1, divisor))
        if x < 0.72:
            self.feat.add("ifexp")
            return ("ifexp", self.cond(sc, d - 1), self.expr(sc, d - 1, divisor), self.expr(sc, d - 1, divisor))
        if x < 0.9 and not sc["callees"]:
            return self.leaf(sc, divisor)
        if x < 0.9:
            j = r.choice(sc["callees"])
            n = len(self.funcs[j]["params"])
            self.feat.add("call")
            if self.funcs[j]["mod"] != sc["mod"]:
                self.feat.add("call-other-module")
            nd = len(self.funcs[j].get("defaults", []))
            if nd and r.random() < 0.65:
                # rely on the defaults: drop trailing arguments (CPython fills them in; the translator's strict zip
                # refuses).  Never down to ZERO arguments: `helper()` of a helper with parameters skips the zip in
                # the shipped code (recorded finding zero-arg-call-of-defaulted-helper, corpus witness caller0)
                n = max(1, n - r.randint(1, nd))
                self.feat.add("call-relying-on-default")
            elif not nd and r.random() < 0.025:
                n = max(0, n + r.choice([-1, 1]))
                self.feat.add("call-arity-mismatch")
            args = [self.expr(sc, d - 1, divisor) for _ in range(n)]
            full = n == len(self.funcs[j]["params"])
            if full and n >= 1 and r.random() < 0.13:
                # keyword arguments, bound by NAME: the first npos arguments positional, the others as keywords in a
                # (mostly) different order than the callee's parameters (seeded C06-7 appends them positionally)
                npos = r.choice([0, 0, r.randrange(n)])
                kw = list(range(npos, n))
                if len(kw) >= 2 and r.random() < 0.85:
                    while kw == list(range(npos, n)):
                        r.shuffle(kw)
                    self.feat.add("call-keywords-other-order")
                self.feat.add("call-keywords")
                slots = list(range(npos)) + kw
                return ("callkw", j, [args[k] for k in slots], slots, npos)
            if not full and r.random() < 0.1 and n >= 1:
                self.feat.add("call-keywords")
                self.pure = False
                return ("callkw", j, args, None)
            return ("call", j, args)
        if x < 0.903:
            return self.other_expr(sc, d)
        return self.leaf(sc, divisor)

    def other_expr(self, sc: dict, d: int) -> tuple:
        """expressions the translator must refuse; each contains the unsupported node at the top"""
        r = self.rng
        self.pure = False
        self.feat.add("unsupported-expr")
        a = self.src(self.leaf(sc, False), sc)
        k = r.randrange(8)
        pv = [p for p in sc["params"] if p not in sc["assigned"]]
        if k == 0 and pv:
            return ("callx", "abs", [("var", r.choice(pv))])
        if k == 1 and pv:
            return ("callx", "max", [("var", r.choice(pv)), ("num", Fraction(1), False)])
        if k == 2:
            return ("other", f"({a} and 1)")
        if k == 3:
            return ("other", f"[{a}][0]")
        if k == 4:
            return ("other", f"(lambda: {a})()")
        if k == 5:
            return ("un", "UOther", self.expr(sc, 0))
        if k == 6:
            return ("bin", "BinOther", self.expr(sc, 0), self.expr(sc, 0))
        return ("other", f"({a} or 2)")

    def cond(self, sc: dict, d: int) -> tuple:
        r = self.rng
        x = r.random()
        if x < 0.005:
            self.pure = False
            self.feat.add("unsupported-cond")
            c1 = self.src_cond(self.cmp(sc, 0), sc)
            c2 = self.src_cond(self.cmp(sc, 0), sc)
            return ("cother", r.choice([f"{c1} and {c2}", f"not {c1}", f"{c1} or {c2}"]))
        return self.cmp(sc, d)

    def cmp(self, sc: dict, d: int) -> tuple:
        r = self.rng
        n = 1 if r.random() < 0.75 else (2 if r.random() < 0.8 else 3)
        if n > 1:
            self.feat.add("chained-compare")
        left = self.expr(sc, min(d, 1))
        rest = []
        for _ in range(n):
            op = r.choice(["Gt", "GtE", "Lt", "LtE", "Gt", "Lt", "CEq", "CNe"])
            if op in ("CEq", "CNe"):
                self.feat.add("eq-ne")
            if r.random() < 0.006:
                op = "CmpOther"
                self.pure = False
                self.feat.add("unsupported-cmpop")
            rest.append((op, self.expr(sc, min(d, 1))))
        return ("cmp", left, rest)

    # -- statements ----------------------------------------------------------------------
    def block(self, sc: dict, d: int, n: int, must_return: bool) -> list:
        """sc is mutated: vars definitely bound afterwards"""
        r = self.rng
        out: list = []
        for i in range(n):
            x = r.random()
            if x < 0.42:
                tgt = r.choice(sc["vars"]) if (sc["vars"] and r.random() < 0.35) else r.choice([10, 11, 12, 13])
                e = self.expr(sc, 2)
                if self.shadow is not None and r.random() < 0.45:
                    # a LOCAL named like a module constant (it shadows the constant in Python and in the translator's
                    # table); mostly from a right-hand side for which the translator RETURNS None -- a call relying on
                    # a default value, a call of something that is not a function of the module (seeded C06-6 stores
                    # that None and the later read falls through to the module constant)
                    tgt = self.shadow
                    self.feat.add("local-shadows-constant")
                    if r.random() < 0.65:
                        e = self.none_rhs(sc)
                out.append(("assign", tgt, e))
                self._bind(sc, tgt)
                if tgt in sc["params"]:
                    self.feat.add("param-reassigned")
            elif x < 0.5 and len(sc["vars"]) >= 1:
                k = r.choice([2, 2, 3])
                if r.random() < 0.5 and len(sc["vars"]) >= 2:
                    xs = r.sample(sc["vars"], 2)
                    es = [("var", xs[1]), ("var", xs[0])]  # swap
                    self.feat.add("tuple-swap")
                else:
                    xs = [r.choice(sc["vars"] + [10, 11, 12]) for _ in range(k)]
                    es = [self.expr(sc, 1) for _ in range(k)]
                    self.feat.add("tuple-assign")
                out.append(("tuple", xs, es))
                for t in xs:
                    self._bind(sc, t)
            elif x < 0.755 and d > 0:
                out.append(self.if_stmt(sc, d))
            elif x < 0.82 and d > 0 and sc["vars"]:
                out += self.guard_seq(sc)
            elif x < 0.85:
                out.append(("pass",))
            elif x < 0.858:
                out.append(self.other_stmt(sc))
            elif x < 0.996:
                out.append(("return", self.expr(sc, 2)))
                self.feat.add("early-return" if i < n - 1 else "return")
                if r.random() < 0.7:
                    return out  # usually nothing after a return (dead code sometimes)
            else:
                self.pure = False
                self.feat.add("return-none")
                out.append(("retnone",))
        if must_return:
            if r.random() < 0.93:
                out.append(("return", self.expr(sc, 2)))
            else:
                # falling off the end returns None, which CPython lets flow through == / != in a caller;
                # the model calls that "no value": such programs are compared one-directionally
                self.feat.add("no-final-return")
                self.pure = False
        return out

    def guard_seq(self, sc: dict) -> list:
        """A guard-style `if` whose body neither assigns nor returns on every path (pass; a nested return-only `if`
        without else, possibly with a return-only elif), FOLLOWED by self-referential reassignments of bound names
        (x = x * 2; s = s + k).  Both branches of the guard fall into the reassignments, so a translator that lets the
        two paths share a table applies them twice (seeded C06-1)."""
        r = self.rng
        self.feat.add("guard-if-then-selfref")
        kind = r.randrange(5)
        ret = lambda: ("return", self.expr(sc, 1))  # noqa: E731
        if kind == 0:
            guard = ("if", self.cmp(sc, 1), [("pass",)], [])
        elif kind == 1:
            guard = ("if", self.cmp(sc, 1), [("if", self.cmp(sc, 1), [ret()], [])], [])
        elif kind == 2:
            guard = ("if", self.cmp(sc, 1), [("if", self.cmp(sc, 1), [ret()], [("if", self.cmp(sc, 1), [ret()], [])])], [])
        elif kind == 3:
            guard = ("if", self.cmp(sc, 1), [("pass",)], [("pass",)])
        else:  # the guard sits in the else part: `if c: pass / else: if c2: return e`
            guard = ("if", self.cmp(sc, 1), [("pass",)], [("if", self.cmp(sc, 1), [ret()], [])])
        out: list = [guard]
        if kind in (1, 2, 4):
            self.feat.add("guard-nested-return-only")
        for _ in range(r.choice([1, 1, 2])):
            tgt = r.choice(sc["vars"])
            other = ("var", r.choice(sc["vars"])) if r.random() < 0.5 else self.lit(pow2=True)
            op = r.choice(["Mul", "Add", "Sub", "Add"])
            e = ("bin", op, ("var", tgt), other) if r.random() < 0.8 else ("bin", op, other, ("var", tgt))
            out.append(("assign", tgt, e))
            self._bind(sc, tgt)
            if tgt in sc["params"]:
                self.feat.add("param-reassigned")
        return out

    def none_rhs(self, sc: dict) -> tuple:
        """a right-hand side that has a value in Python but for which _handle_expr RETURNS None (no exception)"""
        r = self.rng
        cands = [j for j in sc["callees"] if self.funcs[j].get("defaults") and len(self.funcs[j]["params"]) >= 2]
        self.feat.add("assign-rhs-returns-none")
        if cands and r.random() < 0.6:
            j = r.choice(cands)
            n = len(self.funcs[j]["params"])
            n = max(1, n - r.randint(1, len(self.funcs[j]["defaults"])))
            self.feat.add("call")
            self.feat.add("call-relying-on-default")
            if self.funcs[j]["mod"] != sc["mod"]:
                self.feat.add("call-other-module")
            return ("call", j, [self.expr(sc, 1) for _ in range(n)])
        self.pure = False  # abs / max have a value in Python, none in PyLang
        self.feat.add("call-not-a-module-function")
        if r.random() < 0.5:
            return ("callx", "abs", [self.expr(sc, 1)])
        return ("callx", "max", [self.expr(sc, 1), ("num", Fraction(r.choice([0, 1, 2])), False)])

    def _bind(self, sc: dict, t: int) -> None:
        if t not in sc["vars"]:
            sc["vars"] = sc["vars"] + [t]
        sc["assigned"].add(t)

    def if_stmt(self, sc: dict, d: int) -> tuple:
        r = self.rng
        c = self.cond(sc, 1)
        kind = r.random()
        s1 = self._fork(sc)
        body = self.block(s1, d - 1, r.randint(1, 2), must_return=r.random() < 0.35)
        if kind < 0.3:  # no else
            self.feat.add("if-no-else")
            orelse: list = []
            s2 = self._fork(sc)
        elif kind < 0.5:  # elif chain
            self.feat.add("elif")
            s2 = self._fork(sc)
            orelse = [self.if_stmt(s2, d - 1)] if d - 1 > 0 else self.block(s2, 0, 1, must_return=r.random() < 0.35)
        else:
            self.feat.add("if-else")
            s2 = self._fork(sc)
            orelse = self.block(s2, d - 1, r.randint(1, 2), must_return=r.random() < 0.35)
        # names bound after the if: usually only those bound on both paths; sometimes the union
        both = [v for v in s1["vars"] if v in s2["vars"]]
        union = s1["vars"] + [v for v in s2["vars"] if v not in s1["vars"]]
        if r.random() < 0.9:
            sc["vars"] = both
        else:
            # (a module constant used as a local is never left "maybe bound": CPython raises UnboundLocalError where
            # the translator and PyLang would read the module constant)
            union = [v for v in union if v in both or v not in (50, 51, 52)]
            sc["vars"] = union
            if len(union) != len(both):
                self.feat.add("maybe-unbound-after-if")
        sc["assigned"] |= s1["assigned"] | s2["assigned"]
        if any(s[0] == "assign" for s in body):
            self.feat.add("assign-in-branch")
        return ("if", c, body, orelse)

    @staticmethod
    def _fork(sc: dict) -> dict:
        return {"vars": list(sc["vars"]), "params": sc["params"], "assigned": set(sc["assigned"]), "callees": sc["callees"], "mod": sc["mod"]}

    def other_stmt(self, sc: dict) -> tuple:
        r = self.rng
        self.pure = False
        self.feat.add("unsupported-stmt")
        v = vn(r.choice(sc["vars"])) if sc["vars"] else "v10"
        return (
            "other",
            r.choice(
                [
                    [f"{v} += 1"],
                    [f"while {v} > 100:", f"    {v} = {v} - 1"],
                    [f"{v}: float = 2"],
                    [f"v14 = v15 = {v}"],
                    ["for v16 in ():", "    pass"],
                    [f"{v} *= 2"],
                    [f"v14, v15 = ({v}, 1) if True else (1, {v})"],
                    ["assert True"],
                ]
            ),
        )

    def function(self, idx: int, n_params: int, mod: str, callees: list[int], small: bool = False) -> dict:
        r = self.rng
        params = list(range(1, n_params + 1))
        self.shadow = r.choice([50, 51, 52]) if r.random() < 0.16 else None
        sc = {"vars": list(params), "params": params, "assigned": set(), "callees": callees, "mod": mod}
        body: list = []
        if r.random() < 0.1:
            body.append(("doc",))
        body += self.block(sc, 2 if (small or r.random() < 0.8) else 3, r.randint(0, 2 if small else 3), must_return=True)
        defaults: list[Fraction] = []
        if n_params >= 1 and r.random() < 0.3:
            # defaulted TRAILING parameters (`def f(v01, v02=2.0)`), sometimes all of them
            k = r.randint(1, n_params)
            defaults = [r.choice(REBIND_POOL) for _ in range(k)]
            self.feat.add("default-args")
        f = {"params": params, "mod": mod, "body": body, "name": f"f{self.case_id}_{idx}", "defaults": defaults}
        return f

    # -- rendering: Python ---------------------------------------------------------------
    def src(self, e: tuple, sc: dict | None = None, mod: str | None = None) -> str:
        m = mod if mod is not None else (sc["mod"] if sc else "a")
        k = e[0]
        x = "x" if self.exact else ""
        if k == "num":
            if self.exact:
                return f"_X({float(e[1])!r})" if (e[2] or e[1].denominator != 1) else f"_X({e[1].numerator})"
            return num_src(e[1], e[2])
        if k == "var":
            return vn(e[1])
        if k == "attr":
            return f"{self.modname['c']}{x}.{e[2]}"
        if k == "un":
            return f"({UN_PY[e[1]]}{self.src(e[2], mod=m)})"
        if k == "bin":
            return f"({self.src(e[2], mod=m)} {BIN_PY[e[1]]} {self.src(e[3], mod=m)})"
        if k == "ifexp":
            return f"({self.src(e[2], mod=m)} if {self.src_cond(e[1], mod=m)} else {self.src(e[3], mod=m)})"
        if k == "callx":
            return f"{e[1]}({', '.join(self.src(a, mod=m) for a in e[2])})"
        if k in ("call", "callkw"):
            g = self.funcs[e[1]]
            args = [self.src(a, mod=m) for a in e[2]]
            if k == "callkw" and e[3] is not None:
                args = [a if i < e[4] else f"{vn(g['params'][sl])}={a}" for i, (a, sl) in enumerate(zip(args, e[3]))]
            elif k == "callkw":
                # (a parameterless callee reached through an arity mismatch has no parameter name to use: any keyword does,
                # CPython raises TypeError and the translator refuses keywords whatever their name)
                kw = vn(g["params"][min(len(args), len(g["params"])) - 1]) if g["params"] else "v01"
                args[-1] = f"{kw}={args[-1]}"
            if g["mod"] == m or g.get("from_imported"):
                callee = g["name"]
            else:
                callee = f"{self.modname[g['mod']]}{x}.{g['name']}"
            return f"{callee}({', '.join(args)})"
        if k == "other":
            return e[1]
        raise AssertionError(k)

    def src_cond(self, c: tuple, sc: dict | None = None, mod: str | None = None) -> str:
        m = mod if mod is not None else (sc["mod"] if sc else "a")
        if c[0] == "cother":
            return c[1]
        s = self.src(c[1], mod=m)
        for op, e in c[2]:
            s += f" {CMP_PY[op]} {self.src(e, mod=m)}"
        return s

    def src_block(self, ss: list, ind: int, mod: str) -> list[str]:
        pad = "    " * ind
        out: list[str] = []
        for s in ss:
            k = s[0]
            if k == "assign":
                out.append(f"{pad}{vn(s[1])} = {self.src(s[2], mod=mod)}")
            elif k == "tuple":
                out.append(f"{pad}{', '.join(vn(x) for x in s[1])} = {', '.join(self.src(e, mod=mod) for e in s[2])}")
            elif k == "if":
                out += self._src_if(s, ind, mod, "if")
            elif k == "return":
                out.append(f"{pad}return {self.src(s[1], mod=mod)}")
            elif k == "retnone":
                out.append(f"{pad}return")
            elif k == "pass":
                out.append(f"{pad}pass")
            elif k == "doc":
                out.append(f'{pad}"""generated."""')
            elif k == "other":
                out += [pad + ln for ln in s[1]]
        if not out:
            out.append(f"{pad}pass")
        return out

    def _src_if(self, s: tuple, ind: int, mod: str, kw: str) -> list[str]:
        pad = "    " * ind
        out = [f"{pad}{kw} {self.src_cond(s[1], mod=mod)}:"] + self.src_block(s[2], ind + 1, mod)
        orelse = s[3]
        if orelse:
            if len(orelse) == 1 and orelse[0][0] == "if":
                out += self._src_if(orelse[0], ind, mod, "elif")
            else:
                out += [f"{pad}else:"] + self.src_block(orelse, ind + 1, mod)
        return out

    def fn_source(self, f: dict) -> str:
        ds = f.get("defaults", [])
        nreq = len(f["params"]) - len(ds)
        sig = [vn(p) if i < nreq else f"{vn(p)}=" + (f"_X({float(ds[i - nreq])!r})" if self.exact else repr(float(ds[i - nreq]))) for i, p in enumerate(f["params"])]
        lines = [f"def {f['name']}({', '.join(sig)}):"] + self.src_block(f["body"], 1, f["mod"])
        return "\n".join(lines) + "\n"


# -- rendering: Gallina ----------------------------------------------------------------------


def cq(q: Fraction) -> str:
    return f"({q.numerator} # {q.denominator})"


def g_expr(e: tuple) -> str:
    k = e[0]
    if k == "num":
        return f"(ENum {cq(e[1])})"
    if k == "attr":
        return f"(EVar {ATTR_IDS[e[2]]})"
    if k == "var":
        return f"(EVar {e[1]})"
    if k == "un":
        return f"(EUn {e[1]} {g_expr(e[2])})"
    if k == "bin":
        return f"(EBin {e[1]} {g_expr(e[2])} {g_expr(e[3])})"
    if k == "ifexp":
        return f"(EIfExp {g_cond(e[1])} {g_expr(e[2])} {g_expr(e[3])})"
    if k == "call":
        return f"(ECall {e[1]} {g_exprs(e[2])})"
    if k == "callkw":
        slots = e[3] if e[3] is not None else list(range(len(e[2])))
        return f"(ECallKw {e[1]} [{'; '.join(f'{x}%nat' for x in slots)}] {g_exprs(e[2])})"
    if k == "callx":
        return f"(ECall {UNKNOWN_FN} {g_exprs(e[2])})"
    if k == "other":
        return "EOther"
    raise AssertionError(k)


def g_exprs(es: list) -> str:
    s = "ENil"
    for e in reversed(es):
        s = f"(ECons {g_expr(e)} {s})"
    return s


def g_cond(c: tuple) -> str:
    if c[0] == "cother":
        return "COther"
    ch = "ChNil"
    for op, e in reversed(c[2]):
        ch = f"(ChCons {op} {g_expr(e)} {ch})"
    return f"(CCmp {g_expr(c[1])} {ch})"


def g_stmts(ss: list) -> str:
    s = "SNil"
    for st in reversed(ss):
        k = st[0]
        if k == "assign":
            h = f"(SAssign {st[1]} {g_expr(st[2])})"
        elif k == "tuple":
            h = f"(STuple [{'; '.join(str(x) for x in st[1])}] {g_exprs(st[2])})"
        elif k == "if":
            h = f"(SIf {g_cond(st[1])} {g_stmts(st[2])} {g_stmts(st[3])})"
        elif k == "return":
            h = f"(SReturn {g_expr(st[1])})"
        elif k == "retnone":
            h = "SReturnNone"
        elif k in ("pass", "doc"):
            h = "SPass"
        else:
            h = "SOther"
        s = f"(SCons {h} {s})"
    return s


def g_fundef(f: dict) -> str:
    """an [mfun] (ConstEnv.v): parameters, module id, body -- the constants come with the case's environment"""
    ds = "; ".join(cq(d) for d in f.get("defaults", []))
    return f"(mkMFun [{'; '.join(str(p) for p in f['params'])}] [{ds}] {MOD_IDS[f['mod']]} {g_stmts(f['body'])})"


def g_env(consts: dict[str, dict[int, Fraction]], attrs: dict[str, Fraction]) -> str:
    """a [cenv]: module id -> float table; the attribute constants of the constants module are entries of
    module a's table (the only module that reads them)"""
    rows = []
    for mod in ("a", "b"):
        tab = dict(consts[mod])
        if mod == "a":
            tab.update({ATTR_IDS[k]: v for k, v in attrs.items()})
        rows.append(f"({MOD_IDS[mod]}, [" + "; ".join(f"({k}, {cq(v)})" for k, v in sorted(tab.items())) + "])")
    return "[" + "; ".join(rows) + "]"


def g_optq(v: Fraction | None) -> str:
    return "None" if v is None else f"(Some {cq(v)})"
