"""C17 helper: drive the real implementation on one SBML file and canonicalise what it did.

* `transformed(path)`   -- pysbml.load_and_transform_model(path) as plain data (the INPUT of the Coq model)
* `run_read(path, states)` -- mxlpy.sbml.read(path): def names of the generated module, structure of the
                           built Model, initial conditions and (args, rhs) at the given states
* printers of all of this as Gallina literals
"""

from __future__ import annotations

import ast
import signal
from fractions import Fraction
from pathlib import Path
from typing import Any

from harness import common
from harness.common import cbool, clist, cq, cstr


class Untranslatable(Exception):
    pass


class _Timeout(Exception):
    pass


def _alarm(signum, frame):  # noqa: ANN001, ARG001
    raise _Timeout


# ---------------------------------------------------------------------------------------
# sympy -> model expressions  (nested tuples mirroring SbmlExpr.expr)
# ---------------------------------------------------------------------------------------


def sym_to_expr(e) -> tuple:  # noqa: ANN001, C901, PLR0911, PLR0912
    import sympy

    if isinstance(e, sympy.Symbol):
        return ("sym", e.name)
    if isinstance(e, sympy.Float):
        return ("num", True, Fraction(*float(e).as_integer_ratio()))
    if isinstance(e, sympy.Rational):  # includes Integer
        return ("num", False, Fraction(int(e.p), int(e.q)))
    if isinstance(e, sympy.Add) or isinstance(e, sympy.Mul):
        op = "add" if isinstance(e, sympy.Add) else "mul"
        args = [sym_to_expr(a) for a in e.args]
        out = args[0]
        for a in args[1:]:
            out = ("bin", op, out, a)
        return out
    if isinstance(e, sympy.Pow):
        b, x = e.args
        if isinstance(x, sympy.Integer):
            return ("pow", sym_to_expr(b), int(x))
        if x == sympy.Rational(1, 2):
            return ("fun", "sqrt", sym_to_expr(b))
        if x == sympy.Rational(-1, 2):
            return ("pow", ("fun", "sqrt", sym_to_expr(b)), -1)
        raise Untranslatable(f"power {x}")
    if isinstance(e, sympy.Piecewise):
        branches = list(e.args)
        last_v, last_c = branches[-1].args
        if last_c is not sympy.true:
            raise Untranslatable("piecewise without otherwise")
        out = sym_to_expr(last_v)
        for br in reversed(branches[:-1]):
            v, c = br.args
            rel = {
                sympy.StrictLessThan: "lt",
                sympy.LessThan: "le",
                sympy.StrictGreaterThan: "gt",
                sympy.GreaterThan: "ge",
                sympy.Equality: "eq",
                sympy.Unequality: "ne",
            }.get(type(c))
            if rel is None:
                raise Untranslatable(f"condition {type(c).__name__}")
            out = ("pw", sym_to_expr(v), rel, sym_to_expr(c.lhs), sym_to_expr(c.rhs), out)
        return out
    for cls, name in ((sympy.exp, "exp"), (sympy.log, "log"), (sympy.sin, "sin"), (sympy.cos, "cos"), (sympy.Abs, "Abs")):
        if isinstance(e, cls) and len(e.args) == 1:
            return ("fun", name, sym_to_expr(e.args[0]))
    raise Untranslatable(type(e).__name__)


def expr_is_exact(e: tuple) -> bool:
    """no uninterpreted function (Abs is interpreted by the rational algebra)"""
    k = e[0]
    if k == "sym":
        return True
    if k == "num":
        # a literal like 0.8 (sympy folded 1/(1+1/4)) is a 53-bit dyadic: arithmetic on it rounds in binary64
        q = e[2]
        return q.denominator <= 2**20 and abs(q.numerator) < 2**40
    if k == "bin":
        return expr_is_exact(e[2]) and expr_is_exact(e[3])
    if k == "pow":
        return expr_is_exact(e[1])
    if k == "pw":
        return all(expr_is_exact(x) for x in (e[1], e[3], e[4], e[5]))
    if k == "fun":
        return e[1] == "Abs" and expr_is_exact(e[2])
    return False


def expr_syms(e: tuple) -> set[str]:
    k = e[0]
    if k == "num":
        return set()
    if k == "sym":
        return {e[1]}
    if k == "bin":
        return expr_syms(e[2]) | expr_syms(e[3])
    if k == "pow":
        return expr_syms(e[1])
    if k == "pw":
        return expr_syms(e[1]) | expr_syms(e[3]) | expr_syms(e[4]) | expr_syms(e[5])
    return expr_syms(e[2])


def cexpr(e: tuple) -> str:
    k = e[0]
    if k == "sym":
        return f"(ESym {cstr(e[1])})"
    if k == "num":
        return f"(ENum {cbool(e[1])} {cq(e[2])})"
    if k == "bin":
        return f"(EBin {'OAdd' if e[1] == 'add' else 'OMul'} {cexpr(e[2])} {cexpr(e[3])})"
    if k == "pow":
        return f"(EPow {cexpr(e[1])} {common.cz(e[2])})"
    if k == "pw":
        rel = {"lt": "RLt", "le": "RLe", "gt": "RGt", "ge": "RGe", "eq": "REq", "ne": "RNe"}[e[2]]
        return f"(EPw {cexpr(e[1])} {rel} {cexpr(e[3])} {cexpr(e[4])} {cexpr(e[5])})"
    if k == "fun":
        return f"(EFun {cstr(e[1])} {cexpr(e[2])})"
    raise ValueError(k)


# ---------------------------------------------------------------------------------------
# the transformed model (pysbml's output) as plain data
# ---------------------------------------------------------------------------------------


def transformed(path: Path) -> dict:
    """{'vars': [(k, Fraction)], 'pars': [...], 'der': [(k, expr)], 'rxn': [(k, expr, [(sp, expr)])], 'ia': [(k, expr)]}
    raises Untranslatable when an expression is outside the modelled sympy subset."""
    import pysbml

    tm = pysbml.load_and_transform_model(path)
    if tm.events:
        raise Untranslatable("events")

    def num(x) -> Fraction:  # noqa: ANN001
        return Fraction(*float(x).as_integer_ratio())

    return {
        "vars": [(k, num(v.value)) for k, v in tm.variables.items()],
        "pars": [(k, num(v.value)) for k, v in tm.parameters.items()],
        "der": [(k, sym_to_expr(v)) for k, v in tm.derived.items()],
        "rxn": [(k, sym_to_expr(r.expr), [(s, sym_to_expr(c)) for s, c in r.stoichiometry.items()]) for k, r in tm.reactions.items()],
        "ia": [(k, sym_to_expr(v)) for k, v in tm.initial_assignments.items()],
    }


def arg_orders(m, tm: dict) -> list[tuple[tuple, list[str]]]:  # noqa: ANN001
    """[(expression, argument names in the order the implementation enumerated its free symbols)] read off the
    built Model: every component keeps `args=free_symbols(expr)` of ITS OWN expression (also when the def of
    that name was overwritten by a colliding one).  Entries whose names are not exactly the expression's
    symbols are dropped (the Coq side then falls back to occurrence order)."""
    from mxlpy.types import Derived, InitialAssignment

    out: list[tuple[tuple, list[str]]] = []

    def add(e: tuple, args) -> None:  # noqa: ANN001
        args = list(args)
        if set(args) == expr_syms(e) and len(set(args)) == len(args):
            out.append((e, args))

    try:
        der = m.get_raw_derived(as_copy=False)
        rxn = m.get_raw_reactions(as_copy=False)
        pars = m.get_raw_parameters(as_copy=False)
        vs = m.get_raw_variables(as_copy=False)
        for k, e in tm["der"]:
            if k in der:
                add(e, der[k].args)
        for k, e, st in tm["rxn"]:
            if k in rxn:
                add(e, rxn[k].args)
                for sp, c in st:
                    v = rxn[k].stoichiometry.get(sp)
                    if isinstance(v, Derived) and c[0] != "sym":
                        add(c, v.args)
        for k, e in tm["ia"]:
            if k in pars and isinstance(pars[k].value, InitialAssignment):
                add(e, pars[k].value.args)
            elif k in vs and isinstance(vs[k].initial_value, InitialAssignment):
                add(e, vs[k].initial_value.args)
    except Exception:  # noqa: BLE001
        return []
    return out


def cfs(tab: list[tuple[tuple, list[str]]]) -> str:
    return clist(f"({cexpr(e)}, {clist(map(cstr, a))})" for e, a in tab)


def guards(path: Path) -> tuple[list[str], list[str]]:
    """(function-key collisions, reserved names used) of the document, computed from pysbml's raw output --
    an independent re-statement of the guard of C17_import_correct_partial (no expression translation)."""
    import pysbml
    import sympy

    tm = pysbml.load_and_transform_model(path)
    names: list[str] = []
    targets = set(tm.variables) | set(tm.parameters)
    names += [f"init_{k}" for k in tm.initial_assignments if k in targets]
    names += list(tm.derived)
    used = set(tm.variables) | set(tm.parameters) | set(tm.derived) | set(tm.reactions)
    exprs = list(tm.derived.values()) + list(tm.initial_assignments.values())
    for k, r in tm.reactions.items():
        names.append(k)
        exprs.append(r.expr)
        for s, c in r.stoichiometry.items():
            exprs.append(c)
            if not isinstance(c, (sympy.Float, sympy.Symbol)):
                names.append(f"{k}_stoich_{s}")
    for e in exprs:
        used |= {x.name for x in e.free_symbols if isinstance(x, sympy.Symbol)}
    return sorted({n for n in names if names.count(n) > 1}), sorted(used & set(RESERVED))


def tm_exact(tm: dict) -> bool:
    return (
        all(expr_is_exact(e) for _, e in tm["der"])
        and all(expr_is_exact(e) and all(expr_is_exact(c) for _, c in st) for _, e, st in tm["rxn"])
        and all(expr_is_exact(e) for _, e in tm["ia"])
    )


def tm_names(tm: dict) -> set[str]:
    out = {k for k, _ in tm["vars"]} | {k for k, _ in tm["pars"]} | {k for k, _ in tm["der"]} | {k for k, _, _ in tm["rxn"]}
    for _, e in tm["der"] + tm["ia"]:
        out |= expr_syms(e)
    for _, e, st in tm["rxn"]:
        out |= expr_syms(e)
        for _, c in st:
            out |= expr_syms(c)
    return out


def key_collisions(tm: dict) -> list[str]:
    """Names under which generate_mxlpy_code_from_symbolic_repr files more than one function body
    (independent re-statement of the guard of C17_import_correct_partial)."""
    names: list[str] = []
    targets = {k for k, _ in tm["vars"]} | {k for k, _ in tm["pars"]}
    names += [f"init_{k}" for k, _ in tm["ia"] if k in targets]
    names += [k for k, _ in tm["der"]]
    for k, _, st in tm["rxn"]:
        names.append(k)
        for s, c in st:
            if not (c[0] == "sym" or (c[0] == "num" and c[1])):
                names.append(f"{k}_stoich_{s}")
    return sorted({n for n in names if names.count(n) > 1})


RESERVED = ("math", "scipy", "Model", "Derived", "InitialAssignment", "create_model", "abs", "min", "max")


def reserved_used(tm: dict) -> list[str]:
    return sorted(tm_names(tm) & set(RESERVED))


def ctmodel(tm: dict) -> str:
    def pairs_q(l):  # noqa: ANN001, E741
        return clist(f"({cstr(k)}, {cq(v)})" for k, v in l)

    def pairs_e(l):  # noqa: ANN001, E741
        return clist(f"({cstr(k)}, {cexpr(v)})" for k, v in l)

    rx = clist(f"({cstr(k)}, mkTR {cexpr(e)} {pairs_e(st)})" for k, e, st in tm["rxn"])
    return f"(mkT {pairs_q(tm['vars'])} {pairs_q(tm['pars'])} {pairs_e(tm['der'])} {rx} {pairs_e(tm['ia'])})"


# ---------------------------------------------------------------------------------------
# the implementation
# ---------------------------------------------------------------------------------------


def classify(e: BaseException) -> str:
    n = type(e).__name__
    return {
        "ArityMismatchError": "ErrArity",
        "NameError": "ErrName",
        "MissingDependenciesError": "ErrMissing",
        "CircularDependencyError": "ErrCircular",
        "ZeroDivisionError": "ErrEval",
        "TypeError": "ErrEval",
        "ValueError": "ErrEval",
        "OverflowError": "ErrEval",
    }.get(n, "ErrOther")


def def_names(module_file: Path) -> list[str]:
    tree = ast.parse(module_file.read_text())
    return [n.name for n in tree.body if isinstance(n, ast.FunctionDef) and n.name != "create_model"]


def module_file_of(path: Path) -> Path:
    from mxlpy.paths import default_tmp_dir
    from mxlpy.sbml._import import valid_filename

    return default_tmp_dir(None, remove_old_cache=False) / f"{valid_filename(path.stem)}.py"


def structure(m) -> tuple:  # noqa: ANN001
    from mxlpy.types import Derived, InitialAssignment

    vs = [(k, isinstance(v.initial_value, InitialAssignment)) for k, v in m.get_raw_variables(as_copy=False).items()]
    ps = [(k, isinstance(v.value, InitialAssignment)) for k, v in m.get_raw_parameters(as_copy=False).items()]
    ds = list(m.get_raw_derived(as_copy=False))
    rs = [(k, [(s, isinstance(c, Derived)) for s, c in r.stoichiometry.items()]) for k, r in m.get_raw_reactions(as_copy=False).items()]
    return (vs, ps, ds, rs)


def extra_observations(m, states: list[dict[str, float]]) -> dict:  # noqa: ANN001
    """reactions / rates / coefficients / stored numbers of the built Model (plain data)"""
    from mxlpy.types import Derived, InitialAssignment

    raw = m.get_raw_reactions(as_copy=False)
    stored: dict[str, dict[str, float | None]] = {
        k: {s: (None if isinstance(c, Derived) else float(c)) for s, c in r.stoichiometry.items()} for k, r in raw.items()
    }
    plain: dict[str, float] = {}
    for k, p in m.get_raw_parameters(as_copy=False).items():
        if not isinstance(p.value, InitialAssignment):
            plain[k] = float(p.value)
    for k, v in m.get_raw_variables(as_copy=False).items():
        if not isinstance(v.initial_value, InitialAssignment):
            plain[k] = float(v.initial_value)
    per = []
    for st in states:
        fl = m.get_fluxes(variables=dict(st), time=0.0).to_dict()
        sto = m.get_stoichiometries(variables=dict(st), time=0.0)
        per.append((fl, {r: {s: float(sto.loc[s, r]) for s in sto.index} for r in sto.columns}))
    return {"reactions": list(m.get_reaction_names()), "stored": stored, "plain": plain, "per": per}


def run_read(path: Path, states: list[dict[str, float]] | None, n_states_fn=None) -> dict:  # noqa: ANN001
    """Read the document with the real implementation.

    -> {"model": Model|None, "read_error": str|None, "keys": [..], "struct": tuple|None,
        "obs": ("Val", ic: dict, [(args: dict, rhs: dict)]) | (Err.., message)}
    `states`: list of {variable: value}; or None with n_states_fn(model) -> states."""
    from mxlpy import sbml

    out: dict[str, Any] = {"model": None, "read_error": None, "keys": [], "struct": None, "obs": None, "exc": None}
    signal.signal(signal.SIGALRM, _alarm)
    signal.setitimer(signal.ITIMER_REAL, 20.0)
    try:
        try:
            m = sbml.read(path)
        except _Timeout:
            raise
        except BaseException as e:  # noqa: BLE001
            out["read_error"] = f"{type(e).__name__}: {e}"[:300]
            out["exc"] = type(e).__name__
            out["obs"] = (classify(e), out["read_error"])
            try:
                out["keys"] = def_names(module_file_of(path))
            except Exception:  # noqa: BLE001
                out["keys"] = []
            return out
        out["model"] = m
        out["keys"] = def_names(module_file_of(path))
        out["struct"] = structure(m)
        try:
            ic = dict(m.get_initial_conditions())
            if states is None:
                states = n_states_fn(m, ic)
            out["states"] = states
            per = []
            for st in states:
                args = m.get_args(variables=dict(st), time=0.0).to_dict()
                rhs = m.get_right_hand_side(variables=dict(st), time=0.0).to_dict()
                per.append((args, rhs))
            out["obs"] = ("Val", ic, per)
        except _Timeout:
            raise
        except BaseException as e:  # noqa: BLE001
            out["exc"] = type(e).__name__
            out["obs"] = (classify(e), f"{type(e).__name__}: {e}"[:300])
            return out
        # what the oracle looks at beyond values and derivatives (never sent to Coq): the reactions of the Model,
        # their rates, the coefficients as stored and as reported, the plain numbers as stored
        try:
            out["extra"] = extra_observations(m, states)
        except _Timeout:
            raise
        except BaseException as e:  # noqa: BLE001
            out["extra_error"] = f"{type(e).__name__}: {e}"[:300]
        return out
    except _Timeout:
        out["obs"] = ("ErrOther", "timeout (20 s)")
        out["exc"] = "Timeout"
        return out
    finally:
        signal.setitimer(signal.ITIMER_REAL, 0)


# ---------------------------------------------------------------------------------------
# Gallina literals of observations
# ---------------------------------------------------------------------------------------


def _fr(x) -> Fraction:  # noqa: ANN001
    return common.to_fraction(x)


def obs_exact(obs) -> bool:  # noqa: ANN001
    """every number is finite and small enough that binary64 arithmetic on it was exact"""
    if obs[0] != "Val":
        return True
    try:
        vals = list(obs[1].values())
        for args, rhs in obs[2]:
            vals += list(args.values()) + list(rhs.values())
        for v in vals:
            f = _fr(v)
            if abs(f) >= 2**36 or (f.denominator & (f.denominator - 1)) != 0 or f.denominator > 2**36:
                return False
    except ValueError:
        return False
    return True


def calist(d: dict) -> str:
    return clist(f"({cstr(k)}, {cq(_fr(v))})" for k, v in d.items())


def cobs(obs) -> str:  # noqa: ANN001
    if obs[0] == "Val":
        per = clist(f"({calist(a)}, {calist(r)})" for a, r in obs[2])
        return f"(Val ({calist(obs[1])}, {per}))"
    return obs[0] if obs[0] in ("ErrArity", "ErrName", "ErrMissing", "ErrCircular", "ErrEval") else "ErrOther"


def cstruct(s) -> str:  # noqa: ANN001
    if s is None:
        return "None"
    vs, ps, ds, rs = s

    def sb(l):  # noqa: ANN001, E741
        return clist(f"({cstr(k)}, {cbool(b)})" for k, b in l)

    return f"(Some ({sb(vs)}, {sb(ps)}, {clist(map(cstr, ds))}, {clist(f'({cstr(k)}, {sb(st)})' for k, st in rs)}))"


def cstates(states: list[dict]) -> str:
    return clist(calist(s) for s in states)
