"""C07 -- arity correspondence: the Gallina model of fn_to_sympy's ARGUMENT BINDING
(coq/codegen/CallArity.v) against the real fn_to_sympy.

For every function of harness/c07_fns.py that must be refused by arity (ids 28..37), for their
helpers k_* and for a few ordinary table functions, each with 0..3 model arguments, the harness

  * REGENERATES the function's description from the Python source (signature through inspect, the
    single `return <expression>` through ast: + - *, names, numbers, at most one call of a helper
    with positional arguments) -- fail-closed: anything else raises ValueError;
  * calls the real fn_to_sympy(fn, origin, model_args=[m1, m2, ...]) and records whether it refused
    (None, or an exception), the names of the free symbols of the result, its value at environments
    with / without a component called n0011;
  * calls the Python function itself (what the model computes).

coq/codegen/CgInst.v::check_acase compares all of it with `translate_entry gen_bind_fact`,
`py_entry` and the hand-written `arity_entry` table.

Identifier codes: nXXXX -> XXXX; a, b, c, g, s -> 9101..9105; the model's arguments m1.. -> 9001.."""

from __future__ import annotations

import ast
import inspect
import re
import textwrap
from fractions import Fraction
from typing import Any

from harness import c07_fns as FN
from harness.common import cbool, clist, cn, cq

IDENT = {"a": 9101, "b": 9102, "c": 9103, "g": 9104, "s": 9105}
HOLE = 9999
HELPERS = ("k_scale", "k_gain", "k_lin", "k_kw", "k_star", "k_two")
PLAIN = (4, 5, 8, 6)  # f_mul, f_lin, f_two, f_sq: ordinary functions at every argument count


def code(name: str) -> int:
    m = re.fullmatch(r"n(\d{4})", name)
    if m:
        return int(m.group(1))
    m = re.fullmatch(r"m(\d)", name)
    if m:
        return 9000 + int(m.group(1))
    if name in IDENT:
        return IDENT[name]
    raise ValueError(f"identifier {name!r} has no code")


def signature(fn: Any) -> tuple[list[int], list[tuple[int, Fraction]], list[tuple[int, Fraction]], bool]:
    req: list[int] = []
    opt: list[tuple[int, Fraction]] = []
    kw: list[tuple[int, Fraction]] = []
    star = False
    P = inspect.Parameter
    for p in inspect.signature(fn).parameters.values():
        if p.kind == P.POSITIONAL_OR_KEYWORD and p.default is P.empty:
            if opt:
                raise ValueError("required parameter after a defaulted one")
            req.append(code(p.name))
        elif p.kind == P.POSITIONAL_OR_KEYWORD:
            opt.append((code(p.name), Fraction(p.default)))
        elif p.kind == P.KEYWORD_ONLY and p.default is not P.empty:
            kw.append((code(p.name), Fraction(p.default)))
        elif p.kind == P.VAR_POSITIONAL:
            star = True
        else:
            raise ValueError(f"parameter kind {p.kind} of {fn.__name__} is not modelled")
    return req, opt, kw, star


def _body(fn: Any) -> ast.expr:
    tree = ast.parse(textwrap.dedent(inspect.getsource(fn)))
    fd = tree.body[0]
    if not isinstance(fd, ast.FunctionDef):
        raise ValueError("not a function definition")
    stmts = [s for s in fd.body if not (isinstance(s, ast.Expr) and isinstance(s.value, ast.Constant))]
    if len(stmts) != 1 or not isinstance(stmts[0], ast.Return) or stmts[0].value is None:
        raise ValueError(f"{fn.__name__}: the body is not a single return statement")
    return stmts[0].value


def _texp(node: ast.expr, calls: list | None) -> str:
    """Gallina term of type texp Q; a helper call becomes the symbol `hole` and is appended to calls"""
    if isinstance(node, ast.BinOp) and isinstance(node.op, (ast.Add, ast.Sub, ast.Mult)):
        c = {ast.Add: "TAdd", ast.Sub: "TSub", ast.Mult: "TMul"}[type(node.op)]
        return f"(@{c} Q {_texp(node.left, calls)} {_texp(node.right, calls)})"
    if isinstance(node, ast.Name):
        return f"(@TSym Q {cn(code(node.id))})"
    if isinstance(node, ast.Constant) and isinstance(node.value, (int, float)) and not isinstance(node.value, bool):
        return f"(@TNum Q {cq(Fraction(node.value))})"
    if isinstance(node, ast.Call) and isinstance(node.func, ast.Name) and not node.keywords and calls is not None and not calls:
        helper = getattr(FN, node.func.id, None)
        if helper is None or node.func.id not in HELPERS:
            raise ValueError(f"call of {node.func.id!r}: not a helper of the table")
        if any(isinstance(a, ast.Starred) for a in node.args):
            raise ValueError("starred argument")
        calls.append((helper, [_texp(a, None) for a in node.args]))
        return f"(@TSym Q {cn(HOLE)})"
    raise ValueError(f"expression {ast.dump(node)[:80]} is not modelled")


def coq_pyfn(fn: Any, calls: list | None) -> str:
    req, opt, kw, star = signature(fn)
    pairs = lambda l: clist(f"({cn(n)}, {cq(v)})" for n, v in l)  # noqa: E731
    return f"(@mkPyFn Q {clist(map(cn, req))} {pairs(opt)} {pairs(kw)} {cbool(star)} {_texp(_body(fn), calls)})"


def coq_entry(fn: Any, nargs: int) -> str:
    calls: list = []
    outer = coq_pyfn(fn, calls)
    if calls:
        helper, acts = calls[0]
        call = f"(Some ({coq_pyfn(helper, None)}, {clist(acts)}))"
    else:
        call = "None"
    return f"(@mkEntry Q {outer} {call} {clist(cn(9001 + i) for i in range(nargs))})"


_VALS = [Fraction(3), Fraction(5), Fraction(7)]


def observe(fn: Any, nargs: int) -> dict:
    """the real fn_to_sympy on nargs model symbols + CPython's value of the call"""
    import sympy

    from harness import common
    from mxlpy.meta.source_tools import fn_to_sympy

    msyms = [sympy.Symbol(f"m{i + 1}") for i in range(nargs)]
    out: dict[str, Any] = {"refused": True, "syms": [], "how": "None"}
    try:
        expr = fn_to_sympy(fn, origin="arity", model_args=msyms)
    except Exception as e:  # noqa: BLE001  (KeyError of the global-name lookup: a refusal)
        expr = None
        out["how"] = type(e).__name__
    vals = _VALS[:nargs]
    envs = [dict(zip((f"m{i + 1}" for i in range(nargs)), vals)) | extra for extra in ({"n0011": Fraction(4)}, {})]
    out["points"] = []
    try:
        py = Fraction(fn(*[float(v) for v in vals]))
    except TypeError:
        py = None
    for env in envs:
        tr = None
        if expr is not None:
            e = sympy.sympify(expr)
            if {str(s) for s in e.free_symbols} <= set(env):
                tr = common.to_fraction(float(e.subs({sympy.Symbol(k): sympy.Rational(v.numerator, v.denominator) for k, v in env.items()})))
        out["points"].append((env, vals, tr, py))
    if expr is not None:
        out["refused"] = False
        out["how"] = "expression"
        out["syms"] = sorted(code(str(s)) for s in sympy.sympify(expr).free_symbols)
        out["text"] = str(expr)
    return out


def _opt(v: Fraction | None) -> str:
    return "None" if v is None else f"(Some {cq(v)})"


def cases() -> tuple[list[str], list[dict]]:
    """(Gallina acase terms, readable descriptions in the same order)"""
    jobs: list[tuple[int | None, Any, int]] = [(fid, FN.FNS[fid], FN.ARITY[fid]) for fid in sorted(FN.BY_ARITY_REFUSED)]
    for name in HELPERS:
        jobs += [(None, getattr(FN, name), k) for k in range(4)]
    for fid in PLAIN:
        jobs += [(None, FN.FNS[fid], k) for k in range(4)]
    terms, info = [], []
    for fid, fn, k in jobs:
        ob = observe(fn, k)
        pts = clist(
            f"mkAPt {clist('(' + cn(code(n)) + ', ' + cq(v) + ')' for n, v in env.items())} {clist(map(cq, vals))} {_opt(tr)} {_opt(py)}"
            for env, vals, tr, py in ob["points"]
        )
        fidt = "None" if fid is None else f"(Some {cn(fid)})"
        terms.append(f"mkACase {fidt} {coq_entry(fn, k)} {cbool(ob['refused'])} {clist(map(cn, ob['syms']))} {pts}")
        info.append({"fn": fn.__name__, "id": fid, "model_arguments": k, "fn_to_sympy": ob["how"], "text": ob.get("text"),
                     "free_symbols": ob["syms"], "python": None if ob["points"][0][3] is None else str(ob["points"][0][3])})
    return terms, info


ASPECT = {1: "refused or not", 2: "free symbols of the translation", 3: "value of the translation", 4: "CPython's value of the function (description regenerated from the source)", 5: "the hand-written arity_entry / fsemQ of coq/codegen/CgInst.v"}


def corr_file(terms: list[str]) -> str:
    defs = "\n".join(f"Definition acase_{i} : acase := {c}." for i, c in enumerate(terms))
    names = "; ".join(f"acase_{i}" for i in range(len(terms)))
    return (
        "From Coq Require Import List NArith ZArith QArith.\nFrom MxlBase Require Import ListX.\n"
        "From Codegen Require Import Codegen CodegenSpec CallArity GenCodegenFacts CgInst.\nImport ListNotations.\nOpen Scope Q_scope.\n"
        + defs
        + f"\nDefinition acases : list acase := [{names}].\n"
        "Definition mismatches := amismatches_of gen_bind_fact acases.\nEval vm_compute in mismatches.\n"
    )
