"""C15 helper (closing round): EXTENDED HISTORIES of one Simulator.

Operations  simulate | simulate_to_steady_state | update_parameter | update_variables | clear_results  in sequence on
ONE Simulator whose user-supplied initial values may be written in any KEY ORDER, then get_result().  Two things the
earlier stages never did:

  * a model change BETWEEN two runs on the same Simulator (seeded change C15-7): the second steady-state search
    converges at an integrator time that is not later than what the Simulator already holds (a search always restarts at
    integrator time 0) -- its row must still be the last row of the result;
  * a y0 dictionary whose keys are not in the order in which the variables were added to the model (seeded change C15-9):
    the reported state must be attached to the right variable NAMES.

(a) the real code is run with a recorder patched into the integrator CLASS (update_variables / clear_results create new
integrator objects), (b) an independent oracle judges the PROPERTY on the last row of the final result: analytic steady
state of the network AS PARAMETERISED AT THE TIME OF THE LAST SEARCH (closed forms of harness/c15.py, by variable name),
balancing reported fluxes, failure value where the network as parameterised then has no steady state, and (c) every
recorded integrator result goes through the Gallina model `SteadyHist2.hist2_named gen_hist_facts` whose labelled rows
must equal the frames of get_result() exactly (times incl. the time shift, column order, values).

Nothing here shares code with the Coq model."""

from __future__ import annotations

import signal
from typing import Any

from harness import common
from harness.common import clist, cq

FAR = 8192.0  # a dyadic end time later than the convergence time of most generated searches


# ---------------------------------------------------------------------------------------
# inputs
# ---------------------------------------------------------------------------------------


def y0_order(net: dict) -> list[int]:
    """order in which the keys of a user-supplied y0 are written (default: the order of the model's variables)"""
    return list(net.get("y0_order") or var_order(net))


def var_order(net: dict) -> list[int]:
    """order in which the variables were added to the model = model.get_variable_names() = integrator state order"""
    return list(net.get("var_order") or range(net["d"]))


def user_y0(net: dict) -> dict[str, float] | None:
    """the y0 argument: None, or a dict whose keys are written in net['y0_order']"""
    if not net["user_y0"]:
        return None
    return {f"x{i}": float(net["y0"][i]) for i in y0_order(net)}


def demo_branch() -> dict:
    """seeded change C15-9, demo: -> A, A -> B, A -> C, B ->, C ->  with y0 = {C: .5, B: 40, A: 0}"""
    return {"kind": "branch", "d": 3,
            "reactions": [("in", 0, 2.0), ("conv", 0, 1, 0.1), ("conv", 0, 2, 0.3), ("out", 1, 0.05), ("out", 2, 0.2)],
            "has_ss": True, "y0": [0.0, 40.0, 0.5], "user_y0": True, "y0_default": [1.0, 2.0, 3.0], "y0_order": [2, 1, 0]}


def demo_chain() -> dict:
    """seeded change C15-7, demo: -> A -> B ->  with v0 = 1, k1 = 0.02 (later 0.5), k2 = 0.05"""
    return {"kind": "chain2", "d": 2, "reactions": [("in", 0, 1.0), ("conv", 0, 1, 0.02), ("out", 1, 0.05)],
            "has_ss": True, "y0": [0.0, 0.0], "user_y0": False, "y0_default": [0.0, 0.0]}


def fixed_histories() -> list[tuple[dict, float, bool, list[tuple]]]:
    ch, br = demo_chain(), demo_branch()
    return [
        (ch, 1e-6, False, [("ss",), ("par", 1, 0.5), ("ss",)]),  # C15-7 demo, sequence 1
        (ch, 1e-6, False, [("sim", 5000.0, 50), ("par", 1, 0.1), ("ss",)]),  # sequence 3
        (dict(ch, reactions=[("in", 0, 1.0), ("conv", 0, 1, 0.5), ("out", 1, 0.05)]), 1e-6, False,
         [("ss",), ("par", 1, 0.02), ("ss",)]),  # sequence 2 (fast, then slow)
        (ch, 1e-6, True, [("ss",), ("par", 1, 0.25), ("ss",)]),  # sequence 4 (relative norm)
        (br, 1e-6, False, [("ss",)]),  # C15-9 demo, y0 written (C, B, A)
        (dict(br, y0_order=[1, 2, 0]), 1e-8, True, [("ss",)]),
        (dict(br, y0=[30.0, 1.0, 12.0], y0_order=[1, 2, 0]), 1e-6, False, [("sim", 64.0, 4), ("par", 3, 0.1), ("ss",)]),
        (br, 1e-6, False, [("ss",), ("var", {0: 8.0}), ("par", 1, 0.2), ("ss",)]),
        # variables added to the model as (x2, x0, x1); y0 written (x1, x2, x0)
        (dict(br, var_order=[2, 0, 1], y0_order=[1, 2, 0]), 1e-6, False, [("ss",), ("par", 4, 0.05), ("ss",)]),
    ]


STABLE = ("pool", "chain2", "chain3", "rev", "branch")


def gen_history2(rng, net: dict) -> list[tuple]:
    """ops: ("sim", t_end, steps) | ("ss",) | ("par", reaction index, new value) | ("var", {pool: value}) | ("clear",).
    Every history ends with a steady-state search; parameter changes keep the network stable (a rate constant or the
    influx is multiplied by 1/4 .. 8), so the last search has an analytic steady state to be compared with."""
    rx = net["reactions"]

    def par():  # noqa: ANN202
        r = rng.randrange(len(rx))
        f = rng.choice([0.25, 0.5, 2.0, 4.0, 8.0])
        return ("par", r, float(rx[r][-1]) * f)

    def var():  # noqa: ANN202
        i = rng.randrange(net["d"])
        return ("var", {i: float(abs(net["y0"][i]) * rng.choice([0.5, 2.0]) + rng.choice([0.0, 0.25]))})

    sim = ("sim", rng.choice([64.0, 256.0, FAR, FAR]), rng.choice([2, 4, 8]))
    shapes = [
        [("ss",), par(), ("ss",)],
        [("ss",), par(), ("ss",)],
        [("ss",), par(), ("ss",), par(), ("ss",)],
        [sim, par(), ("ss",)],
        [sim, par(), ("ss",)],
        [("ss",), var(), ("ss",)],
        [("ss",), var(), par(), ("ss",)],
        [sim, var(), par(), ("ss",)],
        [("ss",), ("clear",), par(), ("ss",)],
        [par(), ("ss",)],
        [var(), ("ss",)],
        [("ss",), ("ss",)],
        [("ss",)],
    ]
    return rng.choice(shapes)


def gen_case2(rng, gen_case) -> tuple[dict, float, bool, list[tuple]]:  # noqa: ANN001
    """a stable network (generator of harness/c15.py, own rng stream) with a user y0 in permuted key order in most
    multi-pool cases, and a history"""
    for _ in range(400):
        net, tol, rel = gen_case(rng)
        if net["has_ss"] and net["kind"] in STABLE and tol > 0:
            break
    if net["d"] >= 2 and rng.random() < 0.75:
        net["user_y0"] = True
        net["y0_default"] = [v * 3 + 1 for v in net["y0"]]
        order = list(range(net["d"]))
        while order == list(range(net["d"])):
            rng.shuffle(order)
        net["y0_order"] = order
    if net["d"] >= 2 and rng.random() < 0.5:
        # variables added to the model in an order that is neither alphabetical nor (in general) that of the y0 keys
        vorder = list(range(net["d"]))
        while vorder == list(range(net["d"])):
            rng.shuffle(vorder)
        net["var_order"] = vorder
    return net, tol, rel, gen_history2(rng, net)


# ---------------------------------------------------------------------------------------
# (a) the real code, with a recorder in the integrator class
# ---------------------------------------------------------------------------------------


class _Timeout(Exception):
    pass


def _alarm(signum, frame):  # noqa: ANN001, ARG001
    raise _Timeout


def _kind(v: Any) -> str:
    if isinstance(v, Exception):
        n = type(v).__name__
        return {"NoSteadyState": "NoSteady", "IntegrationFailure": "IntegFail"}.get(n, "OtherFailure:" + n)
    return "Success"


class ClassSpy:
    """records what integrate / integrate_time_course / integrate_to_steady_state of the integrator CLASS returned,
    one record per outermost call (Scipy.integrate delegates to integrate_time_course)"""

    NAMES = (("integrate", "sim"), ("integrate_time_course", "sim"), ("integrate_to_steady_state", "ss"))

    def __init__(self, cls: type, rec: list) -> None:
        self.cls, self.rec, self.depth, self.orig = cls, rec, 0, {}

    def __enter__(self) -> "ClassSpy":
        import numpy as np

        spy = self

        def wrap(name: str, kind: str):  # noqa: ANN202
            orig = self.cls.__dict__[name]
            self.orig[name] = orig

            def call(integ, **kw):  # noqa: ANN001, ANN003, ANN202
                if spy.depth > 0:
                    return orig(integ, **kw)
                spy.depth += 1
                try:
                    r = orig(integ, **kw)
                finally:
                    spy.depth -= 1
                v = r.value
                if isinstance(v, Exception):
                    spy.rec.append({"op": kind, "fail": _kind(v)})
                else:  # copy NOW: _handle_simulation_results shifts `time` in place
                    spy.rec.append({"op": kind, "time": np.array(v.time, dtype=float).tolist(),
                                    "values": np.array(v.values, dtype=float).tolist()})
                return r

            setattr(self.cls, name, call)

        for name, kind in self.NAMES:
            wrap(name, kind)
        return self

    def __exit__(self, *exc: object) -> None:
        for name, orig in self.orig.items():
            setattr(self.cls, name, orig)


def run_history2(net: dict, hist: list[tuple], tol: float, rel: bool) -> dict:
    """-> {"ops": one record per operation, "final": kind, "frames": [{"cols": [...], "rows": [(t, [values in column
    order])]}], "last": {"t":, "y": by MODEL variable name order via the public get_variables(), "fluxes":}, "bases": state
    read (by name) from the stored results right before every update_variables, "raised":}"""
    import numpy as np

    from harness import c15
    from mxlpy import Simulator

    signal.signal(signal.SIGALRM, _alarm)
    signal.setitimer(signal.ITIMER_REAL, 180.0)
    out: dict[str, Any] = {"ops": [], "raised": None, "bases": []}
    try:
        m = c15.build_model(net)
        sim = Simulator(m, y0=user_y0(net))
        rec: list = []
        names = [f"x{i}" for i in range(net["d"])]
        with ClassSpy(type(sim.integrator), rec), np.errstate(all="ignore"):
            for op in hist:
                before = len(rec)
                if op[0] == "sim":
                    sim.simulate(t_end=op[1], steps=op[2])
                elif op[0] == "ss":
                    sim.simulate_to_steady_state(tolerance=tol, rel_norm=rel)
                elif op[0] == "par":
                    sim.update_parameter(f"p{op[1]}", float(op[2]))
                    out["ops"].append({"op": "par"})
                    continue
                elif op[0] == "var":
                    base = None
                    if sim.variables is not None:
                        row = sim.variables[-1].iloc[-1]
                        base = {"t": float(row.name), "y": [float(row[nm]) for nm in names]}
                    out["bases"].append(base)
                    sim.update_variables({f"x{i}": float(v) for i, v in op[1].items()})
                    out["ops"].append({"op": "var"})
                    continue
                elif op[0] == "clear":
                    sim.clear_results()
                    out["ops"].append({"op": "clear"})
                    continue
                else:
                    raise ValueError(op)
                if len(rec) == before:  # returned before calling the integrator (an error was recorded before)
                    out["ops"].append({"op": "sim" if op[0] == "sim" else "ss", "skipped": True})
                else:
                    out["ops"].append(rec[-1])
            res = sim.get_result()
            v = res.value
            out["final"] = _kind(v)
            if out["final"] == "Success":
                out["frames"] = [{"cols": [str(c) for c in fr.columns],
                                  "rows": [(float(t), [float(x) for x in vals])
                                           for t, vals in zip(fr.index.tolist(), fr.to_numpy(dtype=float).tolist())]}
                                 for fr in v.raw_variables]
                # what a caller reads: the last row of the public views
                state = v.get_variables(include_derived_variables=False, include_readouts=False,
                                        include_surrogate_variables=False).iloc[-1]
                fl = v.fluxes.iloc[-1]
                out["last"] = {"t": float(state.name), "y": [float(state[nm]) for nm in names],
                               "fluxes": [float(fl[f"r{r}"]) for r in range(len(net["reactions"]))]}
    except _Timeout:
        out["raised"] = "Timeout"
    except Exception as e:  # noqa: BLE001
        out["raised"] = type(e).__name__ + ": " + str(e)[:160]
    finally:
        signal.setitimer(signal.ITIMER_REAL, 0)
    return out


# ---------------------------------------------------------------------------------------
# (b) oracle
# ---------------------------------------------------------------------------------------


def situation_of_last_search(net: dict, hist: list[tuple], h: dict) -> tuple[dict, float]:
    """The network as parameterised when the LAST search ran, with the state that search started from as its y0, and
    the time shift in force (all tracked here from the operations, independently of the Simulator's bookkeeping; the
    state stored before an update_variables is read from the run)."""
    from harness import c15_hist

    cur = dict(net)
    start = [float(v) for v in net["y0"]]
    shift: float | None = None
    bases = iter(h["bases"])
    for op in hist:
        if op[0] == "par":
            cur = c15_hist.net_with(cur, op[1], op[2])
        elif op[0] == "var":
            base = next(bases)
            if base is not None:  # results are stored: the override starts from their last row ...
                if shift is None or shift != base["t"]:  # ... unless nothing was simulated since the last override
                    start = list(base["y"])
                shift = base["t"]
            for i, v in op[1].items():
                start[int(i)] = float(v)
        elif op[0] == "clear":
            shift = None
    eff = dict(cur)
    eff["y0"] = start
    return eff, (0.0 if shift is None else shift)


def history2_oracle(net: dict, hist: list[tuple], tol: float, rel: bool, h: dict) -> tuple[str, str] | None:
    """A history that ends with a search: a success must show, in its LAST ROW and by variable NAME, a steady state of
    the network as parameterised then (distance bound of the single-search oracle, balancing reported fluxes)."""
    from harness import c15

    desc = (f"history {hist} on ONE Simulator, network {net['kind']} {net['reactions']} y0={user_y0(net) or net['y0']} "
            f"(user-supplied: {net['user_y0']}) tol={tol} rel_norm={rel}")
    if h["raised"]:
        return "violation", f"{desc} raised {h['raised']}"
    if h["final"] != "Success" or hist[-1][0] != "ss":
        return None  # a failure value is never a state presented as steady
    eff, shift = situation_of_last_search(net, hist, h)
    last = h["last"]
    # the PROPERTY is about the state and the fluxes; the time stamp only sets the scale of the integration error the
    # oracle allows for (time stamps themselves are property C04's business)
    t_rel = last["t"] - shift
    out = {"kind": "Steady", "t": t_rel if t_rel > 0 else (last["t"] if last["t"] > 0 else 100.0), "y": last["y"], "fluxes": last["fluxes"]}
    v = c15.oracle(eff, tol, rel, out, {})
    if v is None or v[0].startswith("undecided:"):
        return None
    return v[0], (f"{desc}: last row of get_result (t={last['t']}): {v[1]}; parameters at the last search: "
                  f"{[rx[-1] for rx in eff['reactions']]}, search started from {eff['y0']}")


# ---------------------------------------------------------------------------------------
# (c) Coq case
# ---------------------------------------------------------------------------------------

_ERR = {"NoSteady": "ENoSteadyState", "IntegFail": "EIntegrationFailure"}


def _cvec(v) -> str:  # noqa: ANN001
    return clist(cq(common.to_fraction(x)) for x in v)


def _finite(rows) -> bool:  # noqa: ANN001
    import math

    return all(math.isfinite(t) and all(math.isfinite(x) for x in vals) for t, vals in rows)


def history2_coq_case(idx: int, net: dict, h: dict) -> str | None:
    """`(names, y0 keys, ops, expected labelled get_result)`; None when something lies outside the model (non-finite
    values, other exception types, a raising call)."""
    if h["raised"]:
        return None
    ops = []
    for r in h["ops"]:
        if r["op"] == "par":
            ops.append("O2UpdateParameters")
        elif r["op"] == "var":
            ops.append("O2UpdateVariables")
        elif r["op"] == "clear":
            ops.append("O2Clear")
        elif r.get("skipped"):
            ops.append("O2Simulate (TCFail EOther)" if r["op"] == "sim" else "O2Steady SSNoSteady")
        elif "fail" in r:
            if r["fail"] not in _ERR:
                return None
            if r["op"] == "sim":
                ops.append(f"O2Simulate (TCFail {_ERR[r['fail']]})")
            else:
                ops.append("O2Steady SSNoSteady" if r["fail"] == "NoSteady" else "O2Steady SSIntegFail")
        else:
            rows = list(zip(r["time"], r["values"]))
            if not _finite(rows):
                return None
            if r["op"] == "sim":
                ops.append("O2Simulate (TCRows " + clist("(" + cq(common.to_fraction(t)) + ", " + _cvec(v) + ")" for t, v in rows) + ")")
            else:
                if len(rows) != 1:
                    return None
                ops.append(f"O2Steady (SSSteady {cq(common.to_fraction(rows[0][0]))} {_cvec(rows[0][1])})")
    names = clist(f"{i}%N" for i in var_order(net))
    keys = clist(f"{i}%N" for i in (y0_order(net) if net["user_y0"] else var_order(net)))
    if h["final"] == "Success":
        frames = []
        for fr in h["frames"]:
            try:
                cols = [int(c[1:]) for c in fr["cols"]]
            except ValueError:
                return None
            if not _finite(fr["rows"]):
                return None
            frames += [(t, list(zip(cols, vals))) for t, vals in fr["rows"]]
        exp = "NSimulation " + clist(
            "(" + cq(common.to_fraction(t)) + ", " + clist(f"({c}%N, {cq(common.to_fraction(x))})" for c, x in row) + ")"
            for t, row in frames)
    elif h["final"] in _ERR:
        exp = f"NError {_ERR[h['final']]}"
    else:
        return None
    return f"Definition h2case_{idx} : h2case := ({names}, {keys}, {clist(ops)}, {exp}).\n"


def history2_corr_file(defs: list[str]) -> str:
    n = len(defs)
    return (
        "From Coq Require Import QArith ZArith NArith List.\nImport ListNotations.\nFrom MxlBase Require Import ListX.\n"
        "From Steady Require Import SteadyLoop SteadyHist2 GenSteadyFacts.\n"
        "Definition h2case := (list N * list N * list op2 * named_result)%type.\n"
        + "".join(defs)
        + "Definition cases : list h2case := " + clist(f"h2case_{i}" for i in range(n)) + ".\n"
        "Definition agrees (c : h2case) : bool :=\n"
        "  match c with (names, keys, ops, o) => named_eqb (hist2_named gen_hist_facts names keys ops) o end.\n"
        "Definition mismatches := filter_idx (fun c => negb (agrees c)) cases.\n"
        "Eval vm_compute in mismatches.\n"
    )
