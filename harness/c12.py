"""C12 -- symbolic equations and Jacobian agree with the numeric model.

Tie to the source:
  (1) facts regenerated (fail-closed ast matcher) from
        src/mxlpy/symbolic/symbolic_model.py :: to_symbolic_model, SymbolicModel.jacobian
        src/mxlpy/simulator.py :: Simulator._initialise_integrator
      into coq/symbolic/GenSymFacts.v (order in which derived values enter the symbol table, the
      symbol table, the static/dynamic assembly statements, the order of eqs, the Jacobian layout,
      the lambdify argument tuple, what the closure passes as parameters, the fallback handler);
      PropsC12.v pins them (C12_facts_pinned);
  (2) correspondence: the Gallina model (coq/symbolic/SymModel.v + FnTab.v) is evaluated inside Coq
      (vm_compute) on the same inputs the real to_symbolic_model / Simulator ran on -- the values
      of the lambdified equations and Jacobian at integer points, the value (or error) of the
      simulator's Jacobian closure, the error kind of a refused conversion, and the numeric
      right-hand side -- compared exactly;
  (3) an independent oracle (harness/c12_oracle.py: exact dual numbers pushed through the real
      Model.__call__) decides the PROPERTY on the implementation: equations == numeric rhs,
      Jacobian == derivative of the numeric rhs, closure == that derivative (also after a parameter
      update), convertible models convert in every declaration order, unconvertible ones raise /
      fall back, and Jacobian-enabled simulations (LSODA/BDF/Radau) reproduce the plain ones.
      Models WITH surrogates (MockSurrogate / surrogates.qss.Surrogate) are generated too: whenever the
      right-hand side depends on a surrogate the conversion has to raise, the simulator has to fall back
      WITH a warning and simulate like the Jacobian-free one; a conversion that returns equations over a
      surrogate output is evaluated with the output bound to the model's own number and compared with the
      exact right-hand side / derivative (Coq: C12_surrogate_output_refused, regression theorem
      C12_surrogate_merged_table_refuted for the merged symbol table).
      Third pass: a SECOND simulator per model gets y0 = the initial conditions as a mapping in another key order
      (its Jacobian function must be d rhs/dx in variable order; Coq: init_jac_y0, C12_closure_ignores_y0_key_order,
      regression C12_y0_key_order_refuted), and models with rate laws that BRANCH ON THE SIGN of a variable /
      parameter are observed at negative states (oracle only; Coq: SignFold.v, C12_sign_branches_survive_translation,
      regression C12_nonnegative_symbols_refuted for Symbol(name, nonnegative=True)).
      Closing pass (seeded change C12-9): models whose stoichiometric coefficients are of UNIT-CONVERSION size (3e-7, 2e-9,
      a volume ratio computed from two parameters ...) next to coefficients of order 1: every equation and Jacobian entry is
      compared with the exact value at the scale of the evaluated expression (judge_tiny, c12_oracle.absval; oracle only),
      a `conversion` simulation family (tiny coefficients times rate constants of order 1e6), the static statement's
      coefficient is a regenerated fact (Float(n) | Rational(n).limit_denominator(); Coq: SymModel.limit_den / stat_view,
      C12_rational_coefficients_partial / _refuted) and SymModel.limit_den is compared with CPython's
      Fraction.limit_denominator on every run (shard c12_limden).
"""

from __future__ import annotations

import ast
import json
import signal
from fractions import Fraction
from functools import partial
from typing import Any

from harness import c12_gen, c12_oracle, common
from harness.common import Run, clist, cn, cq

AREA = "symbolic"
PROPS = "PropsC12.v"
BIG = 2**20


# ---------------------------------------------------------------------------------------
# (1) fact extraction (fail-closed)
# ---------------------------------------------------------------------------------------

_PRE = [
    "cache = model._create_cache()",
    "initial_conditions = model.get_initial_conditions()",
    "variables: dict[str, sympy.Symbol] = dict(zip(initial_conditions, cast(list[sympy.Symbol], list_of_symbols(initial_conditions)), strict=True))",
    "parameters: dict[str, sympy.Symbol] = dict(zip(model.get_parameter_values(), cast(list[sympy.Symbol], list_of_symbols(model.get_parameter_values())), strict=True))",
    "data = dict(zip(model._data, cast(list[sympy.Symbol], list_of_symbols(model._data)), strict=True))",
    "_surr = model.get_surrogate_output_names(include_fluxes=True)",
    "surrogates: dict[str, sympy.Symbol] = dict(zip(_surr, cast(list[sympy.Symbol], list_of_symbols(_surr)), strict=True))",
    "symbols: dict[str, sympy.Symbol | sympy.Expr] = variables | parameters | data",
]
# the statement creating the symbols of the model variables (index 2 of _PRE), the seeded shape C12-4, and the helper
_VARS_AT = 2
_VARS_NONNEG = "variables: dict[str, sympy.Symbol] = {name: sympy.Symbol(name, nonnegative=True) for name in initial_conditions}"
_LIST_OF_SYMBOLS = ["return [sympy.Symbol(arg) for arg in args]"]
_SYMTAB_MERGED = "symbols: dict[str, sympy.Symbol | sympy.Expr] = variables | parameters | data | surrogates"
_CONV_IF = (
    "if (expr := fn_to_sympy(v.fn, origin=k, model_args=[symbols[i] for i in v.args])) is None:\n"
    "    msg = f\"Unable to parse {what} '{{k}}'\"\n"
    "    raise ValueError(msg)"
)


def _indent(s: str) -> str:
    return "\n".join("    " + line for line in s.splitlines())


_DER_DECL = ["for k, v in model.get_raw_derived().items():\n" + _indent(_CONV_IF.format(what="derived value") + "\nsymbols[k] = expr")]
_DER_DEP = [
    "derived = model.get_raw_derived()",
    "for k in (name for name in cache.order if name in derived):\n"
    + _indent("v = derived[k]\n" + _CONV_IF.format(what="derived value") + "\nsymbols[k] = expr"),
]
_RXN = [
    "rxns: dict[str, sympy.Expr] = {}",
    "for k, v in model.get_raw_reactions().items():\n" + _indent(_CONV_IF.format(what="reaction") + "\nrxns[k] = expr"),
]
_STAT = [
    "eqs: dict[str, sympy.Expr] = {}",
    "for cpd, stoich in cache.stoich_by_cpds.items():\n"
    "    for rxn, stoich_value in stoich.items():\n"
    "        eqs[cpd] = eqs.get(cpd, sympy.Float(0.0)) + sympy.Float(stoich_value) * rxns[rxn]",
]
# seeded change C12-9 (a regression: Coq theorem C12_rational_coefficients_refuted): the coefficient is the nearest
# fraction with a denominator <= 10**6
_STAT_RAT = [
    "eqs: dict[str, sympy.Expr] = {}",
    "for cpd, stoich in cache.stoich_by_cpds.items():\n"
    "    for rxn, stoich_value in stoich.items():\n"
    "        coef = sympy.Rational(stoich_value).limit_denominator()\n"
    "        eqs[cpd] = eqs.get(cpd, sympy.Integer(0)) + coef * rxns[rxn]",
]
_DYN = [
    "for cpd, dstoich in cache.dyn_stoich_by_cpds.items():\n"
    "    for rxn, der in dstoich.items():\n"
    "        eqs[cpd] = eqs.get(cpd, sympy.Float(0.0)) + fn_to_sympy(der.fn, [symbols[i] for i in der.args] * rxns[rxn])",
]
_DYN_FIXED = [
    "for cpd, dstoich in cache.dyn_stoich_by_cpds.items():\n"
    "    for rxn, der in dstoich.items():\n"
    "        if (coef := fn_to_sympy(der.fn, origin=rxn, model_args=[symbols[i] for i in der.args])) is None:\n"
    "            msg = f\"Unable to parse stoichiometry of '{cpd}' in reaction '{rxn}'\"\n"
    "            raise ValueError(msg)\n"
    "        eqs[cpd] = eqs.get(cpd, sympy.Float(0.0)) + coef * rxns[rxn]",
]
_RET = [
    "return SymbolicModel(variables=variables, parameters=parameters, eqs=[eqs[i] for i in cache.var_names], "
    "initial_conditions=model.get_initial_conditions(), parameter_values=model.get_parameter_values(), external=data | surrogates)"
]
_JAC = ["return sympy.Matrix(self.eqs).jacobian(sympy.Matrix(list(self.variables.values())))"]

_LAM_OLD = "_jac_fn = lambdify(('time', self.model.get_variable_names(), self.model.get_parameter_names()), _jac)"
_LAM_NEW = "_jac_fn = lambdify(('time', self.model.get_variable_names(), _par_names), _jac)"
_LAM_Y0 = "_jac_fn = lambdify(('time', list(y0), _par_names), _jac)"
_PAR_NAMES = "_par_names = self.model.get_parameter_names()"
_PAR_VALUES_DEF = (
    "def _par_values() -> list[float]:\n"
    "    if (cache := self.model._cache) is None:\n"
    "        cache = self.model._create_cache()\n"
    "    return [cache.all_parameter_values[k] for k in _par_names]"
)
_JAC_LINE = "_jac = to_symbolic_model(self.model).jacobian()"
_HANDLER = "_LOGGER.warning(str(e), stacklevel=2)"
_SHIFT_HEAD = [
    "t_shift = 0.0 if self._time_shift is None else self._time_shift",
    "rhs: Rhs = self.model if self._time_shift is None else lambda t, y: self.model(t + t_shift, y)",
]
_TAIL_SHIFT = [
    "y0 = self.y0",
    "self.integrator = self._integrator_type(rhs, tuple((y0[k] for k in self.model.get_variable_names())), jac_fn)",
]
_TAIL = [
    "y0 = self.y0",
    "self.integrator = self._integrator_type(self.model, tuple((y0[k] for k in self.model.get_variable_names())), jac_fn)",
]


def _body(fn: ast.FunctionDef) -> list[str]:
    stmts = [s for s in fn.body if not (isinstance(s, ast.Expr) and isinstance(s.value, ast.Constant))]
    return [ast.unparse(s) for s in stmts]


def _find_fn(tree: ast.AST, name: str, cls: str | None = None) -> ast.FunctionDef | None:
    scope: Any = tree
    if cls is not None:
        scope = next((n for n in tree.body if isinstance(n, ast.ClassDef) and n.name == cls), None)  # type: ignore[attr-defined]
        if scope is None:
            return None
    return next((n for n in scope.body if isinstance(n, ast.FunctionDef) and n.name == name), None)


def _list_of_symbols_plain() -> bool:
    try:
        tree = ast.parse((common.REPO / "src/mxlpy/meta/sympy_tools.py").read_text())
    except (OSError, SyntaxError):
        return False
    fn = _find_fn(tree, "list_of_symbols")
    return fn is not None and _body(fn) == _LIST_OF_SYMBOLS and [a.arg for a in fn.args.args] == ["args"]


def extract_facts() -> dict[str, str]:
    facts = {
        "varsym": "VarSymUnknown",
        "order": "OrdUnknown", "symtab": "SymUnknown", "stat": "StatUnknown", "dyn": "DynUnknown", "eqs": "EqsUnknown",
        "jac": "JacUnknown", "lam": "LamUnknown", "third": "ThirdUnknown", "fallback": "FallbackUnknown", "time": "TimeUnknown",
    }
    try:
        tree = ast.parse((common.REPO / "src/mxlpy/symbolic/symbolic_model.py").read_text())
    except (OSError, SyntaxError):
        tree = None
    if tree is not None:
        fn = _find_fn(tree, "to_symbolic_model")
        if fn is not None:
            b = _body(fn)
            for der, tag in ((_DER_DECL, "OrdDeclaration"), (_DER_DEP, "OrdDependency")):
                expected = _PRE + der + _RXN + _STAT + _DYN + _RET
                if len(b) != len(expected):
                    continue
                off = len(_PRE)
                # how the variables' symbols are created: plain Symbol(name) through list_of_symbols, or
                # Symbol(name, nonnegative=True) (a regression: Coq theorem C12_nonnegative_symbols_refuted)
                pre = list(b[:off])
                if pre[_VARS_AT] == _PRE[_VARS_AT]:
                    if _list_of_symbols_plain():
                        facts["varsym"] = "VarSymPlain"
                elif pre[_VARS_AT] == _VARS_NONNEG:
                    facts["varsym"] = "VarSymNonneg"
                    pre[_VARS_AT] = _PRE[_VARS_AT]
                if pre == _PRE:
                    facts["symtab"] = "SymVarsParsData"
                elif pre == _PRE[:-1] + [_SYMTAB_MERGED]:
                    # the surrogate output symbols merged into the translation table (a regression: Coq
                    # theorem C12_surrogate_merged_table_refuted)
                    facts["symtab"] = "SymVarsParsDataSurr"
                if b[off : off + len(der)] == der:
                    facts["order"] = tag
                off += len(der)
                if b[off : off + len(_RXN) + len(_STAT)] == _RXN + _STAT:
                    facts["stat"] = "StatFloatTimesRate"
                elif b[off : off + len(_RXN) + len(_STAT_RAT)] == _RXN + _STAT_RAT:
                    facts["stat"] = "StatRationalLimited"
                off += len(_RXN) + len(_STAT)
                if b[off : off + 1] == _DYN:
                    facts["dyn"] = "DynListTimesRate"
                elif b[off : off + 1] == _DYN_FIXED:
                    facts["dyn"] = "DynCoefTimesRate"
                if b[off + 1 :] == _RET:
                    facts["eqs"] = "EqsByVarNames"
                if facts["order"] != "OrdUnknown":
                    break
        jf = _find_fn(tree, "jacobian", "SymbolicModel")
        if jf is not None and _body(jf) == _JAC:
            facts["jac"] = "JacEqsByVars"
    try:
        tree2 = ast.parse((common.REPO / "src/mxlpy/simulator.py").read_text())
    except (OSError, SyntaxError):
        tree2 = None
    if tree2 is not None:
        fn = _find_fn(tree2, "_initialise_integrator", "Simulator")
        if fn is not None:
            stmts = [s for s in fn.body if not (isinstance(s, ast.Expr) and isinstance(s.value, ast.Constant))]
            tail, time_args, time_fact = _TAIL, ["t", "x"], "TimePlain"
            if [ast.unparse(s) for s in stmts[:2]] == _SHIFT_HEAD:
                stmts = stmts[2:]
                tail, time_args, time_fact = _TAIL_SHIFT, ["t + t_shift", "x"], "TimeShifted"
            # `y0 = self.y0` hoisted in front of the Jacobian block (harmless by itself; needed by the shape
            # lambdify(("time", list(y0), ...)) of seeded change C12-5): normalise to the shipped layout
            hoisted = False
            if len(stmts) == 4 and ast.unparse(stmts[0]) == "y0 = self.y0" and ast.unparse(stmts[1]) == "jac_fn = None":
                stmts = [stmts[1], stmts[2], stmts[0], stmts[3]]
                hoisted = True
            if (
                len(stmts) == 4
                and ast.unparse(stmts[0]) == "jac_fn = None"
                and isinstance(stmts[1], ast.If)
                and ast.unparse(stmts[1].test) == "self.use_jacobian"
                and not stmts[1].orelse
                and len(stmts[1].body) == 1
                and isinstance(stmts[1].body[0], ast.Try)
                and [ast.unparse(s) for s in stmts[2:]] == tail
            ):
                tr = stmts[1].body[0]
                if (
                    len(tr.handlers) == 1
                    and tr.handlers[0].type is not None
                    and ast.unparse(tr.handlers[0].type) == "Exception"
                    and [ast.unparse(s) for s in tr.handlers[0].body] == [_HANDLER]
                    and not tr.orelse
                    and not tr.finalbody
                ):
                    facts["fallback"] = "FallbackWarnAnyException"
                tb = [ast.unparse(s) for s in tr.body]
                lam = next((s for s in tr.body if isinstance(s, ast.Assign) and ast.unparse(s.targets[0]) == "jac_fn"), None)
                third = None
                if lam is not None and isinstance(lam.value, ast.Lambda):
                    la = lam.value
                    if (
                        [a.arg for a in la.args.args] == ["t", "x"]
                        and isinstance(la.body, ast.Call)
                        and ast.unparse(la.body.func) == "_jac_fn"
                        and not la.body.keywords
                        and len(la.body.args) == 3
                        and [ast.unparse(a) for a in la.body.args[:2]] == time_args
                    ):
                        third = ast.unparse(la.body.args[2])
                        facts["time"] = time_fact
                if tb[:1] == [_JAC_LINE] and len(tb) == 3 and tb[1] == _LAM_OLD:
                    facts["lam"] = "LamTimeVarsPars"
                    if third == "self.model._parameters.values()":
                        facts["third"] = "ThirdParamRecords"
                    elif third in ("self.model.get_parameter_values().values()", "list(self.model.get_parameter_values().values())"):
                        facts["third"] = "ThirdBaseValues"
                elif tb[:1] == [_JAC_LINE] and len(tb) == 5 and tb[1] == _PAR_NAMES and (tb[2] == _LAM_NEW or (hoisted and tb[2] == _LAM_Y0)):
                    # state names = the model's variable names | the keys of the y0 mapping (a regression: Coq
                    # theorem C12_y0_key_order_refuted)
                    facts["lam"] = "LamTimeVarsPars" if tb[2] == _LAM_NEW else "LamTimeY0KeysPars"
                    if tb[3] == _PAR_VALUES_DEF and third == "_par_values()":
                        facts["third"] = "ThirdNumericByName"
    return facts


def gen() -> dict[str, str]:
    f = extract_facts()
    text = (
        "(* REGENERATED from src/mxlpy/symbolic/symbolic_model.py (to_symbolic_model, SymbolicModel.jacobian),\n"
        "   src/mxlpy/meta/sympy_tools.py (list_of_symbols) and\n"
        "   src/mxlpy/simulator.py (Simulator._initialise_integrator) by harness/c12.py; do not edit.\n"
        "   An unrecognised shape yields a *Unknown constructor, which breaks C12_facts_pinned. *)\n"
        "From Symbolic Require Import SymModel.\n"
        "Definition gen_sym_facts : sym_facts :=\n"
        f"  mkSymFacts {f['order']} {f['symtab']} {f['stat']} {f['dyn']} {f['eqs']} {f['jac']} {f['lam']} {f['third']} {f['fallback']} {f['time']} {f['varsym']}.\n"
    )
    common.write_if_changed(common.area_dir(AREA) / "GenSymFacts.v", text)
    return f


# ---------------------------------------------------------------------------------------
# implementation driver
# ---------------------------------------------------------------------------------------


class _Timeout(Exception):
    pass


def _alarm(signum, frame):  # noqa: ANN001, ARG001
    raise _Timeout


def _kind(e: BaseException) -> str:
    return common.classify_exception(e)


def desc_to_json(d: dict) -> dict:
    def conv(x):
        if isinstance(x, Fraction):
            return {"q": [x.numerator, x.denominator]}
        if isinstance(x, (list, tuple)):
            return [conv(y) for y in x]
        if isinstance(x, dict):
            return {k: conv(v) for k, v in x.items()}
        return x

    return conv(d)


def desc_from_json(d: Any) -> Any:
    if isinstance(d, dict) and set(d) == {"q"}:
        return Fraction(d["q"][0], d["q"][1])
    if isinstance(d, dict):
        return {k: desc_from_json(v) for k, v in d.items()}
    if isinstance(d, list):
        return [desc_from_json(x) for x in d]
    return d


class _WarningCapture:
    """Collect the records the implementation's loggers emit (harness.main disables logging globally;
    the fallback WARNING is part of the property: 'falls back with a warning')."""

    def __enter__(self):
        import logging

        self.records: list[str] = []
        cap = self

        class H(logging.Handler):
            def emit(self, record):  # noqa: ANN001
                if record.levelno >= logging.WARNING:
                    cap.records.append(record.getMessage())

        self._h = H()
        self._lg = logging.getLogger("mxlpy")
        self._old = (logging.root.manager.disable, self._lg.propagate, self._lg.level)
        logging.disable(logging.NOTSET)
        self._lg.propagate = False
        self._lg.addHandler(self._h)
        return self

    def __exit__(self, *exc):
        import logging

        self._lg.removeHandler(self._h)
        self._lg.propagate = self._old[1]
        logging.disable(self._old[0])
        return False


def _num_matrix(mat) -> list[list[float]] | None:
    """entries as floats, or None if an entry is not a number (a SymPy expression left by lambdify)."""
    import numbers

    rows = []
    for row in mat.tolist():
        out = []
        for v in row:
            if not isinstance(v, numbers.Real):
                try:
                    if getattr(v, "free_symbols", None):
                        return None
                except Exception:  # noqa: BLE001
                    return None
            out.append(float(v))
        rows.append(out)
    return rows


def _closure_obs(jf, t: int, xf: list[float]) -> tuple:
    """classify one call of the simulator's Jacobian function"""
    if jf is None:
        return ("nojac",)
    try:
        rows = _num_matrix(jf(float(t), xf))
        return ("mat", rows) if rows is not None else ("symbolic", str(jf(float(t), xf).tolist())[:160])
    except _Timeout:
        raise
    except Exception as e:  # noqa: BLE001
        return ("err", _kind(e), str(e)[:160])


def observe(desc: dict, t: int, x: list[int], p2: dict[int, int] | None, y0perm: list[int] | None = None) -> dict:
    """Run the implementation on one model at one point.  Never raises for modelled outcomes.
    y0perm: additionally construct a Simulator whose initial state is handed over as a dict with its keys in
    this order (a permutation of the variable indices; the VALUES are the model's own initial conditions)."""
    import sympy
    from mxlpy import Simulator
    from mxlpy.integrators import Scipy
    from mxlpy.symbolic import to_symbolic_model

    out: dict[str, Any] = {"t": t, "x": x}
    m = c12_gen.build(desc)
    out["model"] = m
    out["inputs"] = c12_gen.read_inputs(m)
    names = [c12_gen.nm(v) for v in out["inputs"]["vars"]]
    xf = [float(v) for v in x]

    def sym_at(sm, pv, ext=None):
        vs = list(sm.variables.values())
        ps = list(sm.parameters.values())
        es = [sm.external[k] for k in (ext or {})]
        f_eqs = sympy.lambdify([vs, ps, es], sm.eqs, cse=False)
        f_jac = sympy.lambdify([vs, ps, es], sm.jacobian(), cse=False)
        vals = [pv[k] for k in sm.parameters]
        evals = [float(v) for v in (ext or {}).values()]
        ev = [float(v) for v in f_eqs(xf, vals, evals)]
        jv = [[float(v) for v in row] for row in f_jac(xf, vals, evals).tolist()]
        return ev, jv

    try:
        sm = to_symbolic_model(m)
        out["sm"] = sm
        known_syms = set(sm.variables.values()) | set(sm.parameters.values()) | set(sm.external.values())
        stray = sorted({str(x) for e in sm.eqs for x in sympy.sympify(e).free_symbols if x not in known_syms})
        if list(sm.variables) != names or len(sm.eqs) != len(names):
            out["sym"] = ("err", "ErrOther:shape")
        elif stray:
            # returned equations mention symbols that are neither variables nor parameters of the
            # symbolic model: they cannot be evaluated at "a state and parameter setting"
            out["sym"] = ("stray", stray, [str(e) for e in sm.eqs])
        elif ext_used := sorted({str(x) for e in sm.eqs for x in sympy.sympify(e).free_symbols if x in set(sm.external.values())}):
            # the equations mention EXTERNAL symbols (surrogate outputs / data): free constants to the
            # symbolic model.  Evaluate them with every such symbol bound to the number the numeric
            # model computes for it at this point -- the oracle then compares values and Jacobian
            try:
                num = m.get_args(dict(zip(names, xf, strict=True)), time=float(t))
                ev, jv = sym_at(sm, m.get_parameter_values(), {k: float(num[k]) for k in ext_used})
                out["sym"] = ("external", ext_used, [str(e) for e in sm.eqs], ev, jv, {k: float(num[k]) for k in ext_used})
            except _Timeout:
                raise
            except Exception as e:  # noqa: BLE001
                out["sym"] = ("external", ext_used, [str(e_) for e_ in sm.eqs], None, None, {})
        else:
            ev, jv = sym_at(sm, m.get_parameter_values())
            out["sym"] = ("ok", ev, jv)
            if c12_gen.is_tiny(desc):
                # coefficients spanning many orders of magnitude: the magnitude of every evaluated expression (sum of
                # the absolute values of what is added up) is the scale its value is compared at (judge_tiny)
                try:
                    pv = m.get_parameter_values()
                    env = {sm.variables[n]: v for n, v in zip(names, xf, strict=True)} | {sm.parameters[k]: float(pv[k]) for k in sm.parameters}
                    jm = sm.jacobian()
                    out["mag"] = (
                        [c12_oracle.absval(e, env) for e in sm.eqs],
                        [[c12_oracle.absval(jm[i, j], env) for j in range(len(names))] for i in range(len(names))],
                    )
                except _Timeout:
                    raise
                except Exception as e:  # noqa: BLE001
                    out["mag_err"] = f"{type(e).__name__}: {str(e)[:100]}"
    except _Timeout:
        raise
    except Exception as e:  # noqa: BLE001
        out["sym"] = ("err", _kind(e))
    # the simulator's closure
    try:
        with _WarningCapture() as cap:
            sim = Simulator(m, integrator=partial(Scipy, method="BDF"), use_jacobian=True)
        out["warnings"] = list(cap.records)
        if getattr(sim, "_time_shift", None) is not None:
            raise c12_gen.InputAssumptionBroken("a freshly constructed Simulator has a time shift")
        jf = sim.integrator.jacobian
        out["sim"] = sim
        if jf is None:
            out["clo"] = ("nojac",)
        else:
            try:
                rows = _num_matrix(jf(float(t), xf))
                out["clo"] = ("mat", rows) if rows is not None else ("symbolic", str(jf(float(t), xf).tolist())[:160])
            except _Timeout:
                raise
            except Exception as e:  # noqa: BLE001
                out["clo"] = ("err", _kind(e), str(e)[:160])
    except _Timeout:
        raise
    except Exception as e:  # noqa: BLE001
        out["clo"] = ("ctor", _kind(e), str(e)[:160])
    # ... and of a simulator that got the initial state as a mapping in another key order: the state VECTOR the
    # integrator works on (and the Jacobian function receives) is in model variable order whatever the keys' order
    if y0perm is not None:
        try:
            ic = m.get_initial_conditions()
            y0 = {names[i]: float(ic[names[i]]) for i in y0perm}
            out["y0keys"] = [out["inputs"]["vars"][i] for i in y0perm]
            sim2 = Simulator(m, y0=y0, integrator=partial(Scipy, method="BDF"), use_jacobian=True)
            out["clo_y0"] = _closure_obs(sim2.integrator.jacobian, t, xf)
        except _Timeout:
            raise
        except Exception as e:  # noqa: BLE001
            out["clo_y0"] = ("ctor", _kind(e), str(e)[:160])
    # numeric side
    args = m.get_args(dict(zip(names, xf, strict=True)), time=float(t))
    out["rates"] = [(c12_gen.un(k), float(v)) for k, v in args.items()]
    out["rhs"] = [float(v) for v in m(float(t), xf)]
    k0 = c12_oracle.KINKS[0]
    out["exact_rhs"] = c12_oracle.exact_rhs(m, t, x)
    out["exact_jac"] = c12_oracle.exact_jacobian(m, t, x)
    # a sign test on a value that is exactly zero: the right-hand side has a kink there, no derivative to compare with
    out["kink"] = c12_oracle.KINKS[0] != k0
    # after a parameter update through the simulator (no re-conversion): closure + old equations
    if p2 and "sim" in out:
        sim = out["sim"]
        sim.update_parameters({c12_gen.nm(k): float(v) for k, v in p2.items()})
        k0 = c12_oracle.KINKS[0]
        upd: dict[str, Any] = {"exact_rhs": c12_oracle.exact_rhs(m, t, x), "exact_jac": c12_oracle.exact_jacobian(m, t, x)}
        upd["kink"] = c12_oracle.KINKS[0] != k0
        upd["inputs"] = c12_gen.read_inputs(m)
        jf = sim.integrator.jacobian
        if jf is None:
            upd["clo"] = ("nojac",)
        else:
            try:
                rows = _num_matrix(jf(float(t), xf))
                upd["clo"] = ("mat", rows) if rows is not None else ("symbolic", str(jf(float(t), xf).tolist())[:160])
            except _Timeout:
                raise
            except Exception as e:  # noqa: BLE001
                upd["clo"] = ("err", _kind(e), str(e)[:160])
        if out["sym"][0] == "ok":
            try:
                ev, jv = sym_at(out["sm"], m.get_parameter_values())
                upd["old_sym"] = ("ok", ev, jv)
            except _Timeout:
                raise
            except Exception as e:  # noqa: BLE001
                upd["old_sym"] = ("err", _kind(e))
            try:
                ev, jv = sym_at(to_symbolic_model(m), m.get_parameter_values())
                upd["sym"] = ("ok", ev, jv)
            except _Timeout:
                raise
            except Exception as e:  # noqa: BLE001
                upd["sym"] = ("err", _kind(e))
        else:
            upd["sym"] = out["sym"]
        args = m.get_args(dict(zip(names, xf, strict=True)), time=float(t))
        upd["rates"] = [(c12_gen.un(k), float(v)) for k, v in args.items()]
        upd["rhs"] = [float(v) for v in m(float(t), xf)]
        out["upd"] = upd
    return out


# ---------------------------------------------------------------------------------------
# oracle on one observation (the property itself)
# ---------------------------------------------------------------------------------------


def judge(desc: dict, obs: dict) -> tuple[list[str], list[str]]:
    """-> (violations, known-finding hits).  Independent of the Coq model."""
    bad: list[str] = []
    known: list[str] = []
    conv = c12_gen.expected_convertible(desc)
    frozen_guard = c12_gen.has_static_computed_coefficient(desc)

    def check_sym(sym, ex_rhs, ex_jac, label, *, stale_ok: bool, kink: bool = False) -> None:
        if sym[0] != "ok":
            return
        _, ev, jv = sym
        msgs = []
        if not (len(ev) == len(ex_rhs) and all(c12_oracle.close(a, b) for a, b in zip(ev, ex_rhs))):
            msgs.append(f"{label}: symbolic equations evaluate to {ev} but the numeric right-hand side is {[float(v) for v in ex_rhs]}")
        if not kink and not c12_oracle.mat_close(jv, ex_jac):
            msgs.append(f"{label}: symbolic Jacobian {jv} is not the derivative of the numeric right-hand side {[[float(v) for v in r] for r in ex_jac]}")
        for msg in msgs:
            (known if stale_ok else bad).append(msg)

    def check_clo(clo, ex_jac, sym, label, *, stale_ok: bool, kink: bool = False) -> None:
        if clo[0] == "symbolic":
            bad.append(
                f"{label}: the simulator's Jacobian function returns a matrix with entries that are not numbers ({clo[1]}): "
                "a symbol of the equations is not bound by the lambdified function (every integrator that calls it dies with TypeError)"
            )
        elif clo[0] == "ctor":
            bad.append(f"{label}: Simulator(use_jacobian=True) raised {clo[1]}: {clo[2]} instead of falling back")
        elif clo[0] == "err":
            bad.append(f"{label}: the simulator's Jacobian function raised {clo[1]}: {clo[2]}")
        elif clo[0] == "mat":
            if not kink and not c12_oracle.mat_close(clo[1], ex_jac):
                (known if stale_ok else bad).append(
                    f"{label}: the simulator's Jacobian function returns {clo[1]} but the derivative of the numeric right-hand side is {[[float(v) for v in r] for r in ex_jac]}"
                )

    if obs["sym"][0] == "err" and conv:
        bad.append(f"a convertible model (kind {desc['kind']}) is refused: {obs['sym'][1]}")
    surr_used = c12_gen.uses_surrogate(desc)
    if obs["sym"][0] == "external":
        # equations over external symbols (surrogate outputs / data), evaluated with every external symbol
        # bound to the number the numeric model computes for it at this point
        _, ext, eqs_s, ev, jv, _vals = obs["sym"]
        what = "surrogate output(s)" if set(map(c12_gen.un, ext)) & c12_gen.surrogate_outputs(desc) else "external symbol(s)"
        if ev is None:
            bad.append(f"to_symbolic_model returns equations {eqs_s} over the {what} {ext} that cannot be evaluated")
        else:
            check_sym(("ok", ev, jv), obs["exact_rhs"], obs["exact_jac"],
                      f"to_symbolic_model converts a model that depends on the {what} {ext} and treats them as free constants (equations {eqs_s})", stale_ok=False)
    if surr_used and obs["clo"][0] == "nojac" and not obs.get("warnings"):
        bad.append("Simulator(use_jacobian=True) fell back to running without Jacobian on a model with a surrogate WITHOUT logging a warning")
    if not surr_used and obs["sym"][0] == "err" and obs["clo"][0] == "nojac" and not obs.get("warnings"):
        bad.append("Simulator(use_jacobian=True) fell back to running without Jacobian WITHOUT logging a warning")
    if surr_used and obs["sym"][0] == "ok":
        # (the comparison with the exact right-hand side / derivative below gives the numbers)
        bad.append(f"a model that depends on a surrogate (kind {desc['kind']}) is converted instead of refused")
    if obs["sym"][0] == "stray":
        bad.append(
            f"to_symbolic_model returns equations {obs['sym'][2]} that mention {obs['sym'][1]}, which are neither variables nor "
            "parameters of the model (wrong equations instead of an exception)"
        )
    kink = bool(obs.get("kink"))
    check_sym(obs["sym"], obs["exact_rhs"], obs["exact_jac"], "at the model's parameters", stale_ok=False, kink=kink)
    check_clo(obs["clo"], obs["exact_jac"], obs["sym"], "at the model's parameters", stale_ok=False, kink=kink)
    if obs["sym"][0] == "err" and obs["clo"][0] == "mat":
        bad.append("conversion raises but the simulator uses a Jacobian")
    if "clo_y0" in obs:
        keys = [c12_gen.nm(k) for k in obs["y0keys"]]
        label = f"Simulator(model, y0=<the initial conditions as a dict with keys in the order {keys}>, use_jacobian=True), state {obs['x']} in variable order"
        check_clo(obs["clo_y0"], obs["exact_jac"], obs["sym"], label, stale_ok=False, kink=kink)
        if (obs["clo_y0"][0] == "nojac") != (obs["clo"][0] == "nojac"):
            bad.append(f"{label}: {'no ' if obs['clo_y0'][0] == 'nojac' else ''}Jacobian function, but with y0=None the simulator has {'none' if obs['clo'][0] == 'nojac' else 'one'}")
    if "upd" in obs:
        u = obs["upd"]
        ukink = bool(u.get("kink"))
        if "old_sym" in u:
            check_sym(u["old_sym"], u["exact_rhs"], u["exact_jac"], "equations converted before a parameter update, evaluated at the new parameters", stale_ok=frozen_guard, kink=ukink)
        check_sym(u["sym"], u["exact_rhs"], u["exact_jac"], "after a parameter update (fresh conversion)", stale_ok=False, kink=ukink)
        check_clo(u["clo"], u["exact_jac"], obs["sym"], "after Simulator.update_parameters", stale_ok=frozen_guard, kink=ukink)
    return bad, known


def judge_tiny(desc: dict, obs: dict) -> tuple[list[str], dict]:
    """Models whose coefficients span many orders of magnitude (c12_gen.gen_tiny_desc): every equation, every entry of the
    symbolic Jacobian and of what the simulator's Jacobian function(s) return is compared with the exact right-hand side /
    derivative at the scale of the evaluated expression itself: |value - exact| <= 1e-11 * (sum of the absolute values of
    everything the expression adds up, c12_oracle.absval).  Floating-point evaluation and the 15-digit number literals of
    lambdify stay ~1000 times below that; a term of size 3e-7 that is dropped or replaced by the nearest 1/n is far above.
    -> (violations, {"judged": entries compared, "tiny_terms": number of non-zero exact entries below 1e-5 in magnitude})"""
    bad: list[str] = []
    stats = {"judged": 0, "tiny_terms": 0}
    if obs["sym"][0] != "ok" or "mag" not in obs:
        return bad, stats
    _, ev, jv = obs["sym"]
    mag_e, mag_j = obs["mag"]
    ex_rhs, ex_jac = obs["exact_rhs"], obs["exact_jac"]
    n = len(ex_rhs)
    names = [c12_gen.nm(v) for v in obs["inputs"]["vars"]]
    for i in range(n):
        stats["judged"] += 1
        stats["tiny_terms"] += 0 < abs(ex_rhs[i]) < 1e-5
        if not c12_oracle.within(ev[i], ex_rhs[i], mag_e[i]):
            bad.append(
                f"coefficients of very different size: the symbolic equation of {names[i]} evaluates to {ev[i]!r} at state {obs['x']} but the numeric "
                f"right-hand side is {float(ex_rhs[i])!r} (difference {float(abs(c12_oracle._fr(ev[i]) - ex_rhs[i])):.3g}, magnitude of the equation's terms {mag_e[i]:.3g}; equation {str(obs['sm'].eqs[i])[:160]})"
            )
            break
    mats = [("the symbolic Jacobian", jv)]
    if obs["clo"][0] == "mat":
        mats.append(("the simulator's Jacobian function", obs["clo"][1]))
    if obs.get("clo_y0", ("",))[0] == "mat":
        mats.append(("the Jacobian function of a simulator constructed with a permuted y0 mapping", obs["clo_y0"][1]))
    for what, mat in mats:
        hit = None
        for i in range(n):
            for j in range(n):
                stats["judged"] += 1
                stats["tiny_terms"] += 0 < abs(ex_jac[i][j]) < 1e-5
                if hit is None and not c12_oracle.within(mat[i][j], ex_jac[i][j], mag_j[i][j]):
                    hit = (i, j)
        if hit is not None:
            i, j = hit
            bad.append(
                f"coefficients of very different size: {what} has d({names[i]}')/d({names[j]}) = {mat[i][j]!r} at state {obs['x']} but the derivative of the "
                f"numeric right-hand side is {float(ex_jac[i][j])!r} (magnitude of the entry's terms {mag_j[i][j]:.3g})"
            )
    return bad, stats


# ---------------------------------------------------------------------------------------
# correspondence
# ---------------------------------------------------------------------------------------


def _exact(vals) -> list[Fraction] | None:
    out = []
    for v in vals:
        fr = common.to_fraction(v)
        if abs(fr) >= BIG:
            return None
        out.append(fr)
    return out


def _c_clo(clo) -> str | None:
    if clo[0] == "nojac":
        return "ObsNoJac"
    if clo[0] == "symbolic":
        return "(ObsCloErr ErrName)"  # an unbound name: the entry is not a number (SymModel.eval_py)
    if clo[0] == "mat":
        rows = [_exact(r) for r in clo[1]]
        if any(r is None for r in rows):
            return None
        return f"(ObsCloMat {c12_gen.c_qmat(rows)})"
    return f"(ObsCloErr {c12_gen.c_err(clo[1])})"


def coq_case(inputs: dict, t: int, x: list[int], sym, clo, rates, rhs, y0keys=None, clo_y0=None) -> str | None:
    """Gallina literal of one case, or None if a value is too large to be certainly exact.
    y0keys / clo_y0: key order of the y0 mapping a second simulator was constructed with and what its Jacobian
    function returned (default: the variables in declaration order = y0=None, same observation)."""
    extra_point: list = []
    try:
        if sym[0] == "ok":
            ev = _exact(sym[1])
            jv = [_exact(r) for r in sym[2]]
            if ev is None or any(r is None for r in jv):
                return None
            c_sym = f"(ObsVals {c12_gen.c_qlist(ev)} {c12_gen.c_qmat(jv)})"
        elif sym[0] == "stray" or (sym[0] == "external" and sym[3] is None):
            c_sym = "(ObsErr ErrUnmodelled)"
        elif sym[0] == "external":
            ev = _exact(sym[3])
            jv = [_exact(r) for r in sym[4]]
            extra_point = [(c12_gen.un(k), common.to_fraction(v)) for k, v in sym[5].items()]
            if ev is None or any(r is None for r in jv) or any(abs(q) >= BIG for _, q in extra_point):
                return None
            c_sym = f"(ObsVals {c12_gen.c_qlist(ev)} {c12_gen.c_qmat(jv)})"
        else:
            c_sym = f"(ObsErr {c12_gen.c_err(sym[1])})"
        c_clo = _c_clo(clo)
        c_clo_y0 = c_clo if clo_y0 is None else _c_clo(clo_y0)
        if c_clo is None or c_clo_y0 is None:
            return None
        rv = _exact([v for _, v in rates])
        rh = _exact(rhs)
        if rv is None or rh is None:
            return None
    except ValueError:
        return None
    point = [(v, Fraction(xi)) for v, xi in zip(inputs["vars"], x, strict=True)] + [(n, v[1]) for n, v in inputs["pars"] if v[0] == "plain"]
    point += extra_point
    c_point = clist(f"({cn(n)}, {cq(q)})" for n, q in point)
    c_rates = clist(f"({cn(n)}, {cq(q)})" for (n, _), q in zip(rates, rv, strict=True))
    if any(abs(q) >= BIG for _, q in inputs["pv"]):
        return None
    c_pv = clist(f"({cn(n)}, {cq(q)})" for n, q in inputs["pv"])
    return (
        f"(mkCase {c12_gen.c_model(inputs)}\n    {c_point} {cq(t)} {c12_gen.c_qlist([Fraction(v) for v in x])}\n"
        f"    {c_sym}\n    {c_clo}\n    {c_rates} {c12_gen.c_qlist(rh)}\n"
        f"    {c12_gen.c_raw(inputs)} {clist(map(cn, inputs['parnames']))} {c_pv}\n"
        f"    {clist(map(cn, inputs['vars'] if y0keys is None else y0keys))} {c_clo_y0})"
    )


def corr_file(cases: list[str]) -> str:
    defs = "\n".join(f"Definition case_{i} : case :=\n  {c}." for i, c in enumerate(cases))
    lst = clist(f"case_{i}" for i in range(len(cases)))
    return (
        "From Coq Require Import QArith.\nFrom MxlBase Require Import ListX.\n"
        "From Symbolic Require Import Expr SymModel FnTab GenSymFacts.\nOpen Scope Q_scope.\n"
        + defs
        + f"\nDefinition cases : list case := {lst}.\n"
        "Definition mismatches := filter_idx (fun c => negb (case_ok gen_sym_facts c)) cases.\n"
        "Eval vm_compute in mismatches.\n"
    )


def limden_file(rng6, n: int) -> tuple[str, list[Fraction], int]:
    """Correspondence shard for SymModel.limit_den (the model of fractions.Fraction.limit_denominator() that the
    regression fact StatRationalLimited = seeded change C12-9 uses): n rationals -- binary64 values of
    unit-conversion factors, decimal fractions, random fractions with denominators around 10**6 -- with what CPython
    returns.  -> (file, inputs, number of inputs on which sympy.Rational.limit_denominator disagrees with CPython's)"""
    import sympy

    xs: list[Fraction] = []
    for c in c12_gen.TINY_COEFS:
        xs += [c, -c, Fraction(*float(c).as_integer_ratio()), -Fraction(*float(c).as_integer_ratio())]
    xs += [Fraction(1, 3), Fraction(-3, 2), Fraction(0), Fraction(1, 10**6), Fraction(1, 10**6 + 1), Fraction(999999, 10**6 + 1), Fraction(-5, 10**7)]
    while len(xs) < n:
        how = rng6.randrange(5)
        if how == 0:
            x = Fraction(rng6.randint(-50, 50), rng6.randint(1, 10**rng6.randint(1, 13)))
        elif how == 1:
            x = Fraction(*(rng6.uniform(-1, 1) * 10.0 ** -rng6.randint(0, 12)).as_integer_ratio())
        elif how == 2:
            x = Fraction(rng6.randint(-3 * 10**6, 3 * 10**6), rng6.randint(10**6 - 5, 2 * 10**6))
        elif how == 3:
            x = Fraction(rng6.randint(-10**9, 10**9), rng6.randint(1, 10**9))
        else:
            x = Fraction(rng6.randint(1, 40), 2 ** rng6.randint(15, 45)) * rng6.choice([1, -1])
        xs.append(x)
    ys = [x.limit_denominator() for x in xs]
    sympy_differs = sum(1 for x, y in zip(xs, ys) if Fraction(int(sympy.Rational(x.numerator, x.denominator).limit_denominator().p),
                                                                int(sympy.Rational(x.numerator, x.denominator).limit_denominator().q)) != y)
    pairs = clist(f"({cq(x)}, {cq(y)})" for x, y in zip(xs, ys))
    text = (
        "From Coq Require Import QArith.\nFrom MxlBase Require Import ListX.\n"
        "From Symbolic Require Import Expr SymModel.\nOpen Scope Q_scope.\n"
        f"Definition cases : list (Q * Q) := {pairs}.\n"
        "Definition mismatches := filter_idx (fun c : Q * Q => negb (match limit_den (fst c) with\n"
        "  | Some y => Qeq_bool y (snd c) && (Z.pos (Qden (Qred y)) <=? max_den)%Z\n"
        "  | None => false end)) cases.\n"
        "Eval vm_compute in mismatches.\n"
    )
    return text, xs, sympy_differs


# ---------------------------------------------------------------------------------------
# simulations with / without Jacobian
# ---------------------------------------------------------------------------------------


FAMILIES = ["robertson", "chain", "michaelis-menten", "moiety", "network", "surrogate-output", "surrogate-flux"]
SURROGATE_FAMILIES = ("surrogate-output", "surrogate-flux")


def _s_activation(x, ka):
    # saturating activation by x (quasi-steady-state surrogate with one output)
    return (x / (ka + x),)


def _s_uptake(x, k):
    # a surrogate flux: first-order uptake of x
    return (k * x,)


def kinetic_model(family: str, rng):
    """Bounded kinetic systems built from the shipped rate-law library; derived values are
    declared out of dependency order on purpose."""
    from mxlpy import Model, fns

    m = Model()
    if family == "robertson":
        m.add_variables({"n0001": 1.0, "n0002": 0.0, "n0003": 0.0})
        m.add_parameters({"n0011": 0.04, "n0012": 3.0e7 if rng.random() < 0.5 else 3.0e5, "n0013": 1.0e4})
        m.add_reaction("n0021", fn=fns.mass_action_1s, args=["n0001", "n0011"], stoichiometry={"n0001": -1, "n0002": 1})
        m.add_reaction("n0022", fn=fns.mass_action_2s, args=["n0002", "n0002", "n0012"], stoichiometry={"n0002": -1, "n0003": 1})
        m.add_reaction("n0023", fn=fns.mass_action_2s, args=["n0002", "n0003", "n0013"], stoichiometry={"n0002": -1, "n0001": 1})
    elif family == "chain":
        k = rng.randint(2, 5)
        m.add_variables({f"n{i + 1:04d}": float(rng.choice([0, 1, 2])) for i in range(k)})
        m.add_variable("n0009", 0.5)
        m.add_parameters({f"n{i + 11:04d}": rng.choice([0.5, 1.0, 4.0, 200.0]) for i in range(max(k, 2))})
        # a derived value declared BEFORE the derived value it depends on
        m.add_derived("n0032", fn=fns.twice, args=["n0031"])
        m.add_derived("n0031", fn=fns.proportional, args=["n0011", "n0012"])
        for i in range(k - 1):
            m.add_reaction(
                f"n{i + 41:04d}", fn=fns.mass_action_1s, args=[f"n{i + 1:04d}", "n0032" if i == 0 else f"n{i + 11:04d}"],
                stoichiometry={f"n{i + 1:04d}": -1, f"n{i + 2:04d}": 1},
            )
        m.add_reaction("n0049", fn=fns.mass_action_1s_1p, args=[f"n{k:04d}", "n0009", "n0011", "n0012"], stoichiometry={f"n{k:04d}": -1, "n0009": 1})
    elif family == "michaelis-menten":
        m.add_variables({"n0001": 2.0, "n0002": 0.0})
        m.add_parameters({"n0011": rng.choice([1.0, 50.0]), "n0012": 0.5, "n0013": rng.choice([0.1, 2.0]), "n0014": 2.0})
        m.add_derived("n0031", fn=fns.proportional, args=["n0011", "n0012"])  # vmax = kcat * e0
        m.add_reaction("n0041", fn=fns.michaelis_menten_1s, args=["n0001", "n0031", "n0013"], stoichiometry={"n0001": -1, "n0002": 1})
        m.add_reaction("n0042", fn=fns.mass_action_1s, args=["n0002", "n0012"], stoichiometry={"n0002": -1, "n0001": 1})
    elif family == "moiety":
        m.add_variables({"n0001": 1.0})
        m.add_parameters({"n0011": 3.0, "n0012": rng.choice([0.5, 20.0]), "n0013": 1.5})
        m.add_derived("n0031", fn=fns.moiety_1s, args=["n0001", "n0011"])
        m.add_reaction("n0041", fn=fns.mass_action_1s_1p, args=["n0001", "n0031", "n0012", "n0013"], stoichiometry={"n0001": -1})
    elif family == "rectifier":
        # a potential-like variable V < 0 and a concentration c: the leak is rectified (flows only while V < 0), the
        # coupling uses a hand-written |V| (harness/c12_fns.py ids 60, 63: fn_to_sympy makes them Piecewise).  V stays
        # negative along the trajectory (its equilibrium is -kin*c/(4*g) < 0): the branch for negative states is the
        # one the integrator lives on
        from harness import c12_fns

        m.add_variables({"n0001": -rng.choice([0.5, 1.5, 3.0]), "n0002": rng.choice([0.5, 2.0])})
        m.add_parameters({"n0011": rng.choice([0.7, 30.0]), "n0012": rng.choice([0.3, 4.0]), "n0013": 0.2})
        m.add_reaction("n0041", fn=c12_fns.b_rect_neg, args=["n0001", "n0011"], stoichiometry={"n0001": 1})
        m.add_reaction("n0042", fn=c12_fns.b_abs_coupling, args=["n0001", "n0002", "n0012"], stoichiometry={"n0002": -1})
        m.add_reaction("n0043", fn=fns.constant, args=["n0013"], stoichiometry={"n0002": 1})
        m.add_reaction("n0044", fn=fns.mass_action_1s, args=["n0002", "n0013"], stoichiometry={"n0001": -0.25})
    elif family == "conversion":
        # amounts tracked in different units: a big medium pool (n0001) is taken up into a small cell (n0002), waste
        # (n0003) goes back to the medium.  The stoichiometric coefficients are unit-conversion factors of order 1e-7
        # .. 1e-6 (one of them a volume RATIO computed from two parameters: static), the uptake rate constant is of
        # order 1e6: the Jacobian entries are products tiny * big of order 1
        from mxlpy import Derived

        kup = rng.choice([4.0e6, 2.0e5])
        m.add_variables({"n0001": 10.0, "n0002": 0.3, "n0003": 0.1})
        m.add_parameters({"n0011": kup, "n0012": rng.choice([0.6, 50.0]), "n0013": 0.05,
                          "n0014": rng.choice([2.0e-12, 4.0e-13]), "n0015": 1.0e-6})
        m.add_reaction("n0041", fn=fns.mass_action_1s, args=["n0001", "n0011"],
                       stoichiometry={"n0001": -rng.choice([3.0e-7, 4.5e-7, 2.0**-22]), "n0002": rng.choice([2.5e-7, 1.0e-7])})
        m.add_reaction("n0042", fn=fns.mass_action_1s, args=["n0002", "n0012"],
                       stoichiometry={"n0002": -1, "n0003": Derived(fn=fns.div, args=["n0014", "n0015"])})
        m.add_reaction("n0043", fn=fns.mass_action_1s, args=["n0003", "n0013"], stoichiometry={"n0003": -0.5})
        m.add_reaction("n0044", fn=fns.mass_action_2s, args=["n0003", "n0001", "n0011"], stoichiometry={"n0003": -1.3e-6, "n0001": 7.0e-7})
    elif family == "surrogate-output":
        # the OUTPUT of a surrogate (it depends on the state) is an argument of an ordinary reaction or of a
        # derived value a reaction uses: no symbolic form
        from mxlpy.surrogates import qss
        from mxlpy.surrogates.abstract import MockSurrogate

        m.add_variables({"n0001": 1.0, "n0002": 0.4})
        m.add_parameters({"n0011": rng.choice([0.8, 40.0]), "n0012": rng.choice([1.3, 300.0]), "n0013": 0.5})
        m.add_reaction("n0041", fn=fns.mass_action_1s, args=["n0001", "n0011"], stoichiometry={"n0001": -1, "n0002": 1})
        kw = {"args": ["n0001", "n0013"], "outputs": ["n0031"]}
        m.add_surrogate("n0051", qss.Surrogate(model=_s_activation, **kw) if rng.random() < 0.5 else MockSurrogate(fn=_s_activation, **kw))
        if rng.random() < 0.5:
            m.add_reaction("n0042", fn=fns.mass_action_2s, args=["n0002", "n0031", "n0012"], stoichiometry={"n0002": -1, "n0001": 0.5})
        else:
            m.add_derived("n0032", fn=fns.proportional, args=["n0031", "n0012"])
            m.add_reaction("n0042", fn=fns.mass_action_1s, args=["n0002", "n0032"], stoichiometry={"n0002": -1, "n0001": 0.5})
    elif family == "surrogate-flux":
        # the surrogate only contributes a FLUX (an output with a stoichiometry)
        from mxlpy.surrogates import qss
        from mxlpy.surrogates.abstract import MockSurrogate

        m.add_variables({"n0001": 1.0, "n0002": 0.0})
        m.add_parameters({"n0011": rng.choice([0.7, 150.0]), "n0012": rng.choice([0.2, 5.0])})
        kw = {"args": ["n0001", "n0011"], "outputs": ["n0043"], "stoichiometries": {"n0043": {"n0001": -1.0, "n0002": 1.0}}}
        m.add_surrogate("n0051", MockSurrogate(fn=_s_uptake, **kw) if rng.random() < 0.5 else qss.Surrogate(model=_s_uptake, **kw))
        m.add_reaction("n0041", fn=fns.mass_action_1s, args=["n0002", "n0012"], stoichiometry={"n0002": -1})
    else:
        k = rng.randint(3, 5)
        m.add_variables({f"n{i + 1:04d}": float(rng.choice([0.5, 1, 2])) for i in range(k)})
        m.add_parameters({"n0011": rng.choice([0.5, 2.0, 100.0]), "n0012": rng.choice([0.25, 1.0])})
        r = 0
        for i in range(k):
            j = (i + 1) % k
            m.add_reaction(f"n{41 + r:04d}", fn=fns.mass_action_1s, args=[f"n{i + 1:04d}", "n0011" if i % 2 else "n0012"],
                           stoichiometry={f"n{i + 1:04d}": -1, f"n{j + 1:04d}": 1})
            r += 1
        a, b, c = rng.sample(range(k), 3)
        m.add_reaction(f"n{41 + r:04d}", fn=fns.mass_action_2s, args=[f"n{a + 1:04d}", f"n{b + 1:04d}", "n0012"],
                       stoichiometry={f"n{a + 1:04d}": -1, f"n{b + 1:04d}": -1, f"n{c + 1:04d}": 2})
    return m


def _y0_in_order(m, y0_order: str | None) -> dict | None:
    """the model's own initial conditions as a mapping whose keys are in another order (None: no y0 argument)"""
    if y0_order is None:
        return None
    ic = m.get_initial_conditions()
    keys = list(ic)
    keys = keys[::-1] if y0_order == "rev" else keys[1:] + keys[:1]
    return {k: float(ic[k]) for k in keys}


def sim_compare(family: str, model_seed: int, method: str, t_end: float, y0_order: str | None = None) -> dict:
    """One model simulated with and without Jacobian by one method (y0_order: the initial state is handed to both
    simulators as a mapping with its keys reversed / rotated).
    -> {"violation": str|None, "calls": int, "dev": float, "checked": int, "skipped": bool}"""
    import random

    import numpy as np
    from mxlpy import Simulator
    from mxlpy.integrators import Scipy
    from mxlpy.symbolic import to_symbolic_model

    out = {"violation": None, "calls": 0, "dev": 0.0, "checked": 0, "skipped": False, "vacuous": False, "fell_back": False}
    res: dict[bool, Any] = {}
    jac_bad = None
    surrogate = family in SURROGATE_FAMILIES
    for uj in (False, True):
        m = kinetic_model(family, random.Random(model_seed))
        try:
            if uj and not surrogate:
                try:
                    to_symbolic_model(m)
                except Exception as e:  # noqa: BLE001
                    out["violation"] = f"{family}: a model built from the shipped rate-law library is refused by to_symbolic_model ({type(e).__name__}: {str(e)[:100]})"
                    return out
            if uj and surrogate:
                # the right-hand side depends on a surrogate: no symbolic form.  Either the conversion raises,
                # or what it returns has to be right -- equations over the surrogate output as a free constant
                # are not (their Jacobian misses the output's dependence on the state)
                try:
                    sm = to_symbolic_model(m)
                except Exception:  # noqa: BLE001
                    sm = None
                if sm is not None:
                    import sympy

                    free = sorted({str(v) for e in sm.eqs for v in sympy.sympify(e).free_symbols if v in set(sm.external.values())})
                    x0 = [float(v) for v in m.get_initial_conditions().values()]
                    ex = c12_oracle.exact_jacobian(m, 0.0, x0)
                    num = m.get_args(dict(zip(m.get_variable_names(), x0, strict=True)), time=0.0)
                    subs = {s_: float(num[str(s_)]) for e in sm.eqs for s_ in sympy.sympify(e).free_symbols}
                    jv = [[float(v) for v in row] for row in sm.jacobian().subs(subs).tolist()]
                    if not c12_oracle.mat_close(jv, ex, rel=1e-7):
                        out["violation"] = (
                            f"{family}: to_symbolic_model converts a model whose right-hand side depends on a surrogate (free symbols {free}, equations "
                            f"{[str(e) for e in sm.eqs]}): its Jacobian at the initial state is {jv}, the derivative of the numeric right-hand side is {[[float(v) for v in r] for r in ex]}"
                        )
                        return out
            with _WarningCapture() as cap:
                sim = Simulator(m, y0=_y0_in_order(m, y0_order), integrator=partial(Scipy, method=method), use_jacobian=uj)
            if uj and surrogate:
                if sim.integrator.jacobian is None:
                    out["fell_back"] = True
                    if not cap.records:
                        out["violation"] = f"{family}/{method}: Simulator(use_jacobian=True) fell back to running without Jacobian without logging a warning"
                        return out
            if uj:
                jf = sim.integrator.jacobian
                if jf is None:
                    out["vacuous"] = not surrogate
                else:

                    def counted(t, x, _jf=jf, _m=m):
                        nonlocal jac_bad
                        out["calls"] += 1
                        j = _jf(t, x)
                        if jac_bad is not None:
                            # a wrong Jacobian is already recorded: let the integrator finish on the exact one (a
                            # wrong one can make the implicit methods stall for minutes)
                            return np.array([[float(v) for v in r] for r in c12_oracle.exact_jacobian(_m, float(t), [float(v) for v in x])])
                        if out["calls"] <= 3:
                            ex = c12_oracle.exact_jacobian(_m, float(t), [float(v) for v in x])
                            out["checked"] += 1
                            if not c12_oracle.mat_close(np.asarray(j).tolist(), ex, rel=1e-7):
                                jac_bad = (float(t), [float(v) for v in x], np.asarray(j).tolist(), [[float(v) for v in r] for r in ex])
                                return np.array([[float(v) for v in r] for r in ex])
                        return j

                    sim.integrator.jacobian = counted
            r = sim.simulate(t_end, steps=5).get_result()
            res[uj] = r.unwrap_or_err().variables.to_numpy(dtype=float)
        except _Timeout:
            raise
        except Exception as e:  # noqa: BLE001
            res[uj] = e
    a, b = res.get(False), res.get(True)
    if isinstance(a, Exception):
        out["skipped"] = True
        return out
    if isinstance(b, Exception):
        out["violation"] = f"{family}/{method}: simulation with use_jacobian=True fails ({type(b).__name__}: {str(b)[:120]}) while the plain one succeeds"
        return out
    if jac_bad is not None:
        if y0_order is not None:
            family = f"{family} with y0 = the initial conditions as a mapping in {y0_order} key order"
        out["violation"] = f"{family}/{method}: Jacobian handed to the integrator at t={jac_bad[0]} x={jac_bad[1]} is {jac_bad[2]}, derivative of the rhs is {jac_bad[3]}"
        return out
    if a.shape != b.shape:
        out["dev"] = float("inf")
    else:
        out["dev"] = float(np.max(np.abs(a - b)) / (1e-6 + 1e-4 * (1.0 + float(np.max(np.abs(a))))))
    if not out["dev"] <= 1.0:
        out["violation"] = f"{family}/{method}: trajectories with and without Jacobian differ (scaled deviation {out['dev']:.3g}; tolerance 1e-4 relative + 1e-6)"
    return out


def run_sims(run: Run, rng, n_models: int, viol: list) -> dict:
    stats: dict[str, Any] = {"runs": 0, "jacobian_calls": {}, "max_scaled_dev": 0.0, "jacobian_evaluations_checked": 0,
                             "skipped_failed_integration": 0, "fallback_without_jacobian": 0}
    for i in range(n_models):
        family = FAMILIES[i % len(FAMILIES)]
        t_end = rng.choice([1.0, 5.0, 40.0])
        model_seed = rng.randrange(2**31)
        for method in ("LSODA", "BDF", "Radau"):
            signal.setitimer(signal.ITIMER_REAL, 120.0)
            rep = {"kind": "sim", "family": family, "method": method, "t_end": t_end, "model_seed": model_seed}
            try:
                o = sim_compare(family, model_seed, method, t_end)
            except _Timeout:
                viol.append((f"{family}/{method}: no answer within 120 s", rep))
                continue
            finally:
                signal.setitimer(signal.ITIMER_REAL, 0)
            stats["runs"] += 1
            stats["jacobian_evaluations_checked"] += o["checked"]
            if o["skipped"]:
                stats["skipped_failed_integration"] += 1
            if o["vacuous"]:
                stats["fallback_without_jacobian"] += 1
            if o.get("fell_back"):
                stats["surrogate_fallbacks"] = stats.get("surrogate_fallbacks", 0) + 1
            stats["max_scaled_dev"] = max(stats["max_scaled_dev"], o["dev"] if o["dev"] == o["dev"] else 0.0)
            stats["jacobian_calls"][method] = stats["jacobian_calls"].get(method, 0) + o["calls"]
            run.count_case(("sim", family, method, t_end, model_seed), nontrivial=o["calls"] > 0 or bool(o.get("fell_back")))
            if o["violation"]:
                viol.append((o["violation"], rep))
    return stats


# second round (own random stream, so that the first round's models stay what they were): a sign-branching system that
# lives at negative values of a variable, and the shipped-rate-law systems with the initial state handed over as a
# mapping in another key order
FAMILIES2 = [("rectifier", None), ("robertson", "rev"), ("network", "rot"), ("michaelis-menten", "rev"), ("chain", "rot"), ("rectifier", "rev")]


def run_sims2(run: Run, rng4, n_models: int, viol: list) -> dict:
    stats: dict[str, Any] = {"runs": 0, "jacobian_calls": {}, "max_scaled_dev": 0.0, "jacobian_evaluations_checked": 0,
                             "skipped_failed_integration": 0, "fallback_without_jacobian": 0, "families": {}}
    for i in range(n_models):
        family, y0_order = FAMILIES2[i % len(FAMILIES2)]
        t_end = rng4.choice([1.0, 5.0, 40.0])
        model_seed = rng4.randrange(2**31)
        for method in ("LSODA", "BDF", "Radau"):
            signal.setitimer(signal.ITIMER_REAL, 120.0)
            rep = {"kind": "sim", "family": family, "method": method, "t_end": t_end, "model_seed": model_seed, "y0_order": y0_order}
            try:
                o = sim_compare(family, model_seed, method, t_end, y0_order)
            except _Timeout:
                viol.append((f"{family}/{method} (y0 order {y0_order}): no answer within 120 s", rep))
                continue
            finally:
                signal.setitimer(signal.ITIMER_REAL, 0)
            stats["runs"] += 1
            key = f"{family}/y0={y0_order}"
            stats["families"][key] = stats["families"].get(key, 0) + 1
            stats["jacobian_evaluations_checked"] += o["checked"]
            stats["skipped_failed_integration"] += bool(o["skipped"])
            stats["fallback_without_jacobian"] += bool(o["vacuous"])
            stats["max_scaled_dev"] = max(stats["max_scaled_dev"], o["dev"] if o["dev"] == o["dev"] else 0.0)
            stats["jacobian_calls"][method] = stats["jacobian_calls"].get(method, 0) + o["calls"]
            run.count_case(("sim2", family, y0_order, method, t_end, model_seed), nontrivial=o["calls"] > 0)
            if o["violation"]:
                viol.append((o["violation"], rep))
    return stats


def run_sims3(run: Run, rng5, n_models: int, viol: list) -> dict:
    """third round (own random stream c12-sims3): the `conversion` family -- stoichiometric coefficients of
    unit-conversion size times rate constants of order 1e6"""
    stats: dict[str, Any] = {"runs": 0, "jacobian_calls": {}, "max_scaled_dev": 0.0, "jacobian_evaluations_checked": 0,
                             "skipped_failed_integration": 0, "fallback_without_jacobian": 0}
    for _ in range(n_models):
        t_end = rng5.choice([1.0, 5.0])
        model_seed = rng5.randrange(2**31)
        for method in ("LSODA", "BDF", "Radau"):
            signal.setitimer(signal.ITIMER_REAL, 120.0)
            rep = {"kind": "sim", "family": "conversion", "method": method, "t_end": t_end, "model_seed": model_seed}
            try:
                o = sim_compare("conversion", model_seed, method, t_end)
            except _Timeout:
                viol.append((f"conversion/{method}: no answer within 120 s", rep))
                continue
            finally:
                signal.setitimer(signal.ITIMER_REAL, 0)
            stats["runs"] += 1
            stats["jacobian_evaluations_checked"] += o["checked"]
            stats["skipped_failed_integration"] += bool(o["skipped"])
            stats["fallback_without_jacobian"] += bool(o["vacuous"])
            stats["max_scaled_dev"] = max(stats["max_scaled_dev"], o["dev"] if o["dev"] == o["dev"] else 0.0)
            stats["jacobian_calls"][method] = stats["jacobian_calls"].get(method, 0) + o["calls"]
            run.count_case(("sim3", "conversion", method, t_end, model_seed), nontrivial=o["calls"] > 0)
            if o["violation"]:
                viol.append((o["violation"], rep))
    return stats


# ---------------------------------------------------------------------------------------
# known finding: computed parameter-only coefficients are frozen at conversion time
# ---------------------------------------------------------------------------------------


def frozen_witness() -> tuple[bool, str]:
    """True if still failing."""
    from mxlpy import Derived, Model, fns
    from mxlpy.symbolic import to_symbolic_model
    import sympy

    m = Model()
    m.add_variables({"n0001": 1.0, "n0002": 0.5})
    m.add_parameters({"n0003": 1.0, "n0004": 2.0})
    m.add_reaction("n0006", fn=fns.mass_action_1s, args=["n0001", "n0004"],
                   stoichiometry={"n0001": -1, "n0002": Derived(fn=fns.twice, args=["n0003"])})
    sm = to_symbolic_model(m)
    m.update_parameter("n0003", 5.0)
    f = sympy.lambdify([list(sm.variables.values()), list(sm.parameters.values())], sm.eqs)
    sym = [float(v) for v in f([1.0, 0.5], [m.get_parameter_values()[k] for k in sm.parameters])]
    num = [float(v) for v in m(0.0, [1.0, 0.5])]
    return (not all(c12_oracle.close(a, b) for a, b in zip(sym, num))), f"symbolic {sym} vs numeric {num} at n0003=5"


def frozen_sim_witness() -> tuple[bool, str, int]:
    """The same finding seen through the simulator (history: construct, update a parameter, simulate):
    Simulator(use_jacobian=True) lambdifies the Jacobian at construction, with the parameter-only computed
    coefficient twice(n0003) folded to its value then; update_parameter('n0003', ...) changes the numeric
    right-hand side, the Jacobian handed to the integrator keeps the old coefficient.
    -> (still failing, description, number of Jacobian calls of the integrator)"""
    import numpy as np
    from mxlpy import Derived, Model, Simulator, fns
    from mxlpy.integrators import Scipy

    m = Model()
    m.add_variables({"n0001": 1.0, "n0002": 0.5})
    m.add_parameters({"n0003": 1.0, "n0004": 2.0, "n0005": 3.0})
    m.add_reaction("n0006", fn=fns.mass_action_1s, args=["n0001", "n0004"],
                   stoichiometry={"n0001": -1, "n0002": Derived(fn=fns.twice, args=["n0003"])})
    m.add_reaction("n0007", fn=fns.mass_action_2s, args=["n0002", "n0002", "n0005"], stoichiometry={"n0002": Derived(fn=fns.neg, args=["n0003"])})
    sim = Simulator(m, integrator=partial(Scipy, method="BDF"), use_jacobian=True)
    jf = sim.integrator.jacobian
    if jf is None:
        return False, "the simulator runs without Jacobian", 0
    sim.update_parameter("n0003", 5.0)
    calls = 0
    first_bad = None

    def counted(t, x, _jf=jf):
        nonlocal calls, first_bad
        calls += 1
        j = _jf(t, x)
        if first_bad is None:
            ex = c12_oracle.exact_jacobian(m, float(t), [float(v) for v in x])
            if not c12_oracle.mat_close(np.asarray(j).tolist(), ex, rel=1e-7):
                first_bad = (float(t), [float(v) for v in x], np.asarray(j).tolist(), [[float(v) for v in r] for r in ex])
        return j

    sim.integrator.jacobian = counted
    sim.simulate(1.0, steps=3)
    if first_bad is None:
        return False, f"Jacobian consistent with the right-hand side after update_parameter ({calls} calls)", calls
    return True, (f"Simulator(use_jacobian=True); update_parameter('n0003', 5.0); simulate: the Jacobian handed to BDF at t={first_bad[0]} "
                  f"x={first_bad[1]} is {first_bad[2]}, the derivative of the right-hand side is {first_bad[3]}"), calls


# ---------------------------------------------------------------------------------------
# the check
# ---------------------------------------------------------------------------------------


def _y0_perm(rng3, nv: int) -> list[int] | None:
    """key order of the y0 mapping of the second simulator: reversed / rotated / shuffled (never the identity);
    drawn from an own random stream so that the models of the main stream stay what they were"""
    if nv < 2 or rng3.random() < 0.4:
        return None
    perm = list(range(nv))
    how = rng3.choice(["rev", "rot", "shuffle"])
    if how == "rev":
        perm.reverse()
    elif how == "rot":
        perm = perm[1:] + perm[:1]
    else:
        while perm == list(range(nv)):
            rng3.shuffle(perm)
    return perm


def _branch_cases(rng2, n: int):
    """yield (desc, t, x, p2): models with a sign-branching rate law / derived value / coefficient (oracle only)"""
    for _ in range(n):
        desc, x = c12_gen.gen_branch_desc(rng2)
        plain = [k for k, v in desc["pars"] if v[0] == "plain"]
        p2 = {k: rng2.randint(-3, 3) for k in plain if rng2.random() < 0.7} if plain and rng2.random() < 0.4 else None
        yield desc, rng2.randint(0, 3), x, p2


def _tiny_cases(rng5, n: int):
    """yield (desc, t, x, p2): models with stoichiometric coefficients of unit-conversion size (oracle only)"""
    for desc, t, x, p2 in c12_gen.TINY_CORPUS:
        yield desc, t, x, p2
    for _ in range(n):
        desc, x, p2 = c12_gen.gen_tiny_desc(rng5)
        yield desc, rng5.randint(0, 3), x, p2


def _cases(run: Run, rng, n_models: int):
    """yield (desc, t, x, p2)"""
    for desc, t, x, p2 in c12_gen.CORPUS:
        yield desc, t, x, p2
    fixed_kinds = list(dict.fromkeys(c12_gen.KINDS))
    for i in range(n_models):
        kind = fixed_kinds[i] if i < len(fixed_kinds) else None
        desc = c12_gen.gen_desc(rng, kind)
        nv = len(desc["vars"])
        t = rng.randint(0, 3)
        x = [rng.randint(-2, 2) for _ in range(nv)]
        plain = [n for n, v in desc["pars"] if v[0] == "plain"]
        p2 = {n: rng.randint(-3, 3) for n in plain if rng.random() < 0.7} if plain and rng.random() < 0.6 else None
        yield desc, t, x, p2
        # the same model in other declaration orders
        if c12_gen.expected_convertible(desc) and rng.random() < 0.35 and len(desc["der"]) >= 2:
            for variant in ("rev", "perm"):
                d2 = dict(desc)
                d2["kind"] = desc["kind"] + "/" + variant
                for key in ("der", "rxn", "pars"):
                    lst = list(desc[key])
                    lst.reverse() if variant == "rev" else rng.shuffle(lst)
                    d2[key] = lst
                yield d2, t, x, None


def check(run: Run) -> None:
    thorough = run.tier == "thorough"
    facts = gen()
    run.coverage["gen_facts"] = facts
    run.rule = (
        "models: random models over the polynomial function table (harness/fnlib + the polynomial members of "
        "mxlpy.fns), 1-4 variables, 0-4 parameters, 0-5 derived values in chains, 1-5 reactions with dyadic coefficients; first the corpus of minimised past failures (c12_gen.CORPUS); kinds: "
        "plain / derived+reactions+parameters declared in shuffled, reversed and permuted order / assignment-defined parameter "
        "(referenced or not, declared first) / assignment-defined variable / time / computed coefficient (state dependent or "
        "parameter only) / variable without reaction / derived value of a rate / untranslatable function / data / readout / no "
        "parameters / SURROGATES (MockSurrogate and surrogates.qss.Surrogate with polynomial predict functions, 1-2 outputs): an output named by a "
        "reaction, by a derived value, by a computed coefficient; flux-only surrogates; surrogates nothing names; each observed at an integer state and time, 60% again after Simulator.update_parameters.  A case is "
        "non-trivial if the model has >=2 components besides variables and parameters or is refused; distinct by content.  "
        "Simulations: stiff and non-stiff bounded kinetic systems from the shipped rate laws (Robertson, chains with out-of-order "
        "derived values, Michaelis-Menten, moiety, cyclic networks) with LSODA/BDF/Radau, with and without Jacobian, plus two families WITH a "
        "surrogate (a quasi-steady-state output feeding a reaction directly or through a derived value; a flux-only surrogate) where the conversion has "
        "to raise, the simulator has to fall back with a warning and give the Jacobian-free trajectories; a simulation "
        "is non-trivial if the integrator called the Jacobian at least once (surrogate families: if the simulator fell back); finally the history "
        "construct / update_parameter / simulate on the frozen-coefficient witness (recorded finding).  "
        "Third pass (own random streams c12-y0 / c12-branch / c12-sims2, the models above are unchanged): six models in ten with >= 2 variables are ALSO "
        "given to a second Simulator whose y0 is the model's initial conditions as a mapping in reversed / rotated / shuffled key order (its Jacobian "
        "function is observed at the same state); 60 (quick) / 300 (thorough) convertible models in which one rate law, derived value or state-dependent "
        "coefficient BRANCHES ON THE SIGN of a variable, of a sum / product / difference of variables or (one in five) of a parameter / variable*parameter "
        "(harness/c12_fns.py ids 60-66: if v < 0, conditional expressions, hand-written abs / rectifier / gate), observed at states with non-zero entries, "
        "the sign variable negative in two cases of three (oracle only: Piecewise is outside the Coq expression fragment); a second round of simulations: "
        "a rectifier system living at negative values of a potential-like variable, and Robertson / network / Michaelis-Menten / chain / rectifier with the "
        "initial state handed over as a mapping in reversed / rotated key order.  "
        "Closing pass (own random streams c12-tiny / c12-sims3 / c12-limden): after two corpus models (the demo of seeded change C12-9) 70 (quick) / 300 (thorough) convertible "
        "polynomial models in which ONE variable has only stoichiometric coefficients of unit-conversion size (3e-7, 2e-9, 1.3e-6, 7e-7, 4.5e-8, 2.5e-7, 1e-12, 6.4e-6, 9.99e-7, "
        "1.234567e-6, 5e-10, 2^-21, 2^-20, 3*2^-20, 5*2^-23, 2^-30, 2^-40, either sign), one in two a further such coefficient next to ordinary ones, four in ten one of them computed "
        "from two parameters (product / ratio, folded by the cache), at non-zero integer states (oracle only, compared within 1e-11 of the magnitude of the evaluated expression); "
        "2 (quick) / 6 (thorough) `conversion` systems (medium pool / cell / waste, coefficients of order 1e-7 times rate constants of order 1e6) simulated with and without "
        "Jacobian by LSODA/BDF/Radau; 300 rationals for the model of Fraction.limit_denominator"
    )
    proofs_ok = run.check_proofs(AREA, PROPS)
    run.assumptions += [
        "Coq 8.16.1 kernel + vm_compute; no axioms (all theorems closed under the global context; QArith only)",
        "SymPy enters the theorems as Section variables: fn_to_sympy (fsym: sound w.r.t. the numeric function, introduces no symbols -- property C06's subject), "
        "differentiation (sdiff: agrees in value with the verified formal derivative D), lambdify (positional binding of names to values, modelled by bind/closure_env); "
        "the three are validated by the correspondence on every run, not proved",
        "fact extractor harness/c12.py::extract_facts (fail-closed ast matcher over to_symbolic_model, SymbolicModel.jacobian, Simulator._initialise_integrator; "
        "recognised static statements: Float(stoich_value) * rate (shipped) and Rational(stoich_value).limit_denominator() * rate (regression))",
        "the model takes the ModelCache tables (order, stoich_by_cpds, dyn_stoich_by_cpds, var_names, all_parameter_values) as INPUT; that the cache is what C01/C02/C03 prove it to be is not re-proved here",
        "cache.order being a topological order of the derived values (hypothesis OrderOk of C12_any_declaration_order) is property C02's theorem; 'Resolved env' (every derived value / rate has its function's value) is what C01 proves the numeric model computes",
        "the snapshot's dynamic-coefficient statement (fact DynListTimesRate) is modelled on non-Integer rate expressions only; the Integer-rate branch (list repetition, unsubstituted body) is demonstrated on the code by the corpus witness, not modelled",
        "surrogates: the conversion reads only their NAMES (get_surrogate_output_names, the flux names in the cache tables); that a surrogate output has the value its predict function gives is "
        "checked per generated case inside Coq (FnTab.surr_ok) and enters the theorems only where a Jacobian is shown to be WRONG (SurrResolved in C12_surrogate_merged_table_refuted); "
        "neural-network surrogates (torch/keras/equinox) are not generated -- the conversion cannot tell them apart from MockSurrogate",
        "an unbound name in the lambdified Jacobian function (model outcome ErrName) stands for 'the entry stays a SymPy expression' (lambdify keeps free symbols in the namespace); observed as a non-numeric matrix entry",
        "sign-branching rate laws (Piecewise): coq/symbolic/SignFold.v models SymPy's evaluation of relationals decidable from symbol assumptions (nonneg_known: a number >= 0, "
        "an assumed symbol, sums and products of such -- a conservative reading) and is tied to the source through the regenerated fact sf_varsym only; models with such "
        "functions are judged by the exact oracle, not by the vm_compute correspondence; at a state where a sign test compares equal values (a kink of the right-hand side) only the values are compared",
        "a simulator constructed with an explicit y0 mapping: the model takes the KEY ORDER of the mapping as input (init_jac_y0); that the state vector is "
        "tuple(y0[k] for k in get_variable_names()) is pinned by the fact extractor (tail statements of _initialise_integrator)",
        "coefficients of unit-conversion size: such models are judged by the exact oracle only (3e-7 is no dyadic rational; SymPy adds coefficients of like terms in 53 bits and lambdify "
        "prints 15 digits), tolerance 1e-11 * the sum of the absolute values of what the evaluated expression adds up (c12_oracle.absval; floating-point evaluation stays ~1000 times below); "
        "SymModel.limit_den (model of fractions.Fraction.limit_denominator for the regression fact StatRationalLimited) has a fuel of 64 loop rounds, exhaustion is an unmodelled outcome, "
        "not proved unreachable; it is compared with CPython and SymPy on 300 rationals per run",
        "polynomial fragment over Q; rational rate laws (Michaelis-Menten, div) are covered by the oracle and the simulations only; floating point is outside the model",
        "scipy.integrate (solve_ivp LSODA/BDF/Radau) is exercised, not modelled: trajectory agreement is validation with tolerance 1e-4 relative (solver rtol=atol=1e-8)",
        "correspondence harness: literal printer, exactness guard |v| < 2^20, coqc output parser",
    ]

    rng = common.rng_for(run.seed, "c12")
    n_models = 1500 if thorough else 260
    kinds: dict[str, int] = {}
    outcomes: dict[str, int] = {}
    clo_outcomes: dict[str, int] = {}
    coq_cases: list[str] = []
    coq_meta: list[dict] = []
    skipped_inexact = 0
    viol: list[tuple[str, dict]] = []
    known_hits: list[str] = []
    signal.signal(signal.SIGALRM, _alarm)
    rng2 = common.rng_for(run.seed, "c12-branch")
    rng3 = common.rng_for(run.seed, "c12-y0")
    n_branch = 300 if thorough else 60
    branch_stats = {"cases": 0, "negative_sign_argument_states": 0, "kinks_skipped": 0}
    y0_stats = {"permuted_y0_simulators": 0, "with_jacobian": 0}
    import itertools

    rng5 = common.rng_for(run.seed, "c12-tiny")
    n_tiny = 300 if thorough else 70
    tiny_stats = {"cases": 0, "converted": 0, "entries_compared_at_expression_scale": 0, "nonzero_entries_below_1e-5": 0, "magnitude_not_computable": 0}
    for desc, t, x, p2 in itertools.chain(_cases(run, rng, n_models), _branch_cases(rng2, n_branch), _tiny_cases(rng5, n_tiny)):
        y0perm = _y0_perm(rng3, len(desc["vars"]))
        rep = {"kind": "case", "desc": desc_to_json(desc), "t": t, "x": x, "p2": {str(k): v for k, v in (p2 or {}).items()}, "y0perm": y0perm}
        branching = c12_gen.uses_branching(desc)
        signal.setitimer(signal.ITIMER_REAL, 60.0)
        try:
            obs = observe(desc, t, x, p2, y0perm)
        except _Timeout:
            viol.append((f"no answer within 60 s on a {desc['kind']} model", rep))
            continue
        except c12_gen.InputAssumptionBroken as e:
            run.broken_correspondence.append(f"input assumption of the model no longer holds: {e}")
            continue
        except Exception as e:  # noqa: BLE001
            run.broken_correspondence.append(f"driver failed on a generated {desc['kind']} model: {type(e).__name__}: {str(e)[:200]}")
            continue
        finally:
            signal.setitimer(signal.ITIMER_REAL, 0)
        kinds[desc["kind"]] = kinds.get(desc["kind"], 0) + 1
        okind = obs["sym"][0] if obs["sym"][0] in ("ok", "stray", "external") else obs["sym"][1]
        outcomes[okind] = outcomes.get(okind, 0) + 1
        ck = obs["clo"][0] if obs["clo"][0] in ("mat", "nojac", "symbolic") else obs["clo"][1]
        clo_outcomes[ck] = clo_outcomes.get(ck, 0) + 1
        n_comp = len(desc["der"]) + len(desc["rxn"])
        run.count_case((rep["desc"], t, x, rep["p2"]), nontrivial=n_comp >= 2 or obs["sym"][0] != "ok")
        if "clo_y0" in obs:
            y0_stats["permuted_y0_simulators"] += 1
            y0_stats["with_jacobian"] += obs["clo_y0"][0] == "mat"
        if branching:
            branch_stats["cases"] += 1
            branch_stats["negative_sign_argument_states"] += any(v < 0 for v in x)
            branch_stats["kinks_skipped"] += bool(obs.get("kink"))
        if len(run.samples) < 3:
            run.sample({"kind": desc["kind"], "inputs": str(obs["inputs"])[:600], "t": t, "x": x, "sym": str(obs["sym"])[:300], "closure": str(obs["clo"])[:200]})
        bad, known = judge(desc, obs)
        tiny = c12_gen.is_tiny(desc)
        if tiny:
            tbad, tst = judge_tiny(desc, obs)
            bad = tbad + bad
            tiny_stats["cases"] += 1
            tiny_stats["converted"] += obs["sym"][0] == "ok"
            tiny_stats["entries_compared_at_expression_scale"] += tst["judged"]
            tiny_stats["nonzero_entries_below_1e-5"] += tst["tiny_terms"]
            tiny_stats["magnitude_not_computable"] += "mag_err" in obs
        for b in bad:
            if len(viol) < 12:
                viol.append((b, rep))
        known_hits += known
        if branching or tiny:
            # Piecewise is outside the Coq expression fragment; decimal coefficients such as 3e-7 are not exact in
            # binary64 (and lambdify prints 15 digits): judged by the oracle only
            continue
        # correspondence cases: the point itself, and the state after the parameter update
        c = coq_case(obs["inputs"], t, x, obs["sym"], obs["clo"], obs["rates"], obs["rhs"], obs.get("y0keys"), obs.get("clo_y0"))
        if c is None:
            skipped_inexact += 1
        else:
            coq_cases.append(c)
            coq_meta.append({"rep": rep, "stage": "initial", "sym": str(obs["sym"])[:200], "clo": str(obs["clo"])[:200]})
        if "upd" in obs and not c12_gen.has_static_computed_coefficient(desc):
            u = obs["upd"]
            c = coq_case(u["inputs"], t, x, u["sym"], u["clo"], u["rates"], u["rhs"])
            if c is None:
                skipped_inexact += 1
            else:
                coq_cases.append(c)
                coq_meta.append({"rep": rep, "stage": "after update_parameters", "sym": str(u["sym"])[:200], "clo": str(u["clo"])[:200]})

    # simulations
    sim_stats = run_sims(run, rng, 42 if thorough else 14, viol)
    run.coverage["simulations"] = sim_stats
    for method in ("BDF", "Radau"):
        if sim_stats["runs"] and not sim_stats["jacobian_calls"].get(method) and not viol:
            run.broken_correspondence.append(f"no {method} simulation called the Jacobian: the with/without comparison is vacuous")
    if sim_stats["runs"] and not sim_stats.get("surrogate_fallbacks") and not viol:
        run.broken_correspondence.append("no simulation of a model with a surrogate fell back to running without Jacobian: the fallback comparison is vacuous")
    if sim_stats["fallback_without_jacobian"] and not viol:
        run.broken_correspondence.append("a convertible shipped-library model was simulated without Jacobian although use_jacobian=True (lambdify/closure construction failed)")
    sim2_stats = run_sims2(run, common.rng_for(run.seed, "c12-sims2"), 18 if thorough else 6, viol)
    run.coverage["simulations_sign_branching_and_y0_key_order"] = sim2_stats
    if sim2_stats["runs"] and not viol:
        if not sim2_stats["jacobian_evaluations_checked"]:
            run.broken_correspondence.append("no Jacobian handed to an integrator was compared in the second round of simulations (sign-branching system, permuted y0 mappings): vacuous")
        if sim2_stats["fallback_without_jacobian"]:
            run.broken_correspondence.append("a translatable model of the second round (sign-branching system / permuted y0 mapping) was simulated without Jacobian although use_jacobian=True")

    sim3_stats = run_sims3(run, common.rng_for(run.seed, "c12-sims3"), 6 if thorough else 2, viol)
    run.coverage["simulations_unit_conversion_coefficients"] = sim3_stats
    if sim3_stats["runs"] and not viol:
        if not sim3_stats["jacobian_evaluations_checked"]:
            run.broken_correspondence.append("no Jacobian handed to an integrator was compared in the third round of simulations (unit-conversion coefficients): vacuous")
        if sim3_stats["fallback_without_jacobian"]:
            run.broken_correspondence.append("a translatable model of the third round (unit-conversion coefficients) was simulated without Jacobian although use_jacobian=True")
    run.coverage["input_distribution"] = {
        "model_kinds": kinds, "conversion_outcomes": outcomes, "closure_outcomes": clo_outcomes,
        "skipped_possibly_inexact": skipped_inexact, "correspondence_cases": len(coq_cases),
        "sign_branching_models_oracle_only": branch_stats, "y0_key_order": y0_stats,
        "unit_conversion_coefficient_models_oracle_only": tiny_stats,
    }
    if not viol:
        if not tiny_stats["nonzero_entries_below_1e-5"]:
            run.broken_correspondence.append("no model with unit-conversion sized coefficients had a non-zero right-hand side / Jacobian entry below 1e-5: the comparison at the expression's own scale is vacuous")
        if tiny_stats["magnitude_not_computable"]:
            run.broken_correspondence.append(f"the magnitude of the symbolic equations could not be computed on {tiny_stats['magnitude_not_computable']} polynomial model(s) (c12_oracle.absval)")
        if not branch_stats["negative_sign_argument_states"]:
            run.broken_correspondence.append("no sign-branching model was observed at a state with a negative entry: the comparison at negative states is vacuous")
        if not y0_stats["with_jacobian"]:
            run.broken_correspondence.append("no simulator constructed with a permuted y0 mapping had a Jacobian function: the key-order comparison is vacuous")

    # correspondence inside Coq
    per = 60
    files = {f"c12_{k:04d}": corr_file(list(chunk)) for k, chunk in enumerate(common.chunks(coq_cases, per))}
    ld_text, ld_inputs, ld_sympy_differs = limden_file(common.rng_for(run.seed, "c12-limden"), 300)
    res = common.coq_eval_many(AREA, {**files, "c12_limden": ld_text}, timeout_s=900)
    ok_ld, out_ld = res["c12_limden"]
    lists_ld = common.parse_eval_list(out_ld) if ok_ld else None
    ld = {"inputs": len(ld_inputs), "sympy_differs_from_cpython": ld_sympy_differs,
          "model_differs_from_cpython": (len(lists_ld[-1]) if lists_ld else "shard did not evaluate")}
    run.coverage["limit_denominator_model_vs_cpython"] = ld
    if ld["model_differs_from_cpython"] != 0 or ld_sympy_differs:
        # SymModel.limit_den is used by the REGRESSION fact StatRationalLimited only: on a tree whose static statement is
        # the shipped one a drift of this library model cannot make the property fail -- a note, not an alarm
        msg = f"the model of Fraction.limit_denominator (SymModel.limit_den) and CPython / SymPy disagree: {ld}" + (
            f"; first input {ld_inputs[lists_ld[-1][0]]}" if lists_ld and lists_ld[-1] else "")
        if facts.get("stat") == "StatRationalLimited":
            run.broken_correspondence.append(msg)
        else:
            run.note(msg)
    mism_total = 0
    for k, name in enumerate(sorted(files)):
        ok, out = res[name]
        lists = common.parse_eval_list(out) if ok else None
        if not ok or not lists:
            run.broken_correspondence.append(f"correspondence shard {name} did not evaluate: {out[-300:]}")
            continue
        for j in lists[-1]:
            mism_total += 1
            meta = coq_meta[k * per + j]
            if len(run.broken_correspondence) < 5:
                run.broken_correspondence.append(
                    f"model/implementation disagree ({meta['stage']}) on kind={meta['rep']['desc']['kind']} t={meta['rep']['t']} x={meta['rep']['x']} "
                    f"impl sym={meta['sym']} closure={meta['clo']} desc={json.dumps(meta['rep']['desc'])[:500]}"
                )
    run.coverage["traces_validated_against_impl"] = len(coq_cases) - mism_total
    run.coverage["correspondence_mismatches"] = mism_total

    # known finding
    kf = {f["id"]: f for f in common.load_known_findings("C12")}
    still, what = frozen_witness()
    if still:
        if "frozen-computed-coefficient" in kf:
            run.known("frozen-computed-coefficient", "parameter-only computed stoichiometric coefficient is frozen at conversion time: " + what)
        else:
            viol.append(("parameter-only computed coefficient frozen at conversion time (not listed as a known finding): " + what, {"kind": "frozen"}))
    elif known_hits and "frozen-computed-coefficient" in kf:
        pass
    if known_hits and "frozen-computed-coefficient" not in kf:
        viol.append((known_hits[0], {"kind": "frozen"}))
    # ... and through the simulator: construct, update_parameter, simulate
    signal.setitimer(signal.ITIMER_REAL, 120.0)
    try:
        still_sim, what_sim, calls_sim = frozen_sim_witness()
    except _Timeout:
        still_sim, what_sim, calls_sim = False, "no answer within 120 s", 0
        viol.append(("the construct / update_parameter / simulate history of the frozen-coefficient witness gave no answer within 120 s", {"kind": "frozen-sim"}))
    finally:
        signal.setitimer(signal.ITIMER_REAL, 0)
    run.coverage["frozen_coefficient_simulator_history"] = {"still_failing": still_sim, "jacobian_calls": calls_sim}
    run.count_case(("frozen-sim",), nontrivial=calls_sim > 0)
    if still_sim:
        if "frozen-computed-coefficient" in kf:
            run.known("frozen-computed-coefficient", "seen through the simulator: " + what_sim)
        else:
            viol.append((what_sim, {"kind": "frozen-sim"}))
    run.coverage["known_finding_hits_in_generated_cases"] = len(known_hits)

    for what_, rep in viol[:6]:
        run.violation(what_, rep)
    if not proofs_ok:
        run.note("proof obligations broken; the oracle searched the generated models and simulations for a concrete failing input")


# ---------------------------------------------------------------------------------------
# replay
# ---------------------------------------------------------------------------------------


def replay(rep: dict) -> int:
    r = rep.get("replay", {})
    common.quiet_impl_logging()
    if r.get("kind") == "case":
        desc = desc_from_json(r["desc"])
        p2 = {int(k): v for k, v in r.get("p2", {}).items()} or None
        obs = observe(desc, r["t"], r["x"], p2, r.get("y0perm"))
        bad, known = judge(desc, obs)
        if c12_gen.is_tiny(desc):
            bad = judge_tiny(desc, obs)[0] + bad
        print("conversion:", str(obs["sym"])[:400])
        print("closure:", str(obs["clo"])[:400])
        if "clo_y0" in obs:
            print("closure of a simulator with y0 keys", obs["y0keys"], ":", str(obs["clo_y0"])[:400])
        for b in bad:
            print("VIOLATES:", b)
        for k in known:
            print("known finding:", k)
        if not bad:
            print("property holds on this input")
        return 1 if bad else 0
    if r.get("kind") == "sim":
        o = sim_compare(r["family"], r["model_seed"], r["method"], r["t_end"], r.get("y0_order"))
        print(o)
        if o["violation"]:
            print("VIOLATES:", o["violation"])
        else:
            print("property holds on this input")
        return 1 if o["violation"] else 0
    if r.get("kind") == "frozen":
        still, what = frozen_witness()
        print(what)
        return 1 if still else 0
    if r.get("kind") == "frozen-sim":
        still, what, _ = frozen_sim_witness()
        print(what)
        return 1 if still else 0
    print("nothing to replay: ", rep.get("what"))
    return 1
