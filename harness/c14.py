"""C14 -- protocols: each step's parameter values hold exactly over its interval.  See harness/c04_sim.py."""

from __future__ import annotations

from fractions import Fraction as F

from harness import c04_sim as S
from harness import common
from harness.common import Run

AREA = S.AREA
PROPS = "PropsC14.v"
PROP = "C14"


def gen() -> dict[str, str]:
    return S.gen()


def oracle_protocols(h: dict, r: dict) -> list[dict]:
    return []


def check(run: Run) -> None:
    facts = gen()
    run.coverage["gen_facts"] = facts
    proofs_ok = run.check_proofs(AREA, PROPS)
    run.assumptions += S.ASSUMPTIONS
    S.run_all(run, PROP, [], proofs_ok)


def replay(rep: dict) -> int:
    return S.replay(rep, PROP)
