"""C14 -- protocols: each step's parameter values hold exactly over its interval.

Shares the model, extractor, drivers and the history oracle with C04 (harness/c04_sim.py); adds the
protocol-specific oracle:
  (a) a protocol call equals the MANUAL sequence update_parameters(step i) ; simulate(start + T_i) /
      simulate_time_course(points of the union in (T_(i-1), T_i]) replayed on a second real Simulator;
  (b) the time-course axis is exactly {start} + requested points inside the protocol + boundaries, each once,
      and raw_parameters of every step's segment are that step's values (judged by c04_sim.oracle_history);
  (c) the fluxes reported for a segment are the rate laws evaluated with THAT segment's parameter values.
"""

from __future__ import annotations

from fractions import Fraction as F

from harness import c04_sim as S
from harness import common
from harness.common import Run

AREA = S.AREA
PROPS = "PropsC14.v"
PROP = "C14"

CORPUS: list[dict] = [
    {"mode": "exact", "y0": ["1", "1"], "p0": ["1", "1/2", "0", "0"],
     "ops": [["prot", [["1", {"k": "2"}], ["2", {"k": "1/2"}], ["1/2", {"k": "0"}]], 2]]},
    {"mode": "exact", "y0": ["1", "1"], "p0": ["1", "1/2", "0", "0"],
     "ops": [["sim", "2", 2], ["updvar", {"y": "0"}], ["prot", [["1", {"k": "2"}], ["2", {"k": "1/2"}]], 4],
             ["ptc", [["1", {"k": "2"}], ["2", {"k": "1/2"}], ["1/2", {"k": "0"}]], ["1/2", "1", "9/4", "3", "7/2", "9"], True]]},
    # protocols continuing after an override with a rate law that reads `time` (fixes/C04-override-time.diff)
    {"mode": "exact", "y0": ["1", "1"], "p0": ["1", "1/2", "1", "0"],
     "ops": [["sim", "2", 2], ["updvar", {"x": "0"}], ["prot", [["1", {"k": "2"}], ["2", {"k": "1/2"}]], 2]]},
    {"mode": "exact", "y0": ["1", "1"], "p0": ["1", "0", "1/2", "0"],
     "ops": [["tc", ["1", "2"]], ["updvar", {"y": "2"}], ["ptc", [["1", {"k": "2"}], ["1", {"k": "1/2"}]], ["1/2", "1", "3/2"], True]]},
    {"mode": "scipy", "y0": ["2", "1"], "p0": ["1", "1/2"],
     "ops": [["ptc", [["1", {"k": "2"}], ["1", {"k": "0"}], ["1", {"k": "1/2"}]], ["0", "1/2", "1", "3/2", "5/2", "3", "4"], False]]},
    {"mode": "scipy", "y0": ["2", "1"], "p0": ["1", "1/2"],
     "ops": [["tc", ["1", "2"]], ["ptc", [["1", {"k": "2"}], ["1", {"k": "0"}]], ["5/2", "3", "7/2"], False], ["sim", "5", 2]]},
    # repeated cycles, every call handed the SAME float64 ndarray of relative time points (seeded/C14-2)
    {"mode": "exact", "y0": ["1", "1"], "p0": ["1", "1/2", "0", "0"],
     "ops": [["sim", "2", 2],
             ["ptc", [["1", {"k": "2"}], ["2", {"k": "1/2"}]], ["1/2", "1", "9/4", "3"], True, 0],
             ["ptc", [["1", {"k": "2"}], ["2", {"k": "1/2"}]], ["1/2", "1", "9/4", "3"], True, 0]]},
    {"mode": "scipy", "y0": ["2", "1"], "p0": ["1", "1/2"],
     "ops": [["ptc", [["1", {"k": "1"}], ["2", {"k": "2"}], ["3", {"k": "1/2"}]], ["1/2", "1", "9/4", "4", "11/2", "7"], True, 0],
             ["ptc", [["1", {"k": "1"}], ["2", {"k": "2"}], ["3", {"k": "1/2"}]], ["1/2", "1", "9/4", "4", "11/2", "7"], True, 0],
             ["ptc", [["1", {"k": "1"}], ["2", {"k": "2"}], ["3", {"k": "1/2"}]], ["1/2", "1", "9/4", "4", "11/2", "7"], True, 0]]},
    # protocol continuing after an override at a time-dependent rate on the real solver
    {"mode": "tdep", "y0": ["2", "1"], "p0": ["1/2", "1"],
     "ops": [["sim", "1", 2], ["updvar", {"y": "0"}], ["prot", [["1", {"k": "1"}], ["1/2", {"k": "1/4"}]], 2],
             ["ptc", [["1", {"k": "2"}], ["1", {"k": "1/2"}]], ["1/2", "1", "3/2"], True]]},
    # dense sampling right after a switch, late in absolute time (seeded/C14-4): requested points 2^-8 / 2^-9 after an inner
    # boundary of a protocol with long steps; a simulator continued at t = 2048 and a relative grid starting at 2^-7
    {"mode": "exact", "y0": ["1", "1"], "p0": ["1", "1/2", "0", "0"],
     "ops": [["ptc", [["1024", {"k": "2"}], ["1024", {"k": "1/2"}], ["512", {"k": "0"}]],
              ["512", "262145/256", "2049/2", "1536", "1048577/512", "2304"], False]]},
    {"mode": "scipy", "y0": ["2", "1"], "p0": ["1", "1/2"],
     "ops": [["ptc", [["1024", {"k": "2"}], ["1024", {"k": "1/2"}], ["512", {"k": "0"}]],
              ["512", "262145/256", "2049/2", "1536", "1048577/512", "2304"], False]]},
    {"mode": "exact", "y0": ["1", "1"], "p0": ["1", "1/2", "1/2", "0"],
     "ops": [["sim", "2048", 4], ["ptc", [["128", {"k": "2"}], ["256", {"k": "1/2"}]], ["1/128", "64", "16385/128", "384"], True]]},
    # regression of the repaired defect protocol-start-rounded-to-ns (/repo ad9e406): a start that is not a whole number of ns
    {"mode": "exact", "y0": ["1", "1"], "p0": ["1", "1/2", "0", "0"],
     "ops": [["sim", "1/1024", 1], ["ptc", [["1", {"k": "2"}]], ["1/2", "1"], True]]},
    {"mode": "scipy", "y0": ["2", "1"], "p0": ["1", "1/2"],
     "ops": [["sim", "1/1024", 1], ["ptc", [["1", {"k": "2"}]], ["1/2", "1"], True]]},
    # steps that are the same kind of mapping written in DIFFERENT KEY ORDERS (seeded/C14-8: rows of the table built from
    # list(pars.values()) under the first step's key order): the demo's shape with dyadic numbers, both protocol forms,
    # exact stand-in and real scipy; a continued simulator; three parameters rotated
    {"mode": "exact", "y0": ["1", "1"], "p0": ["1", "0", "0", "0"],
     "ops": [["prot", [["1", {"k": "2", "c": "1/2"}], ["1/2", {"c": "3", "k": "1/4"}]], 1]]},
    {"mode": "exact", "y0": ["1", "1"], "p0": ["1", "0", "0", "0"],
     "ops": [["ptc", [["1", {"k": "2", "c": "1/2"}], ["1/2", {"c": "3", "k": "1/4"}], ["2", {"k": "4", "c": "1"}], ["3/2", {"c": "1/8", "k": "3"}]],
              ["1/2", "5/4", "3", "4", "5"], False]]},
    {"mode": "scipy", "y0": ["2", "1"], "p0": ["1", "1/2"],
     "ops": [["prot", [["1", {"k": "2", "c": "1/2"}], ["1/2", {"c": "3", "k": "1/4"}], ["2", {"k": "4", "c": "1"}], ["3/2", {"c": "1/8", "k": "3"}]], 1]]},
    {"mode": "scipy", "y0": ["2", "1"], "p0": ["1", "1/2"],
     "ops": [["sim", "2", 2], ["ptc", [["1", {"c": "1", "k": "1/4"}], ["1", {"k": "2", "c": "0"}]], ["1/2", "1", "3/2", "2"], True]]},
    {"mode": "exact", "y0": ["1", "1"], "p0": ["1", "1/2", "0", "0"],
     "ops": [["sim", "2", 2], ["updvar", {"y": "0"}],
             ["prot", [["1", {"a": "1", "k": "2", "c": "1/2"}], ["2", {"k": "1/2", "c": "1", "a": "0"}], ["1/2", {"c": "0", "a": "1/2", "k": "4"}]], 2]]},
]


def gen() -> dict[str, str]:
    return S.gen()


def _manual_ops(op: list, start: F) -> list:
    """the sequence a user would issue by hand instead of the protocol call"""
    steps = op[1]
    ends, acc = [], start
    for d, _ in steps:
        acc += S.fr(d)
        ends.append(acc)
    out = []
    if op[0] == "prot":
        for (_, u), e in zip(steps, ends):
            out += [["updpar", u], ["sim", S.js(e), op[2]]]
        return out
    pts = [S.fr(t) for t in op[2]]
    if op[3]:
        pts = [t + start for t in pts]
    union = sorted(set(pts) | set(ends))
    a = start
    for (_, u), e in zip(steps, ends):
        out += [["updpar", u], ["tc", [S.js(t) for t in union if a < t <= e]]]
        a = e
    return out


def _same(mode: str, a, b) -> bool:  # noqa: ANN001
    if a is None or b is None:
        return a is b
    if len(a) != len(b):
        return False
    for sa, sb in zip(a, b):
        if len(sa) != len(sb):
            return False
        for ra, rb in zip(sa, sb):
            if ra[0] != rb[0]:
                return False
            for va, vb in zip(ra[1:], rb[1:]):
                if mode == "exact":
                    if va != vb:
                        return False
                elif abs(float(va) - float(vb)) > 1e-9 + 1e-9 * abs(float(vb)):
                    return False
    return True


def oracle_protocols(h: dict, r: dict) -> list[dict]:
    bad: list[dict] = []
    obs = r["obs"]
    mode = h["mode"]
    # (a) protocol == manual sequence
    manual: list = []
    marks: list[tuple[int, int]] = []  # (index in h of the protocol op, index in manual history of its last op)
    legal = True
    for i, op in enumerate(h["ops"]):
        if op[0] in ("prot", "ptc") and obs[i]["out"] == "done" and obs[i]["err"] == "none" and legal:
            prev = obs[i - 1]["segs"] if i else None
            nonempty = [s for s in (prev or []) if s]
            start = S.fr(nonempty[-1][-1][0]) if nonempty else F(0)
            if op[0] == "ptc":
                pts = [S.fr(t) + (start if op[3] else 0) for t in op[2]]
                if not S._incr(pts):
                    manual.append(op)
                    continue
            manual += _manual_ops(op, start)
            marks.append((i, len(manual) - 1))
        else:
            manual.append(op)
    if marks:
        r2 = S.run_history(mode, h["y0"], h["p0"], manual)
        if r2["discard"] is None:
            for i, j in marks:
                o1, o2 = obs[i], r2["obs"][j]
                if not _same(mode, o1["segs"], o2["segs"]) or o1["pars"] != o2["pars"] or o1["model_pars"] != o2["model_pars"]:
                    bad.append({"op": i, "tags": [], "what": "the protocol call and the manual sequence update_parameters;simulate per step give different results: "
                                f"index {[[x[0] for x in s] for s in o1['segs'] or []]} vs {[[x[0] for x in s] for s in o2['segs'] or []]}, "
                                f"parameters {o1['pars']} vs {o2['pars']}"})
    # (c) fluxes inside a step use that step's values
    fl = r.get("fluxes")
    if fl and obs and obs[-1]["segs"] is not None and obs[-1]["pars"] is not None:
        segs, pars = obs[-1]["segs"], obs[-1]["pars"]
        for k, (seg, p, cols, rows) in enumerate(zip(segs, pars, fl["columns"], fl["rows"])):
            pv = {a: float(S.fr(b)) for a, b in p.items()}
            for srow, frow in zip(seg, rows):
                t = float(S.fr(srow[0]))
                x, y = float(S.fr(srow[1])) if mode == "exact" else srow[1], float(S.fr(srow[2])) if mode == "exact" else srow[2]
                exp = S.expected_fluxes(mode, pv, t, x, y)
                got = dict(zip(cols, frow[1:]))
                if srow[0] != frow[0] or any(abs(got.get(n, float("nan")) - e) > 1e-12 + 1e-9 * abs(e) for n, e in exp.items()):
                    bad.append({"op": len(obs) - 1, "tags": [], "what": f"fluxes of segment #{k} at t={srow[0]} are {got}, but the rate laws with that "
                                f"segment's parameter values {p} give {exp}"})
                    break
            if bad:
                break
    return bad


def histories(run: Run) -> list[dict]:
    thorough = run.tier == "thorough"
    rng = common.rng_for(run.seed, "c14")
    w = {"sim": 12, "tc": 8, "prot": 30, "ptc": 36, "steady": 0, "updpar": 5, "updvar": 10, "clear": 3}
    hs = list(CORPUS)
    n_exact, n_scipy, n_tdep, n_shared = (1800, 700, 200, 240) if thorough else (300, 130, 30, 40)
    for _ in range(n_exact):
        hs.append(S.gen_history(rng, "exact", 4, weights=w, special=False))
    for _ in range(n_scipy):
        hs.append(S.gen_history(rng, "scipy", 4, weights=w, special=False))
    for _ in range(n_tdep):
        hs.append(S.gen_history(rng, "tdep", 4, weights=w, special=False))
    for j in range(n_shared):
        hs.append(S.gen_shared_grid(rng, "exact" if j % 3 else "scipy"))
    # dense sampling right after a switch at late absolute times -- own stream, so the histories above are what they were
    rng_late = common.rng_for(run.seed, "c14-late")
    for j in range(450 if thorough else 72):
        hs.append(S.gen_late_switch(rng_late, "exact" if j % 3 else "scipy"))
    # steps written in different key orders -- own stream again
    rng_keys = common.rng_for(run.seed, "c14-keys")
    for j in range(360 if thorough else 60):
        hs.append(S.gen_key_order(rng_keys, "exact" if j % 3 else "scipy"))
    return [h for h in hs if any(op[0] in ("prot", "ptc") for op in h["ops"])]


def check(run: Run) -> None:
    facts = gen()
    run.coverage["gen_facts"] = facts
    run.rule = (
        "histories of 1-4 operations containing at least one simulate_protocol / simulate_protocol_time_course call (1-5 steps, "
        "unequal dyadic durations, one or two parameters, repeated values; grids coinciding with / between / beyond the boundaries, "
        "before the start, relative or absolute), fresh or continuing earlier simulate / time-course calls, overrides and other protocols; "
        "real Simulator + real Scipy class on the exact stand-in solver (x'=k*y, y'=c: the state depends on WHEN k switches) and on the "
        "real scipy (x'=-k*x, y'=k*x-c*y; x'=-k*time*x, y'=c*time-k*y); ~20% of the grids are caller-owned float64 ndarrays and a family of "
        "repeated cycles hands the SAME ndarray of (mostly relative) points to 2-3 consecutive calls: the array must be unchanged after "
        "each call and each call's axis is judged; a family of protocol time courses late in absolute time (simulator continued at "
        "t = 512..4096, or steps lasting 512..2048) whose grids hold points 2^-7..2^-9 after the START of a step (the protocol's start or "
        "an inner boundary), the boundary itself, points just before it: the row boundary + gap must exist and hold the solution after "
        "`gap` under the new step's values; a family of protocols over two or three parameters whose steps are the same kind of "
        "mapping written in DIFFERENT KEY ORDERS ({k:.., c:..} then {c:.., k:..}; k != c inside a step): each step's mapping must "
        "govern its interval whatever order it was written in (recorded parameters, values, fluxes, manual sequence); non-trivial = >= 2 steps or a continued simulator; distinct by content"
    )
    proofs_ok = run.check_proofs(AREA, PROPS)
    run.assumptions += S.ASSUMPTIONS
    S.run_all(run, PROP, histories(run), proofs_ok)


def replay(rep: dict) -> int:
    return S.replay(rep, PROP)
