"""Mutations of the C01 / C13 mechanism added in the closing round (development self-test).  Usage (cwd = scratch copy of
/repo, done by tools/mutate.sh):   MUTNAME=<name> tools/mutate.sh C01|C13 /verif/harness/c01_mutations.py"""
import os
import sys
from pathlib import Path

MODEL = "src/mxlpy/model.py"
M = {
    # edit (b) of seeded C01-9 alone: a data set exchanged without rebuilding the cache (wrong for assignments reading data)
    "update_data_keeps_cache": (MODEL, "    @_invalidate_cache\n    def update_data(", "    def update_data("),
    # edit (a) alone: data sets count as static names (cache still rebuilt): classification / table order change only
    "data_counts_as_static": (MODEL, "all_parameter_names = set(parameter_names)  # later include static derived",
                              "all_parameter_names = parameter_names | set(self._data)"),
    # both = seeded C01-9
    "seeded_c01_9": [
        (MODEL, "    @_invalidate_cache\n    def update_data(", "    def update_data("),
        (MODEL, "all_parameter_names = set(parameter_names)  # later include static derived",
         "all_parameter_names = parameter_names | set(self._data)"),
    ],
    # update_data writes a copy of the container dict entry but invalidates AFTER the write was skipped for equal keys:
    # stale data object kept when the new value compares equal to the old one (no effect on values -> equivalent)
    # assignment-defined PARAMETERS evaluated a second time when all_parameter_values is filled (sibling of seeded C13-8)
    "assigned_parameters_again": (MODEL, "                all_parameter_values[name] = cast(float, dependent[name])",
                                  "                all_parameter_values[name] = cast(float, initial_assignments[name].calculate(dependent) if name in initial_assignments else dependent[name])"),
    # the time-zero pass run twice (values consistent among themselves, every assignment evaluated twice)
    "pass_twice": (MODEL, "        for name in order:\n            to_sort[name].calculate_inpl(name, dependent)\n",
                   "        for _ in range(2):\n            for name in order:\n                to_sort[name].calculate_inpl(name, dependent)\n"),
    # seeded C13-8 written differently: only assignment-defined VARIABLES re-evaluated, through the Variable objects
    "initial_conditions_again": (MODEL, "            k: cast(float, dependent[k]) for k in self._variables\n",
                                 "            k: cast(float, v.initial_value.calculate(dependent) if isinstance(v.initial_value, InitialAssignment) else dependent[k]) for k, v in self._variables.items()\n"),
}
name = os.environ.get("MUTNAME", "")
if name not in M:
    sys.exit(f"MUTNAME must be one of {sorted(M)}")
edits = M[name] if isinstance(M[name], list) else [M[name]]
for f, old, new in edits:
    p = Path(f)
    s = p.read_text()
    if s.count(old) != 1:
        sys.exit(f"{name}: pattern occurs {s.count(old)} times in {f}")
    p.write_text(s.replace(old, new))
    print(f"mutation {name} applied to {f}")
