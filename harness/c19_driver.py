"""C19 fault-injection driver.  Runs in its OWN interpreter (started by harness/c19.py with
sys.executable) and forks one child per scenario, so that the child can die (os._exit / SIGKILL)
at a chosen instant of a caching run without taking the harness with it.

    python -m harness.c19_driver JOB.json   ->  prints one JSON document (list of scenario reports)

The implementation is driven ONLY through its public entry points
(`mxlpy.parallel.parallelise`, `mxlpy.scan.steady_state/time_course`); the instants at which a
process can die are made observable by wrapping the OS-facing primitives the cache code may use
(`io.open`/`builtins.open` as used by `Path.open`, `os.replace/rename/unlink/mkdir/open/write/fsync/link/
sendfile/copy_file_range/truncate`)
for paths under the scenario's cache directory only.  The wrappers are protocol agnostic: they know
nothing about how `_pickle_save` is written.  Files opened for writing are opened UNBUFFERED, so the
bytes on disk at the crash instant are exactly the bytes written so far; a scenario with
"buffered": true instead keeps written bytes in a user-space buffer until flush()/close() (what
io.BufferedWriter does for payloads below its buffer size), so a process dying between a write and the
close leaves NONE of them in the file -- the two modes bracket what a real interpreter can leave behind.

Scenario kinds: "scan_life" (scan.steady_state several times with one Cache object, the directory wiped between),
"map" (one parallelise call; option "codec": a user supplied (name_fn, save_fn, load_fn) triple from
CODECS instead of the default pickle functions), "scan_ss"/"scan_tc", and "session": several parallelise calls in ONE
process with ONE Cache object (per call: the value, the inputs fn was evaluated on, the directory afterwards).

A crash plan  {"match": prefix, "event": i, "byte": j, "action": "exit"|"killpg"}  means: in the
process whose i-th event on a path (relative to the cache dir) starting with `prefix` is reached,
die before performing it (j = 0), or -- for a write of n bytes -- after its first j bytes (0<j<n).
"""

from __future__ import annotations

import builtins
import io
import json
import os
import signal
import sys
import time
from pathlib import Path

_real_open = io.open
_os_open = os.open
_os_write = os.write
_os_close = os.close
_os_replace = os.replace
_os_rename = os.rename
_os_unlink = os.unlink
_os_remove = os.remove
_os_mkdir = os.mkdir
_os_fsync = os.fsync
_os_link = os.link
_os_sendfile = getattr(os, "sendfile", None)
_os_cfr = getattr(os, "copy_file_range", None)
_os_truncate = os.truncate
_os_ftruncate = os.ftruncate

CACHE_DIR: str | None = None
PLAN: dict | None = None
EVLOG: str | None = None
CALLLOG: str | None = None
RECLOG: str | None = None  # side log of the "recording" custom save_fn/load_fn (which file name they were handed)
COUNTER = [0]
BUFFERED = [False]  # scenario option: writes stay in a user-space buffer until flush/close (as io.BufferedWriter does)


def _raw_append(path: str, line: str) -> None:
    fd = _os_open(path, os.O_WRONLY | os.O_APPEND | os.O_CREAT, 0o644)
    try:
        _os_write(fd, line.encode())
    finally:
        _os_close(fd)


def _rel(path) -> str | None:
    """path relative to the cache dir ('' for the directory itself), None if outside / unknown"""
    if CACHE_DIR is None:
        return None
    try:
        if isinstance(path, int):
            s = os.readlink(f"/proc/self/fd/{path}")
        else:
            s = os.path.abspath(os.fspath(path))
    except Exception:  # noqa: BLE001
        return None
    if isinstance(s, bytes):
        s = s.decode(errors="replace")
    if s == CACHE_DIR:
        return ""
    if s.startswith(CACHE_DIR + os.sep):
        return s[len(CACHE_DIR) + 1 :]
    return None


def _crash() -> None:
    if PLAN and PLAN.get("action") == "killpg":
        os.killpg(os.getpgrp(), signal.SIGKILL)
        time.sleep(5)
    os._exit(77)


def _event(kind: str, rel: str, nbytes: int = 0, extra: str = "") -> int | None:
    """Log the event; die here if the plan says so.  For a write: return j if only the first j
    bytes may be written before dying, else None."""
    if EVLOG:
        _raw_append(EVLOG, json.dumps({"pid": os.getpid(), "kind": kind, "path": rel, "n": nbytes, "x": extra}) + "\n")
    if PLAN is not None and rel.startswith(PLAN["match"]):
        idx = COUNTER[0]
        COUNTER[0] += 1
        if idx == PLAN["event"]:
            j = int(PLAN.get("byte", 0))
            if kind == "write" and 0 < j < nbytes:
                return j
            _crash()
    return None


class _FileProxy:
    """write-side proxy around an unbuffered binary file"""

    def __init__(self, raw, rel: str) -> None:
        self._raw = raw
        self._rel = rel
        self._buf = bytearray() if BUFFERED[0] else None

    def write(self, data) -> int:
        b = bytes(data)
        j = _event("write", self._rel, len(b))
        if self._buf is not None:
            # buffered mode: nothing reaches the file before flush/close, whatever part was "written"
            if j is not None:
                _crash()
            self._buf += b
            return len(b)
        if j is not None:
            self._write_all(b[:j])
            _crash()
        self._write_all(b)
        return len(b)

    def _write_all(self, b: bytes) -> None:
        mv = memoryview(b)
        while len(mv):
            n = self._raw.write(mv)
            mv = mv[n or 0 :]

    def close(self) -> None:
        if not self._raw.closed:
            _event("close", self._rel)
            self._drain()
            self._raw.close()

    def _drain(self) -> None:
        if self._buf:
            self._write_all(bytes(self._buf))
            self._buf.clear()

    def flush(self) -> None:
        self._drain()
        self._raw.flush()

    def __enter__(self):
        return self

    def __exit__(self, *a):
        self.close()
        return False

    def __getattr__(self, k):
        return getattr(self._raw, k)


def _open(file, mode="r", buffering=-1, encoding=None, errors=None, newline=None, closefd=True, opener=None):
    rel = _rel(file)
    writing = any(c in mode for c in "wax+")
    if rel is None or not writing:
        return _real_open(file, mode, buffering, encoding, errors, newline, closefd, opener)
    _event("open", rel, 0, mode)
    if "b" not in mode:
        # text mode is not used by the cache code; instrument creation only
        return _real_open(file, mode, buffering, encoding, errors, newline, closefd, opener)
    raw = _real_open(file, mode, 0, None, None, None, closefd, opener)
    return _FileProxy(raw, rel)


def _replace(src, dst, **kw):
    rs, rd = _rel(src), _rel(dst)
    if rd is not None or rs is not None:
        _event("replace", rs if rs is not None else "<outside>", 0, rd if rd is not None else "<outside>")
    return _os_replace(src, dst, **kw)


def _rename(src, dst, **kw):
    rs, rd = _rel(src), _rel(dst)
    if rd is not None or rs is not None:
        _event("replace", rs if rs is not None else "<outside>", 0, rd if rd is not None else "<outside>")
    return _os_rename(src, dst, **kw)


def _unlink(path, **kw):
    r = _rel(path)
    if r is not None:
        _event("unlink", r)
    return _os_unlink(path, **kw)


def _mkdir(path, *a, **kw):
    r = _rel(path)
    if r is not None:
        _event("mkdir", r)
    return _os_mkdir(path, *a, **kw)


def _osopen(path, flags, *a, **kw):
    r = _rel(path)
    if r is not None and flags & (os.O_CREAT | os.O_TRUNC | os.O_WRONLY | os.O_RDWR):
        _event("osopen", r)
    return _os_open(path, flags, *a, **kw)


def _fsync(fd):
    r = _rel(fd)
    if r is not None:
        _event("fsync", r)
    return _os_fsync(fd)


def _link(src, dst, **kw):
    rd = _rel(dst)
    if rd is not None:
        _event("link", _rel(src) or "<outside>", 0, rd)
    return _os_link(src, dst, **kw)


def _sendfile(out_fd, in_fd, *a, **kw):
    r = _rel(out_fd)
    if r is not None:
        _event("sendfile", r)
    return _os_sendfile(out_fd, in_fd, *a, **kw)


def _cfr(src, dst, *a, **kw):
    r = _rel(dst)
    if r is not None:
        _event("sendfile", r)
    return _os_cfr(src, dst, *a, **kw)


def _oswrite(fd, data):
    r = _rel(fd)
    if r is not None:
        b = bytes(data)
        j = _event("write", r, len(b))
        if j is not None:
            _os_write(fd, b[:j])
            _crash()
    return _os_write(fd, data)


def _truncate(path, length):
    r = _rel(path)
    if r is not None:
        _event("truncate", r)
    return _os_truncate(path, length)


def _ftruncate(fd, length):
    r = _rel(fd)
    if r is not None:
        _event("truncate", r)
    return _os_ftruncate(fd, length)


def install() -> None:
    io.open = _open
    builtins.open = _open
    os.replace = _replace
    os.rename = _rename
    os.unlink = _unlink
    os.remove = _unlink
    os.mkdir = _mkdir
    os.open = _osopen
    os.fsync = _fsync
    os.link = _link
    os.write = _oswrite
    os.truncate = _truncate
    os.ftruncate = _ftruncate
    if _os_sendfile is not None:
        os.sendfile = _sendfile
    if _os_cfr is not None:
        os.copy_file_range = _cfr


# ---------------------------------------------------------------------------------------
# the computations whose results are cached (module level: picklable for the pebble pool)
# ---------------------------------------------------------------------------------------


def _log_call(tag) -> None:
    if CALLLOG:
        _raw_append(CALLLOG, f"{tag}\n")


def fn_sq(x):
    _log_call(x)
    return x * x


def fn_affine(x):
    _log_call(x)
    return 3 * x + 1


def fn_tup(x):
    _log_call(x)
    return (x, x + 1)


def fn_dict(x):
    _log_call(x)
    return {"v": x, "sq": x * x}


def fn_text(x):
    _log_call(x)
    return "r" * (x % 7) + str(x)


def fn_frame(x):
    """a small pandas frame with exactly representable entries (for the pandas to_pickle/read_pickle pair)"""
    import pandas as pd

    _log_call(x)
    return pd.DataFrame({"t": [0.0, 0.5, 1.0], "y": [float(x), x * 0.5, x * 0.25]})


def fn_maybe(x):
    """'no result' reported as None (legal: Tout is unconstrained)"""
    _log_call(x)
    return None if x % 3 == 0 else x * x


def fn_falsy(x):
    """results that are None / falsy: a cache must store and return them like any other result"""
    _log_call(x)
    return [None, 0, "", (), False, 0.0, x][x % 7]


FNS = {"maybe": fn_maybe, "falsy": fn_falsy, "sq": fn_sq, "affine": fn_affine, "tup": fn_tup, "dict": fn_dict, "text": fn_text, "frame": fn_frame}


# ---------------------------------------------------------------------------------------
# user supplied (name_fn, save_fn, load_fn) triples for Cache (module level: picklable for the pool).
# They write STRAIGHT into the path they are handed (atomicity of a custom save_fn is the user's business:
# no kill scenarios for them); what is checked is the contract of the pluggable triple: load_fn gets
# exactly the file name save_fn was handed for that key.
# ---------------------------------------------------------------------------------------


def gz_name(k) -> str:
    return f"{k!r}.pkl.gz"


def plain_name(k) -> str:
    return f"{k!r}.pkl"


def sfx_save(file, data) -> None:
    """format chosen from the SUFFIX of the name it is handed (as pandas/numpy writers do)"""
    import gzip
    import pickle

    b = pickle.dumps(data)
    if str(file).endswith(".gz"):
        b = gzip.compress(b, mtime=0)
    with open(file, "wb") as fp:
        fp.write(b)


def sfx_load(file):
    import gzip
    import pickle

    with open(file, "rb") as fp:
        b = fp.read()
    if str(file).endswith(".gz"):
        b = gzip.decompress(b)
    return pickle.loads(b)  # noqa: S301


def pd_save(file, df) -> None:
    df.to_pickle(file)  # compression inferred from the name


def pd_load(file):
    import pandas as pd

    return pd.read_pickle(file)  # noqa: S301  compression inferred from the name


def rec_name(k) -> str:
    return f"r_{k!r}.rec"


def _rec(op: str, file) -> None:
    if RECLOG:
        _raw_append(RECLOG, json.dumps({"op": op, "name": os.path.basename(str(file)), "dir": os.path.dirname(os.path.abspath(str(file)))}) + "\n")


def rec_save(file, data) -> None:
    import pickle

    _rec("save", file)
    with open(file, "wb") as fp:
        pickle.dump(data, fp)


def rec_load(file):
    import pickle

    _rec("load", file)
    with open(file, "rb") as fp:
        return pickle.load(fp)  # noqa: S301


def stamp_name(k) -> str:
    return f"{k!r}.stamped"


def stamp_save(file, data) -> None:
    """stores the name it was handed next to the data"""
    import pickle

    with open(file, "wb") as fp:
        pickle.dump((os.path.basename(str(file)), data), fp)


def stamp_load(file):
    import pickle

    with open(file, "rb") as fp:
        name, data = pickle.load(fp)  # noqa: S301
    if name != os.path.basename(str(file)):
        raise ValueError(f"file {os.path.basename(str(file))!r} was written under the name {name!r}")
    return data


CODECS = {
    "gz-suffix": (gz_name, sfx_save, sfx_load),
    "plain-suffix": (plain_name, sfx_save, sfx_load),
    "pandas-gz": (gz_name, pd_save, pd_load),
    "recording": (rec_name, rec_save, rec_load),
    "stamped": (stamp_name, stamp_save, stamp_load),
}


def make_cache(sc: dict):
    from mxlpy.parallel import Cache

    if not sc.get("use_cache", True):
        return None
    d = Path(sc["cache_dir"])
    if sc.get("codec"):
        name_fn, save_fn, load_fn = CODECS[sc["codec"]]
        return Cache(tmp_dir=d, name_fn=name_fn, load_fn=load_fn, save_fn=save_fn)
    return Cache(tmp_dir=d)


def dec_key(k):
    t, v = k["t"], k["v"]
    if t == "int":
        return int(v)
    if t == "str":
        return str(v)
    if t == "float":
        return float(v)
    if t == "bool":
        return bool(v)
    if t == "tuple":
        return tuple(dec_key(x) for x in v)
    if t == "none":
        return None
    raise ValueError(t)


def enc_key(k):
    if k is None:
        return {"t": "none", "v": None}
    if isinstance(k, bool):
        return {"t": "bool", "v": k}
    if isinstance(k, int):
        return {"t": "int", "v": int(k)}
    if isinstance(k, float):
        return {"t": "float", "v": k}
    if isinstance(k, str):
        return {"t": "str", "v": k}
    if isinstance(k, tuple):
        return {"t": "tuple", "v": [enc_key(x) for x in k]}
    return {"t": "other", "v": repr(k)}


def canon(v):
    if isinstance(v, tuple):
        return {"tuple": [canon(x) for x in v]}
    if isinstance(v, list):
        return [canon(x) for x in v]
    if isinstance(v, dict):
        return {"dict": [[str(a), canon(b)] for a, b in sorted(v.items(), key=lambda kv: str(kv[0]))]}
    if isinstance(v, float):
        return {"float": v.hex()}
    if type(v).__name__ == "DataFrame":
        return {"frame": _frame(v)}
    return v


def _scan_model(sc):
    from mxlpy import Model, fns

    m = (
        Model()
        .add_variables({"x": 1.0, "y": 0.5})
        .add_parameters({"k1": 1.0, "k2": 2.0, "k3": 1.0})
        .add_reaction("v1", fn=fns.constant, args=["k1"], stoichiometry={"x": 1})
        .add_reaction("v2", fn=fns.mass_action_1s, args=["x", "k2"], stoichiometry={"x": -1, "y": 1})
        .add_reaction("v3", fn=fns.mass_action_1s, args=["y", "k3"], stoichiometry={"y": -1})
    )
    return m


def ss_worker(model, *, rel_norm, integrator, y0):
    from mxlpy.scan import _steady_state_worker

    _log_call("ss")
    return _steady_state_worker(model, rel_norm=rel_norm, integrator=integrator, y0=y0)


def tc_worker(model, time_points, *, integrator, y0):
    from mxlpy.scan import _time_course_worker

    _log_call("tc")
    return _time_course_worker(model, time_points, integrator=integrator, y0=y0)


def _frame(df):
    return {
        "index": [canon(i) for i in df.index.tolist()],
        "columns": [str(c) for c in df.columns.tolist()],
        "data": [[float(x).hex() for x in row] for row in df.to_numpy().tolist()],
    }


def do_run(sc: dict):
    from mxlpy.parallel import parallelise

    cache = make_cache(sc)
    if sc["kind"] == "session":
        # several runs in ONE process with ONE Cache object (a notebook session): per run the returned
        # value, the inputs fn was evaluated on, and the directory afterwards.  A run may be preceded by events
        # of a working session ("before"): the cache directory wiped, the object pointed at another directory,
        # a new object constructed, the object copied through pickle (no __init__)
        import pickle
        import shutil

        from mxlpy.parallel import Cache

        def dir_of(i: int) -> Path:
            return Path(sc["cache_dir"]) if i == 0 else Path(f"{sc['cache_dir']}-alt{i}") / "nested"

        out = []
        cur = 0
        for r in sc["runs"]:
            for act in r.get("before", []):
                if cache is None:
                    continue
                if act[0] == "wipe":
                    if os.path.isdir(cache.tmp_dir):
                        shutil.rmtree(cache.tmp_dir)
                elif act[0] == "retarget":
                    cur = int(act[1])
                    cache.tmp_dir = dir_of(cur)
                elif act[0] == "new":
                    cur = int(act[1])
                    cache = Cache(tmp_dir=dir_of(cur))
                elif act[0] == "copy":
                    cache = pickle.loads(pickle.dumps(cache))  # noqa: S301
                else:
                    raise ValueError(act)
            n0 = len(_read_lines(CALLLOG)) if CALLLOG else 0
            e0 = len(_read_lines(EVLOG)) if EVLOG else 0
            items = [(dec_key(k), x) for k, x in r["items"]]
            try:
                res = parallelise(
                    FNS[sc["fn"]],
                    items,
                    cache=cache,
                    parallel=bool(r.get("parallel")),
                    max_workers=r.get("workers", 2),
                    disable_tqdm=True,
                )
                ent = {"status": "returned", "value": [[enc_key(k), canon(v)] for k, v in res]}
            except Exception as e:  # noqa: BLE001
                ent = {"status": "raised", "exc": type(e).__name__, "msg": str(e)[:200]}
            if r.get("parallel"):
                time.sleep(0.02)
            ent["calls"] = _read_lines(CALLLOG)[n0:] if CALLLOG else []
            ent["events"] = [json.loads(l) for l in _read_lines(EVLOG)[e0:]] if EVLOG else []
            ent["files"] = _snapshot(str(cache.tmp_dir) if cache is not None else sc["cache_dir"])
            ent["dir"] = cur
            out.append(ent)
        return out
    if sc["kind"] == "scan_life":
        # scan.steady_state several times in ONE process with ONE Cache object; "wipe" removes the cache directory
        import shutil

        import pandas as pd

        from mxlpy import scan

        to_scan = pd.DataFrame({c: [float(v) for v in vals] for c, vals in sc["to_scan"].items()})
        out = []
        for step in sc["steps"]:
            if step == "wipe":
                if cache is not None and os.path.isdir(cache.tmp_dir):
                    shutil.rmtree(cache.tmp_dir)
                continue
            n0 = len(_read_lines(CALLLOG)) if CALLLOG else 0
            try:
                r = scan.steady_state(_scan_model(sc), to_scan=to_scan, parallel=bool(sc.get("parallel")), cache=cache, worker=ss_worker)
                ent = {"status": "returned", "value": {"variables": _frame(r.variables), "fluxes": _frame(r.fluxes)}}
            except Exception as e:  # noqa: BLE001
                ent = {"status": "raised", "exc": type(e).__name__, "msg": str(e)[:200]}
            if sc.get("parallel"):
                time.sleep(0.02)
            ent["calls"] = _read_lines(CALLLOG)[n0:] if CALLLOG else []
            ent["files"] = sorted(_snapshot(sc["cache_dir"]))
            out.append(ent)
        return out
    if sc["kind"] == "map":
        items = [(dec_key(k), x) for k, x in sc["items"]]
        res = parallelise(
            FNS[sc["fn"]],
            items,
            cache=cache,
            parallel=bool(sc.get("parallel")),
            max_workers=sc.get("workers"),
            disable_tqdm=True,
        )
        return [[enc_key(k), canon(v)] for k, v in res]
    if sc["kind"] in ("scan_ss", "scan_tc"):
        import numpy as np
        import pandas as pd

        from mxlpy import scan

        m = _scan_model(sc)
        to_scan = pd.DataFrame({c: [float(v) for v in vals] for c, vals in sc["to_scan"].items()})
        if sc["kind"] == "scan_ss":
            r = scan.steady_state(m, to_scan=to_scan, parallel=bool(sc.get("parallel")), cache=cache, worker=ss_worker)
        else:
            r = scan.time_course(
                m,
                to_scan=to_scan,
                time_points=np.array([0.0, 0.5, 1.0]),
                parallel=bool(sc.get("parallel")),
                cache=cache,
                worker=tc_worker,
            )
        return {"variables": _frame(r.variables), "fluxes": _frame(r.fluxes)}
    raise ValueError(sc["kind"])


def _snapshot(d: str) -> dict:
    out = {}
    if not os.path.isdir(d):
        return {"<no-dir>": True}
    for root, _dirs, files in os.walk(d):
        for f in files:
            p = os.path.join(root, f)
            rel = os.path.relpath(p, d)
            with _real_open(p, "rb") as fp:
                b = fp.read()
            if len(b) <= 256:
                out[rel] = {"len": len(b), "hex": b.hex()}
            else:
                import hashlib

                out[rel] = {"len": len(b), "sha": hashlib.sha1(b).hexdigest()}
    return out


def _read_lines(p: str) -> list[str]:
    try:
        with _real_open(p, "r") as fp:
            return [l.rstrip("\n") for l in fp]
    except FileNotFoundError:
        return []


def run_scenario(sc: dict) -> dict:
    """fork; the child runs the scenario (and may die); the parent reports what is left"""
    global CACHE_DIR, PLAN, EVLOG, CALLLOG, RECLOG
    side = sc["side"]  # directory for logs / result (outside the cache dir)
    os.makedirs(side, exist_ok=True)
    evlog, calllog, resfile, reclog = (os.path.join(side, n) for n in ("events.log", "calls.log", "result.json", "rec.log"))
    for p in (evlog, calllog, resfile, reclog):
        if os.path.exists(p):
            _os_unlink(p)
    sys.stdout.flush()
    pid = os.fork()
    if pid == 0:
        try:
            os.setpgrp()
            devnull = _os_open(os.devnull, os.O_WRONLY)
            os.dup2(devnull, 2)
            if sc.get("quiet_stdout", True):
                os.dup2(devnull, 1)
            CACHE_DIR = os.path.abspath(sc["cache_dir"])
            PLAN = sc.get("plan")
            BUFFERED[0] = bool(sc.get("buffered"))
            EVLOG, CALLLOG, RECLOG = evlog, calllog, reclog
            COUNTER[0] = 0
            try:
                out = do_run(sc)
                res = {"status": "returned", "value": out}
            except BaseException as e:  # noqa: BLE001
                res = {"status": "raised", "exc": type(e).__name__, "msg": str(e)[:200]}
            with _real_open(resfile + ".part", "w") as fp:
                json.dump(res, fp)
            _os_replace(resfile + ".part", resfile)
        finally:
            os._exit(0)
    # parent
    deadline = time.time() + float(sc.get("timeout", 120))
    status = None
    while time.time() < deadline:
        w, st = os.waitpid(pid, os.WNOHANG)
        if w == pid:
            status = st
            break
        time.sleep(0.002)
    timed_out = status is None
    try:
        os.killpg(pid, signal.SIGKILL)  # orphaned pool workers, or the hung child
    except (ProcessLookupError, PermissionError):
        pass
    if timed_out:
        try:
            os.waitpid(pid, 0)
        except ChildProcessError:
            pass
    # give killed pool workers a moment to disappear (their writes are synchronous; nothing is buffered)
    if sc.get("parallel"):
        time.sleep(0.05)
    rep = {"id": sc["id"], "timed_out": timed_out}
    if status is not None:
        rep["exit"] = os.waitstatus_to_exitcode(status)
    try:
        with _real_open(resfile, "r") as fp:
            rep["result"] = json.load(fp)
    except FileNotFoundError:
        rep["result"] = None
    rep["events"] = [json.loads(l) for l in _read_lines(evlog)]
    rep["calls"] = _read_lines(calllog)
    rep["rec"] = [json.loads(l) for l in _read_lines(reclog)]
    rep["files"] = _snapshot(sc["cache_dir"])
    return rep


def main() -> int:
    job = json.loads(Path(sys.argv[1]).read_text())
    install()
    # import the implementation once; children inherit it through fork
    import mxlpy.parallel  # noqa: F401

    if any(s["kind"].startswith("scan") for s in job["scenarios"]):
        import mxlpy.scan  # noqa: F401
    if any(s.get("fn") == "frame" for s in job["scenarios"]):
        import pandas  # noqa: F401
    reports = [run_scenario(sc) for sc in job["scenarios"]]
    out = json.dumps(reports)
    sys.stdout.write(out)
    sys.stdout.flush()
    return 0


if __name__ == "__main__":
    sys.exit(main())
