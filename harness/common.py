"""Shared plumbing for every property check.

Conventions (see /verif/BUILDING.md):

* the orchestrator runs in /venv/bin/python with PYTHONPATH=<REPO>/src:/verif and
  PYTHONHASHSEED=0 (set by /verif/check), so the implementation is imported in-process;
* REPO is /repo unless MXLPY_VERIF_REPO points at a scratch copy (development self-tests
  only; registered commands never set it);
* every Coq area lives in /verif/coq/<area>/ with its own _CoqProject
  (`-Q ../base MxlBase -Q . <Area>`), is built by `make` (full .vo build) under a shell
  timeout, and its scratch correspondence files go to coq/<area>/corr/ (git-ignored).
"""

from __future__ import annotations

import dataclasses
import hashlib
import json
import os
import random
import re
import shutil
import subprocess
import sys
import time
import traceback
from concurrent.futures import ThreadPoolExecutor
from fractions import Fraction
from pathlib import Path
from typing import Any, Callable, Iterable, Sequence

VERIF = Path(__file__).resolve().parent.parent
REPO = Path(os.environ.get("MXLPY_VERIF_REPO", "/repo"))
COQ = VERIF / "coq"
# evidence of registered runs (against /repo itself) only; development runs against a scratch copy
# (MXLPY_VERIF_REPO: mutation self-tests, seeded changes) must never overwrite the committed records
EVIDENCE = VERIF / "evidence" if REPO == Path("/repo") else VERIF / "work" / "evidence-scratch"
REPLAYS = VERIF / "replays"
KNOWN_FINDINGS = VERIF / "known_findings.json"
NCPU = int(os.environ.get("VERIF_JOBS", str(min(16, os.cpu_count() or 4))))

FORBIDDEN = re.compile(
    r"\b(Admitted|admit|Axiom|Axioms|Parameter|Parameters|Conjecture|Conjectures|Admit\s+Obligations|"
    r"Unset\s+Guard\s+Checking|Unset\s+Positivity\s+Checking|Unset\s+Universe\s+Checking|"
    r"bypass_check|native_compute|type-in-type|impredicative-set)\b"
)
# axioms declared by Coq's own standard library that a theorem may depend on
STDLIB_AXIOM_PREFIXES = (
    "ClassicalDedekindReals.",
    "FunctionalExtensionality.",
    "Classical_Prop.",
    "ProofIrrelevance.",
    "PropExtensionality.",
    "Eqdep.",
    "JMeq.",
    "ClassicalEpsilon.",
    "ChoiceFacts.",
    "Coq.",
    "functional_extensionality",
    "sig_forall_dec",
    "sig_not_dec",
    "classic",
    "proof_irrelevance",
    "propositional_extensionality",
    "constructive_indefinite_description",
    "Rdefinitions.",
    "Raxioms.",
)


# ---------------------------------------------------------------------------------------
# seeds / tiers
# ---------------------------------------------------------------------------------------


def seed_from_env() -> int:
    try:
        return int(os.environ.get("VERIF_SEED", "20260926"))
    except ValueError:
        return 20260926


def rng_for(seed: int, *salt: Any) -> random.Random:
    h = hashlib.sha256(repr((seed, salt)).encode()).hexdigest()
    return random.Random(int(h[:16], 16))


# ---------------------------------------------------------------------------------------
# Gallina literal printers
# ---------------------------------------------------------------------------------------


def cz(n: int) -> str:
    n = int(n)
    return f"({n})%Z" if n < 0 else f"{n}%Z"


def cn(n: int) -> str:
    assert n >= 0
    return f"{int(n)}%N"


def cnat(n: int) -> str:
    assert 0 <= n <= 5000, "never write large nat literals"
    return f"{int(n)}%nat"


def cq(x: Fraction | int) -> str:
    x = Fraction(x)
    return f"({x.numerator} # {x.denominator})%Q"


def cbool(b: bool) -> str:
    return "true" if b else "false"


def clist(items: Iterable[str]) -> str:
    items = list(items)
    return "[" + "; ".join(items) + "]" if items else "[]"


def cpair(a: str, b: str) -> str:
    return f"({a}, {b})"


def copt(x: str | None) -> str:
    return "None" if x is None else f"(Some {x})"


def cstr(s: str) -> str:
    assert all(32 <= ord(c) < 127 for c in s), s
    return '"' + s.replace('"', '""') + '"%string'


def to_fraction(x: Any) -> Fraction:
    """Exact value of a Python/NumPy number (floats via as_integer_ratio)."""
    if isinstance(x, Fraction):
        return x
    if isinstance(x, bool):
        return Fraction(int(x))
    if isinstance(x, int):
        return Fraction(x)
    f = float(x)
    if f != f or f in (float("inf"), float("-inf")):
        raise ValueError(f"non-finite value {x!r}")
    return Fraction(*f.as_integer_ratio())


def exact_int(x: Any) -> int:
    fr = to_fraction(x)
    if fr.denominator != 1 or abs(fr.numerator) >= 2**53:
        raise ValueError(f"value {x!r} is not an exactly representable integer")
    return fr.numerator


# ---------------------------------------------------------------------------------------
# Coq driving
# ---------------------------------------------------------------------------------------


@dataclasses.dataclass
class BuildResult:
    ok: bool
    log: str
    failed_files: list[str]
    cmd: str
    wall_s: float


def area_dir(area: str) -> Path:
    return COQ / area


def _coqproject_args(area: str) -> list[str]:
    """-Q/-R arguments of the area's _CoqProject (first lines)."""
    args: list[str] = []
    for line in (area_dir(area) / "_CoqProject").read_text().splitlines():
        line = line.strip()
        if line.startswith(("-Q", "-R", "-I")):
            args += line.split()
    return args


def area_deps(area: str) -> list[str]:
    """Other areas named in the area's _CoqProject (`-Q ../<other> Name`)."""
    out = []
    for line in (area_dir(area) / "_CoqProject").read_text().splitlines():
        m = re.match(r"\s*-[QR]\s+\.\./(\w+)\s+\w+", line)
        if m:
            out.append(m.group(1))
    return out


def write_if_changed(path: Path, text: str) -> bool:
    path.parent.mkdir(parents=True, exist_ok=True)
    if path.exists() and path.read_text() == text:
        return False
    path.write_text(text)
    return True


def _ensure_makefile(area: str) -> None:
    d = area_dir(area)
    mk = d / "Makefile"
    cp = d / "_CoqProject"
    if not mk.exists() or mk.stat().st_mtime < cp.stat().st_mtime:
        subprocess.run(
            ["coq_makefile", "-f", "_CoqProject", "-o", "Makefile"],
            cwd=d,
            check=True,
            capture_output=True,
            text=True,
        )


def coq_build(area: str, timeout_s: int = 900, _seen: set[str] | None = None) -> BuildResult:
    """Full `.vo` build of an area (and, first, of the areas it depends on)."""
    seen = _seen if _seen is not None else set()
    t0 = time.time()
    logs = []
    for dep in area_deps(area):
        if dep not in seen:
            seen.add(dep)
            r = coq_build(dep, timeout_s, seen)
            logs.append(r.log)
            if not r.ok:
                return BuildResult(False, "\n".join(logs), r.failed_files, r.cmd, time.time() - t0)
    d = area_dir(area)
    _ensure_makefile(area)
    cmd = f"timeout {timeout_s} make -C {d} -j{NCPU}"
    # the build lock makes concurrent checks of properties that share an area safe
    lock = d / ".build.lock"
    import fcntl

    with open(lock, "w") as lk:
        fcntl.flock(lk, fcntl.LOCK_EX)
        p = subprocess.run(cmd, shell=True, capture_output=True, text=True)
    log = p.stdout + p.stderr
    failed = sorted(set(re.findall(r'File "\./([^"]+\.v)"', log))) if p.returncode != 0 else []
    if p.returncode != 0 and not failed:
        failed = ["<make failed; see log>"]
    logs.append(log)
    return BuildResult(p.returncode == 0, "\n".join(logs), failed, cmd, time.time() - t0)


def coqc_file(area: str, relpath: str, timeout_s: int = 600) -> tuple[bool, str]:
    """Compile one file of an area directly and return (ok, stdout+stderr)."""
    d = area_dir(area)
    cmd = ["timeout", str(timeout_s), "coqc", *_coqproject_args(area), relpath]
    p = subprocess.run(cmd, cwd=d, capture_output=True, text=True)
    return p.returncode == 0, p.stdout + p.stderr


def parse_assumptions(output: str) -> dict[str, list[str]]:
    """Parse the output of a Props file that is `Theorem..Qed. Print Assumptions name.` repeated.

    Returns {block_index: [axiom names]}; a closed theorem gives [].  The theorem name is not in
    Coq's output, so blocks are matched to names positionally by the caller."""
    blocks: list[list[str]] = []
    cur: list[str] | None = None
    for line in output.splitlines():
        if line.startswith("Closed under the global context"):
            if cur is not None:
                blocks.append(cur)
                cur = None
            blocks.append([])
        elif line.startswith("Axioms:"):
            if cur is not None:
                blocks.append(cur)
            cur = []
        elif cur is not None:
            m = re.match(r"^([A-Za-z_][\w.']*)\s*(:|$)", line)
            if m and not line.startswith(" "):
                cur.append(m.group(1))
    if cur is not None:
        blocks.append(cur)
    return {str(i): b for i, b in enumerate(blocks)}


def props_theorems(area: str, relpath: str) -> list[str]:
    txt = (area_dir(area) / relpath).read_text()
    return re.findall(r"^\s*Print\s+Assumptions\s+([\w.']+)\s*\.", txt, flags=re.M)


def axiom_allowed(name: str) -> bool:
    return name.startswith(STDLIB_AXIOM_PREFIXES) or any(
        name.split(".")[-1].startswith(p) for p in ("functional_extensionality", "sig_forall_dec", "sig_not_dec", "classic", "proof_irrelevance")
    )


def lint_area(area: str) -> list[str]:
    """Forbidden constructs anywhere in the area's sources (comments are stripped first)."""
    problems = []
    for f in sorted(area_dir(area).rglob("*.v")):
        if "corr" in f.parts:
            continue
        txt = f.read_text()
        # strip (nested) comments
        out, depth, i = [], 0, 0
        while i < len(txt):
            if txt.startswith("(*", i):
                depth += 1
                i += 2
            elif txt.startswith("*)", i) and depth:
                depth -= 1
                i += 2
            else:
                if depth == 0:
                    out.append(txt[i])
                i += 1
        code = "".join(out)
        for m in FORBIDDEN.finditer(code):
            problems.append(f"{f.relative_to(VERIF)}: forbidden `{m.group(0)}`")
        # Variable/Hypothesis outside a Section
        depth = 0
        for line in code.splitlines():
            s = line.strip()
            if re.match(r"Section\s+\w+", s):
                depth += 1
            elif re.match(r"End\s+\w+", s) and depth:
                depth -= 1
            elif re.match(r"(Variable|Variables|Hypothesis|Hypotheses|Context)\b", s) and depth == 0:
                problems.append(f"{f.relative_to(VERIF)}: `{s[:40]}` outside a Section")
    return problems


def coq_eval_many(area: str, files: dict[str, str], timeout_s: int = 600) -> dict[str, tuple[bool, str]]:
    """Write scratch files into coq/<area>/corr/, compile them in parallel, return outputs.

    Each file should end in `Eval vm_compute in <something short>.`; output is returned raw."""
    d = area_dir(area) / "corr"
    d.mkdir(exist_ok=True)
    args = _coqproject_args(area)
    for name, text in files.items():
        (d / f"{name}.v").write_text(text)

    def one(name: str) -> tuple[str, tuple[bool, str]]:
        cmd = ["timeout", str(timeout_s), "coqc", *args, f"corr/{name}.v"]
        p = subprocess.run(cmd, cwd=area_dir(area), capture_output=True, text=True)
        return name, (p.returncode == 0, p.stdout + p.stderr)

    with ThreadPoolExecutor(max_workers=NCPU) as ex:
        res = dict(ex.map(one, list(files)))
    # remove build products of scratch files (disk), keep .v of failing ones for inspection
    for name, (ok, _) in res.items():
        for ext in (".vo", ".vok", ".vos", ".glob"):
            p = d / f"{name}{ext}"
            if p.exists():
                p.unlink()
        aux = d / f".{name}.aux"
        if aux.exists():
            aux.unlink()
        if ok and not os.environ.get("VERIF_KEEP_CORR"):
            (d / f"{name}.v").unlink()
    return res


def parse_eval_list(output: str) -> list[list[int]] | None:
    """All `= [..] : list nat|N|Z` results printed by Eval, as integer lists (in order)."""
    flat = " ".join(output.split())
    res = []
    for m in re.finditer(r"=\s*(\[[^\]]*\]|nil)\s*:\s*list\s+(nat|N|Z)", flat):
        body = m.group(1)
        if body == "nil" or body == "[]":
            res.append([])
        else:
            nums = re.findall(r"-?\d+", body)
            res.append([int(x) for x in nums])
    return res


def parse_eval_values(output: str) -> list[str]:
    """Raw right-hand sides of every `= value : type` printed, whitespace-normalised."""
    flat = " ".join(output.split())
    return [m.group(1).strip() for m in re.finditer(r"=\s*(.*?)\s*:\s*[A-Za-z(][^=]*?(?==|$)", flat)]


# ---------------------------------------------------------------------------------------
# known findings / violations / evidence
# ---------------------------------------------------------------------------------------


def load_known_findings(prop: str) -> list[dict]:
    if not KNOWN_FINDINGS.exists():
        return []
    data = json.loads(KNOWN_FINDINGS.read_text())
    return [f for f in data.get("findings", []) if f.get("property") == prop]


@dataclasses.dataclass
class Violation:
    what: str  # one line
    replay: dict  # concrete failing input (or the broken obligation)
    no_failing_input: bool = False
    finding_id: str | None = None  # set when it matches a known finding


class Run:
    """Collects what one check run did and writes evidence / replay / exit code."""

    def __init__(self, prop: str, tier: str, seed: int) -> None:
        self.prop = prop
        self.tier = tier
        self.seed = seed
        self.t0 = time.time()
        self.violations: list[Violation] = []
        self.known_hits: list[tuple[str, str]] = []
        self.obligations = 0
        self.discharged = 0
        self.checker_cmds: list[str] = []
        self.trusted_base: list[str] = []
        self.assumptions: list[str] = []
        self.coverage: dict[str, Any] = {}
        self.samples: list[Any] = []
        self.evaluations = 0
        self.nontrivial: set[str] = set()
        self.rule = ""
        self.notes: list[str] = []
        self.broken_obligations: list[str] = []
        self.broken_correspondence: list[str] = []

    # -- counting ----------------------------------------------------------------------
    def count_case(self, case_key: Any, nontrivial: bool = True) -> None:
        self.evaluations += 1
        if nontrivial:
            self.nontrivial.add(hashlib.sha1(repr(case_key).encode()).hexdigest())

    def sample(self, s: Any, cap: int = 5) -> None:
        if len(self.samples) < cap:
            self.samples.append(s)

    def note(self, s: str) -> None:
        self.notes.append(s)
        print(f"[{self.prop}] {s}", flush=True)

    # -- proof side --------------------------------------------------------------------
    def check_proofs(self, area: str, props_file: str, extra_lint_areas: Sequence[str] = ()) -> bool:
        """lint + build the area + recompile the Props file to read `Print Assumptions`.

        Every `Print Assumptions T.` in the Props file is one obligation; it is discharged iff
        the area builds, the Props file compiles and T depends only on allowed axioms."""
        ok = True
        thms = props_theorems(area, props_file)
        self.obligations += len(thms)
        problems = []
        for a in [area, *area_deps(area), *extra_lint_areas]:
            problems += lint_area(a)
        if problems:
            ok = False
            for p in problems:
                self.note("LINT " + p)
                self.broken_obligations.append("lint: " + p)
        b = coq_build(area)
        self.checker_cmds.append(b.cmd)
        if not b.ok:
            ok = False
            tail = "\n".join(b.log.splitlines()[-25:])
            self.note(f"Coq build of area {area} FAILED in {b.failed_files}:\n{tail}")
            for f in b.failed_files:
                self.broken_obligations.append(f"coq build: {area}/{f}")
            self.coverage.setdefault("build_log_tail", tail[-2000:])
            return False
        okc, out = coqc_file(area, props_file)
        self.checker_cmds.append(f"coqc {' '.join(_coqproject_args(area))} {props_file}  (in coq/{area})")
        if not okc:
            self.note(f"coqc {props_file} FAILED:\n{out[-1500:]}")
            self.broken_obligations.append(f"coqc {area}/{props_file}")
            return False
        blocks = parse_assumptions(out)
        if len(blocks) != len(thms):
            self.note(f"could not match Print Assumptions output ({len(blocks)} blocks) to {len(thms)} theorems")
            self.broken_obligations.append(f"assumption parse {area}/{props_file}")
            return False
        for i, t in enumerate(thms):
            axs = blocks[str(i)]
            bad = [a for a in axs if not axiom_allowed(a)]
            if bad:
                ok = False
                self.broken_obligations.append(f"{t}: depends on non-stdlib axioms {bad}")
                self.note(f"theorem {t} depends on non-stdlib axioms {bad}")
            else:
                self.discharged += 1
            self.trusted_base.append(
                f"{t}: " + ("closed under the global context" if not axs else "axioms " + ", ".join(axs))
            )
        if self.tier == "thorough" and ok and not os.environ.get("VERIF_NO_COQCHK"):
            self._coqchk(area, props_file)
        return ok and not self.broken_obligations

    def _coqchk(self, area: str, props_file: str) -> None:
        """Thorough tier: re-check the compiled Props file and everything it depends on with the
        independent checker and record the axioms it reports (it lists those of every loaded library)."""
        logical = None
        for line in (area_dir(area) / "_CoqProject").read_text().splitlines():
            m = re.match(r"\s*-[QR]\s+\.\s+(\w+)", line)
            if m:
                logical = m.group(1)
        if logical is None:
            return
        mod = f"{logical}.{props_file[:-2].replace('/', '.')}"
        cmd = ["timeout", "1500", "coqchk", "-silent", "-o", *_coqproject_args(area), mod]
        t0 = time.time()
        p = subprocess.run(cmd, cwd=area_dir(area), capture_output=True, text=True)
        out = p.stdout + p.stderr
        self.checker_cmds.append("coqchk -silent -o " + " ".join(_coqproject_args(area)) + " " + mod)
        summary = out[out.find("CONTEXT SUMMARY"):] if "CONTEXT SUMMARY" in out else out[-600:]
        self.coverage["coqchk"] = {"ok": p.returncode == 0, "wall_s": round(time.time() - t0, 1), "summary": " ".join(summary.split())[:1500]}
        if p.returncode != 0:
            self.broken_obligations.append(f"coqchk rejected {mod}: {out[-300:]}")
            self.note(f"coqchk FAILED for {mod}")

    # -- violations --------------------------------------------------------------------
    def violation(self, what: str, replay: dict, *, no_failing_input: bool = False) -> None:
        what = " ".join(str(what).split())[:400]
        self.violations.append(Violation(what, replay, no_failing_input))

    def known(self, finding_id: str, what: str) -> None:
        self.known_hits.append((finding_id, what))

    def finish(self, level: str = "proof") -> int:
        """Write evidence, print KNOWN-FINDING / VIOLATION lines, return the exit code."""
        # a broken tie with no concrete failing input is still a violation
        if not any(not v.no_failing_input for v in self.violations):
            broken = self.broken_obligations + self.broken_correspondence
            if broken and not any(v.no_failing_input for v in self.violations):
                self.violations.append(
                    Violation(
                        "proof obligation / correspondence no longer checks: " + "; ".join(broken[:5]),
                        {"broken": broken, "notes": self.notes[-20:]},
                        no_failing_input=True,
                    )
                )
        for fid, what in self.known_hits:
            print(f"KNOWN-FINDING: property={self.prop} {fid}: {what}", flush=True)
        code = 0
        if self.violations:
            code = 1
            d = REPLAYS / self.prop
            d.mkdir(parents=True, exist_ok=True)
            # concrete ones first
            self.violations.sort(key=lambda v: v.no_failing_input)
            for i, v in enumerate(self.violations[:4]):
                path = d / f"{self.tier}-{self.seed}-{i}.json"
                path.write_text(
                    json.dumps(
                        {"property": self.prop, "what": v.what, "replay": v.replay, "no_failing_input_found": v.no_failing_input},
                        indent=1,
                        default=str,
                    )
                )
                suffix = " no-failing-input-found" if v.no_failing_input else ""
                print(f"[{self.prop}] {v.what}", flush=True)
                print(f"VIOLATION property={self.prop} replay={path}{suffix}", flush=True)
        cov = dict(self.coverage)
        cov.update(
            {
                "obligations": self.obligations,
                "discharged": self.discharged,
                "checker_cmd": " && ".join(dict.fromkeys(self.checker_cmds)) or "none",
                "trusted_base": self.trusted_base,
                "evaluations": self.evaluations,
                "distinct_nontrivial": len(self.nontrivial),
                "rule": self.rule,
                "samples": self.samples or ["<none>"],
                "known_findings_reproduced": [f for f, _ in self.known_hits],
                "broken_obligations": self.broken_obligations,
                "broken_correspondence": self.broken_correspondence,
                "notes": self.notes[-40:],
            }
        )
        ev = {
            "property_id": self.prop,
            "tier": self.tier,
            "seed": self.seed,
            "level": level,
            "coverage": cov,
            "assumptions": self.assumptions,
            "wall_s": round(time.time() - self.t0, 2),
            "violations": len(self.violations),
        }
        EVIDENCE.mkdir(parents=True, exist_ok=True)
        (EVIDENCE / f"{self.prop}.json").write_text(json.dumps(ev, indent=1, default=str))
        print(
            f"[{self.prop}] tier={self.tier} seed={self.seed} obligations={self.discharged}/{self.obligations} "
            f"evaluations={self.evaluations} nontrivial={len(self.nontrivial)} violations={len(self.violations)} "
            f"known={len(self.known_hits)} wall={ev['wall_s']}s",
            flush=True,
        )
        return code


def quiet_impl_logging() -> None:
    import logging
    import warnings

    logging.disable(logging.CRITICAL)
    warnings.filterwarnings("ignore")


def classify_exception(e: BaseException) -> str:
    """Small enum of outcomes (message text is never compared)."""
    n = type(e).__name__
    return {
        "MissingDependenciesError": "ErrMissing",
        "CircularDependencyError": "ErrCircular",
        "ArityMismatchError": "ErrArity",
        "KeyError": "ErrKey",
        "NameError": "ErrName",
        "ValueError": "ErrValue",
        "TypeError": "ErrType",
        "NotImplementedError": "ErrNotImpl",
        "ZeroDivisionError": "ErrZeroDiv",
    }.get(n, "ErrOther:" + n)


def chunks(xs: Sequence[Any], n: int) -> list[Sequence[Any]]:
    return [xs[i : i + n] for i in range(0, len(xs), n)]


def scratch_dir(tag: str) -> Path:
    """Scratch directory under /verif/work (git-ignored; never /tmp for registered commands)."""
    d = VERIF / "work" / f"{tag}-{os.getpid()}"
    if d.exists():
        shutil.rmtree(d)
    d.mkdir(parents=True)
    return d
