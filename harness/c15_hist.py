"""C15 helper: (a) HISTORIES of one Simulator -- simulate / simulate_time_course / simulate_to_steady_state in
sequence, then get_result -- run on the real code with a recording (and optionally failing) integrator, judged by an
independent oracle and compared exactly with the Gallina history model; (b) RECORDED RUNS of the steady-state loop:
the buffers scipy's solver really returned and its `successful()` flags are handed to the Gallina loop
(`ss_run_s gen_ss_facts`) and the outcome is compared with the implementation's; (c) networks whose solution does
not exist beyond a finite time (blow-up, singular rate): the solver fails, the result must be a failure value;
(d) NaN norms: relative norm with a pool that stays exactly 0 (0/0) next to slowly relaxing pools, and rate laws that
leave their domain while a pool accumulates (NaN state, the solver still reports success): a criterion that cannot be
evaluated is not convergence; (e) PARAMETER SWEEPS on one Simulator (clear_results; update_parameter;
simulate_to_steady_state().get_result() for several values, results read only afterwards): every collected result
must report the steady state and the balanced fluxes of ITS OWN parameter set.

Nothing here shares code with the Coq model; the closed forms come from harness/c15.py (mpmath)."""

from __future__ import annotations

import math
import signal
from typing import Any

from harness import common
from harness.common import clist, cq

# ---------------------------------------------------------------------------------------
# rate functions of the non-linear networks (real module-level functions)
# ---------------------------------------------------------------------------------------


def quad(x, k):  # noqa: ANN001, ANN201
    return k * x * x


def recip(x, k):  # noqa: ANN001, ANN201
    return k / (1.0 - x)


def sqrt_dom(x):  # noqa: ANN001, ANN201
    """defined for x <= 1 only: NaN beyond (numpy warns, does not raise)"""
    import numpy as np

    return np.sqrt(1.0 - x)


def arcsin_dom(x):  # noqa: ANN001, ANN201
    """defined for |x| <= 1 only"""
    import numpy as np

    return np.arcsin(x)


# ---------------------------------------------------------------------------------------
# recording the solver
# ---------------------------------------------------------------------------------------


class OdeSpy:
    """Context manager: records what every scipy.integrate.ode.integrate call returned and whether it succeeded."""

    def __init__(self) -> None:
        self.steps: list[tuple[list[float], bool]] = []

    def __enter__(self) -> "OdeSpy":
        import numpy as np
        import scipy.integrate as spi

        self._spi = spi
        self._orig = spi.ode.integrate
        orig = self._orig
        steps = self.steps

        def integrate(ode_self, t, step=False, relax=False):  # noqa: ANN001, ANN202, FBT002
            r = orig(ode_self, t, step, relax)
            steps.append((np.array(r, dtype=float).tolist(), bool(ode_self.successful())))
            return r

        spi.ode.integrate = integrate
        return self

    def __exit__(self, *exc: object) -> None:
        self._spi.ode.integrate = self._orig


def result_kind(v: Any) -> str:
    if isinstance(v, Exception):
        n = type(v).__name__
        return {"NoSteadyState": "NoSteady", "IntegrationFailure": "IntegFail"}.get(n, "OtherFailure:" + n)
    return "Success"


# ---------------------------------------------------------------------------------------
# (a) histories
# ---------------------------------------------------------------------------------------

FAR = 100 * 1001 + 50.0  # later than any time a steady-state search can report


def gen_history(rng, net: dict) -> list[tuple]:
    """ops: ("sim", t_end, steps, inject_failure) | ("tc", [points], inject_failure) | ("ss",)"""
    t1 = rng.choice([5.0, 10.0, 40.0, 250.0])
    t2 = t1 + rng.choice([5.0, 30.0])
    pts = sorted({round(rng.uniform(0.5, t1), 3) for _ in range(rng.randint(2, 4))})
    linear_ok = net["kind"] not in ("growth",)  # integrating exponential growth to t = 1e5 overflows: not our business
    shapes = [
        [("sim", t1, rng.randint(2, 5), False), ("ss",)],
        [("sim", t1, rng.randint(2, 5), False), ("ss",)],
        [("tc", pts, False), ("ss",)],
        [("tc", [0.0, *pts], False), ("ss",)],
        [("sim", t1, 3, False), ("sim", t2, 2, False), ("ss",)],
        [("sim", t1, 3, False), ("ss",), ("ss",)],
        [("sim", t1, 2, True), ("ss",)],
        [("sim", t1, 2, False), ("tc", [t2, t2 + 1.0], True), ("ss",)],
        [("ss",), ("ss",)],
    ]
    if linear_ok:
        shapes += [[("ss",), ("sim", FAR, 2, False)], [("sim", t1, 2, False), ("ss",), ("sim", FAR, 2, False)]]
    return rng.choice(shapes)


class _Timeout(Exception):
    pass


def _alarm(signum, frame):  # noqa: ANN001, ARG001
    raise _Timeout


def run_history(net: dict, hist: list[tuple], tol: float, rel: bool) -> dict:
    """Runs the history on ONE real Simulator.  -> {"ops": recorded integrator results, "final": ..., ...}"""
    import numpy as np

    from harness import c15
    from mxlpy import Simulator
    from mxlpy.types import IntegrationFailure, Result

    signal.signal(signal.SIGALRM, _alarm)
    signal.setitimer(signal.ITIMER_REAL, 120.0)
    out: dict[str, Any] = {"ops": [], "raised": None}
    try:
        m = c15.build_model(net)
        y0 = {f"x{i}": float(v) for i, v in enumerate(net["y0"])} if net["user_y0"] else None
        sim = Simulator(m, y0=y0)
        integ = sim.integrator
        rec = out["ops"]
        inject = {"now": False, "depth": 0}

        def wrap(name: str, kind: str):  # noqa: ANN202
            orig = getattr(integ, name)

            def call(**kw):  # noqa: ANN003, ANN202
                if inject["depth"] > 0:  # Scipy.integrate delegates to integrate_time_course: one call of the Simulator
                    return orig(**kw)
                if inject["now"]:
                    r = Result(IntegrationFailure())
                else:
                    inject["depth"] += 1
                    try:
                        r = orig(**kw)
                    finally:
                        inject["depth"] -= 1
                v = r.value
                if isinstance(v, Exception):
                    rec.append({"op": kind, "fail": result_kind(v)})
                else:
                    # copy NOW: _handle_simulation_results may shift `time` in place
                    rec.append({"op": kind, "time": np.array(v.time, dtype=float).tolist(),
                                "values": np.array(v.values, dtype=float).tolist()})
                return r

            setattr(integ, name, call)

        wrap("integrate", "sim")
        wrap("integrate_time_course", "sim")
        wrap("integrate_to_steady_state", "ss")
        with np.errstate(all="ignore"):
            for op in hist:
                before = len(rec)
                if op[0] == "sim":
                    inject["now"] = bool(op[3])
                    sim.simulate(t_end=op[1], steps=op[2])
                elif op[0] == "tc":
                    inject["now"] = bool(op[2])
                    sim.simulate_time_course(np.array(op[1], dtype=float))
                else:
                    inject["now"] = False
                    sim.simulate_to_steady_state(tolerance=tol, rel_norm=rel)
                inject["now"] = False
                if len(rec) == before:  # the method returned early (an error was recorded before)
                    rec.append({"op": "sim" if op[0] != "ss" else "ss", "skipped": True})
            res = sim.get_result()
        v = res.value
        out["final"] = result_kind(v)
        if out["final"] == "Success":
            frames = v.raw_variables
            names = [f"x{i}" for i in range(net["d"])]
            rows = []
            for fr in frames:
                for t, vals in zip(fr.index.tolist(), fr[names].to_numpy(dtype=float).tolist()):
                    rows.append((float(t), [float(x) for x in vals]))
            out["rows"] = rows
            fl = v.fluxes
            out["last_fluxes"] = [float(fl[f"r{r}"].iloc[-1]) for r in range(len(net["reactions"]))]
    except _Timeout:
        out["raised"] = "Timeout"
    except Exception as e:  # noqa: BLE001
        out["raised"] = type(e).__name__ + ": " + str(e)[:160]
    finally:
        signal.setitimer(signal.ITIMER_REAL, 0)
    return out


def history_oracle(net: dict, hist: list[tuple], tol: float, rel: bool, h: dict, tr: dict) -> tuple[str, str] | None:
    """The PROPERTY on a history: any failed step => failure value; a success that ends with a search shows the
    searched steady state in its last row.  `tr` is the closed-form trajectory from the (reset) initial values."""
    from harness import c15

    if h["raised"]:
        return "violation", f"history {hist} raised {h['raised']}"
    injected = any((op[0] == "sim" and op[3]) or (op[0] == "tc" and op[2]) for op in hist)
    has_search = any(op[0] == "ss" for op in hist)
    search_cannot_converge = has_search and tr["decision"] is None and not tr["borderline"] and tol > 0
    desc = f"history {hist} on network {net['kind']} {net['reactions']} y0={net['y0']} tol={tol} rel_norm={rel}"
    if h["final"] != "Success":
        return None  # a failure value is never a state presented as steady
    last = h["rows"][-1]
    if injected:
        return "violation", f"{desc}: an integration step failed but get_result is a success (last row t={last[0]}, {last[1]})"
    if search_cannot_converge:
        return "violation", (f"{desc}: the closed-form trajectory never changes by less than the tolerance within the budget, yet "
                             f"get_result is a success whose last row t={last[0]}, state {last[1]} is presented as the result")
    if hist[-1][0] == "ss":
        out = {"kind": "Steady", "t": last[0], "y": last[1], "fluxes": h["last_fluxes"]}
        v = c15.oracle(net, tol, rel, out, tr)
        if v is not None:
            return v[0], f"{desc}: {v[1]}"
    return None


def _crows(time: list[float], values: list[list[float]]) -> str:
    return clist("(" + cq(common.to_fraction(t)) + ", " + c15_cvec(v) + ")" for t, v in zip(time, values))


def c15_cvec(v) -> str:  # noqa: ANN001
    return clist(cq(common.to_fraction(x)) for x in v)


_ERR = {"NoSteady": "ENoSteadyState", "IntegFail": "EIntegrationFailure"}


def history_coq_case(idx: int, h: dict) -> str | None:
    """`(ops, expected get_result)` as Coq text, None if something in it is outside the model (other exception types)."""
    ops = []
    for r in h["ops"]:
        if r.get("skipped"):
            # the method returned before calling the integrator; the model ignores the carried result in that state
            ops.append("OpSimulate (TCFail EOther)" if r["op"] == "sim" else "OpSteady SSNoSteady")
        elif "fail" in r:
            if r["fail"] not in _ERR:
                return None
            if r["op"] == "sim":
                ops.append(f"OpSimulate (TCFail {_ERR[r['fail']]})")
            else:
                ops.append("OpSteady SSNoSteady" if r["fail"] == "NoSteady" else "OpSteady SSIntegFail")
        elif r["op"] == "sim":
            ops.append(f"OpSimulate (TCRows {_crows(r['time'], r['values'])})")
        else:
            if len(r["time"]) != 1:
                return None
            ops.append(f"OpSteady (SSSteady {cq(common.to_fraction(r['time'][0]))} {c15_cvec(r['values'][0])})")
    if h["final"] == "Success":
        exp = "RSimulation " + clist("(" + cq(common.to_fraction(t)) + ", " + c15_cvec(v) + ")" for t, v in h["rows"])
    elif h["final"] in _ERR:
        exp = f"RError {_ERR[h['final']]}"
    else:
        return None
    return f"Definition hcase_{idx} : hcase := ({clist(ops)}, {exp}).\n"


def history_corr_file(defs: list[str]) -> str:
    n = len(defs)
    return (
        "From Coq Require Import QArith ZArith NArith List.\nImport ListNotations.\nFrom MxlBase Require Import ListX.\n"
        "From Steady Require Import SteadyLoop GenSteadyFacts.\n"
        "Definition hcase := (list sim_op * sim_result)%type.\n"
        + "".join(defs)
        + "Definition cases : list hcase := " + clist(f"hcase_{i}" for i in range(n)) + ".\n"
        "Definition agrees (c : hcase) : bool := result_eqb (hist_result gen_plumb_facts (fst c)) (snd c).\n"
        "Definition mismatches := filter_idx (fun c => negb (agrees c)) cases.\n"
        "Eval vm_compute in mismatches.\n"
    )


# ---------------------------------------------------------------------------------------
# (b) recorded runs of the loop
# ---------------------------------------------------------------------------------------


def float_decisions_robust(y0: list[float], steps: list[tuple[list[float], bool]], tol: float, rel: bool) -> bool:
    """False if binary64 evaluation of the test could decide differently from the model's exact arithmetic on the
    finite part in some recorded step: |norm - tol| within 1e-9 relative, or a finite intermediate that overflows
    (|value| > 1e150, a quotient or difference beyond 1e150).  inf / NaN entries of the buffers themselves are fine:
    the IEEE loop of SteadyNan.v models them (0/0, x/0, inf - inf, NaN propagation)."""
    prev = y0
    for y, _ok in steps:
        if any(math.isfinite(v) and abs(v) > 1e150 for v in y):
            return False
        comps = []
        special = False
        for a, b in zip(prev, y):
            if not (math.isfinite(a) and math.isfinite(b)) or (rel and a == 0.0):
                special = True  # inf / NaN component: decided by IEEE rules, no rounding involved
                continue
            c = (b - a) / a if rel else b - a
            if abs(c) > 1e150:
                return False
            comps.append(c)
        if not special:
            nrm = math.sqrt(sum(c * c for c in comps))
            if abs(nrm - tol) <= 1e-9 * max(nrm, abs(tol)):
                return False
        prev = y
    return True


def cxq(x: float) -> str:
    """a binary64 value as a SteadyNan.xq literal"""
    if x != x:
        return "XNaN"
    if math.isinf(x):
        return "(XInf true)" if x < 0 else "(XInf false)"
    return "(XFin " + cq(common.to_fraction(x)) + ")"


def cxvec(v) -> str:  # noqa: ANN001
    return clist(cxq(float(x)) for x in v)


def recorded_coq_case(idx: int, y0: list[float], steps: list[tuple[list[float], bool]], tol: float, rel: bool, kind: str,
                      t: float | None) -> str:
    samples = clist([cxvec(y0)] + [cxvec(y) for y, _ in steps])
    oks = clist(["true"] + [common.cbool(ok) for _, ok in steps])
    obs = {"NoSteady": "ObsNoSteady", "IntegFail": "ObsIntegFail"}.get(kind, "ObsOther")
    if kind == "Steady":
        obs = f"ObsSteady {cq(common.to_fraction(t))}"
    return (f"Definition rcase_{idx} : rcase := ({cq(common.to_fraction(tol))}, {common.cbool(rel)}, {cxvec(y0)}, "
            f"{samples}, {oks}, {obs}).\n")


def recorded_corr_file(defs: list[str]) -> str:
    n = len(defs)
    return (
        "From Coq Require Import QArith ZArith NArith List.\nImport ListNotations.\nFrom MxlBase Require Import ListX.\n"
        "From Steady Require Import SteadyLoop SteadyNan GenSteadyFacts.\n"
        "Definition rcase := (Q * bool * xvec * list xvec * list bool * ss_obs)%type.\n"
        + "".join(defs)
        + "Definition cases : list rcase := " + clist(f"rcase_{i}" for i in range(n)) + ".\n"
        "Definition agrees (c : rcase) : bool :=\n"
        "  match c with (tol, rel, y0, samples, oks, o) =>\n"
        "    obs_eqb (xobs_of (xs_run gen_ss_facts tol rel y0 (xtraj_fun samples) (ok_fun oks))) o\n"
        "  end.\n"
        "Definition mismatches := filter_idx (fun c => negb (agrees c)) cases.\n"
        "Eval vm_compute in mismatches.\n"
    )


# ---------------------------------------------------------------------------------------
# (c) solutions that stop existing: dx/dt = k x^2 (blows up at 1/(k x0)), dx/dt = k/(1-x) (x reaches 1 at (1-x0)^2/(2k))
# ---------------------------------------------------------------------------------------


def build_singular(spec: dict):  # noqa: ANN201
    from mxlpy import Model

    m = Model()
    m.add_variable("x0", float(spec["x0"]))
    m.add_parameter("p0", float(spec["k"]))
    m.add_reaction("r0", fn=quad if spec["law"] == "quad" else recip, args=["x0", "p0"], stoichiometry={"x0": 1})
    return m


def singular_end_time(spec: dict) -> float:
    """The time at which the exact solution ceases to exist (closed form)."""
    if spec["law"] == "quad":
        return 1.0 / (spec["k"] * spec["x0"])
    return (1.0 - spec["x0"]) ** 2 / (2.0 * spec["k"])


def gen_singular(rng) -> dict:
    law = rng.choice(["quad", "recip"])
    if law == "quad":
        return {"law": law, "k": float(rng.choice([0.5, 1.0, 2.0, 0.01])), "x0": float(rng.choice([0.5, 1.0, 2.0, 4.0]))}
    return {"law": law, "k": float(rng.choice([0.25, 1.0, 4.0])), "x0": float(rng.choice([0.0, 0.25, 0.5, 0.75]))}


def run_singular(spec: dict, tol: float, rel: bool) -> dict:
    import numpy as np

    from mxlpy import Simulator

    signal.signal(signal.SIGALRM, _alarm)
    signal.setitimer(signal.ITIMER_REAL, 120.0)
    out: dict[str, Any]
    try:
        m = build_singular(spec)
        with OdeSpy() as spy, np.errstate(all="ignore"):
            res = Simulator(m).simulate_to_steady_state(tolerance=tol, rel_norm=rel).get_result()
        v = res.value
        k = result_kind(v)
        out = {"kind": k, "steps": spy.steps}
        if k == "Success":
            fr = v.raw_variables[-1]
            out.update(kind="Steady", t=float(fr.index[-1]), y=[float(fr["x0"].iloc[-1])],
                       fluxes=[float(v.fluxes["r0"].iloc[-1])])
    except _Timeout:
        out = {"kind": "Err:Timeout", "steps": []}
    except Exception as e:  # noqa: BLE001
        out = {"kind": "Err:" + type(e).__name__, "detail": str(e)[:200], "steps": []}
    finally:
        signal.setitimer(signal.ITIMER_REAL, 0)
    return out


def singular_oracle(spec: dict, out: dict) -> tuple[str, str] | None:
    """The exact solution does not exist beyond singular_end_time < 100: there is no state at t >= 100 at all,
    so ANY state presented as steady is wrong, whatever tolerance or norm."""
    if out["kind"].startswith("Err"):
        return "violation", f"steady-state search on {spec} ended with {out['kind']} {out.get('detail', '')}"
    if out["kind"] != "Steady":
        return None
    tend = singular_end_time(spec)
    if out["t"] < tend:
        return None  # reported before the solution stops existing: not judged here
    steps = out.get("steps")
    if steps is not None and all(ok for _, ok in steps):
        # outside the guard of the recorded finding (no integration step failed): a plain violation
        return "violation", f"{spec}: no solution beyond t={tend:.6g}, every integration step reported success, yet x={out['y'][0]:.6g} is presented as steady at t={out['t']}"
    return "finding:c15-integrator-failure-unchecked", (
        f"dx/dt = {'k*x^2' if spec['law'] == 'quad' else 'k/(1-x)'} with k={spec['k']}, x(0)={spec['x0']} has no solution beyond "
        f"t={tend:.6g} (closed form), the solver failed (integ.successful() is False), yet the search returned SUCCESS: "
        f"x={out['y'][0]:.6g} 'steady' at t={out['t']}, reported flux {out['fluxes'][0]:.3g}"
    )


# ---------------------------------------------------------------------------------------
# (d) NaN norms
# ---------------------------------------------------------------------------------------


def demo_emptypool() -> dict:
    """-> x0 -> x1 ->, relaxation time 50; x2 is never produced and stays at 0 (seeded change C15-4, demo A)"""
    return {"kind": "emptypool", "d": 3, "reactions": [("in", 0, 1.0), ("conv", 0, 1, 0.02), ("out", 1, 0.05), ("out", 2, 0.3)],
            "has_ss": True, "y0": [0.0, 0.0, 0.0], "user_y0": False, "y0_default": [0.0, 0.0, 0.0]}


def gen_emptypool(rng) -> dict:
    """A slowly relaxing pool / chain (contraction 0.1 .. 0.7 per step) started far from its steady state, plus a pool
    that is empty and only consumed: it stays EXACTLY 0, its relative change is 0/0."""
    def k_of(r: float) -> float:
        return -math.log(r) / 100.0

    nb = rng.choice([1, 2, 2])
    ks = [k_of(rng.uniform(0.1, 0.7)) for _ in range(nb)]
    scale = 10 ** rng.uniform(-1, 2)
    rx: list[tuple] = [("in", 0, scale * min(ks) * rng.uniform(0.2, 1))]
    for i in range(nb - 1):
        rx.append(("conv", i, i + 1, ks[i]))
    rx.append(("out", nb - 1, ks[nb - 1]))
    rx.append(("out", nb, k_of(rng.uniform(0.02, 0.5))))
    ystar = [rx[0][2] / k for k in ks]
    y0 = [0.0 if rng.random() < 0.5 else ys * rng.uniform(0.0, 0.5) for ys in ystar] + [0.0]
    user = rng.random() < 0.5
    # the empty pool must be empty in the model's defaults as well when those are used
    return {"kind": "emptypool", "d": nb + 1, "reactions": rx, "has_ss": True, "y0": y0, "user_y0": user,
            "y0_default": ([v * 3 + 1 for v in y0[:-1]] + [2.0]) if user else list(y0)}


def gen_domain(rng) -> dict:
    """x0 accumulates without bound (constant influx); the production of x1 is defined only while x0 <= 1."""
    return {"law": rng.choice(["sqrt", "sqrt", "arcsin"]), "k_in": float(rng.choice([0.002, 0.004, 0.05, 0.5])),
            "kd": float(rng.choice([0.01, 0.1])), "x0": float(rng.choice([0.0, 0.0, 0.5]))}


def build_domain(spec: dict):  # noqa: ANN201
    from harness import c15
    from mxlpy import Model

    m = Model()
    m.add_variable("x0", float(spec["x0"]))
    m.add_variable("x1", 0.0)
    m.add_parameter("p0", float(spec["k_in"]))
    m.add_parameter("p2", float(spec["kd"]))
    m.add_reaction("r0", fn=c15.const, args=["p0"], stoichiometry={"x0": 1})
    m.add_reaction("r1", fn=sqrt_dom if spec["law"] == "sqrt" else arcsin_dom, args=["x0"], stoichiometry={"x1": 1})
    m.add_reaction("r2", fn=c15.ma1, args=["x1", "p2"], stoichiometry={"x1": -1})
    return m


def run_domain(spec: dict, tol: float, rel: bool) -> dict:
    import numpy as np

    from mxlpy import Simulator

    signal.signal(signal.SIGALRM, _alarm)
    signal.setitimer(signal.ITIMER_REAL, 120.0)
    out: dict[str, Any]
    try:
        m = build_domain(spec)
        with OdeSpy() as spy, np.errstate(all="ignore"):
            res = Simulator(m).simulate_to_steady_state(tolerance=tol, rel_norm=rel).get_result()
        v = res.value
        k = result_kind(v)
        out = {"kind": k, "steps": spy.steps}
        if k == "Success":
            fr = v.raw_variables[-1]
            out.update(kind="Steady", t=float(fr.index[-1]), y=[float(fr["x0"].iloc[-1]), float(fr["x1"].iloc[-1])])
    except _Timeout:
        out = {"kind": "Err:Timeout", "steps": []}
    except Exception as e:  # noqa: BLE001
        out = {"kind": "Err:" + type(e).__name__, "detail": str(e)[:200], "steps": []}
    finally:
        signal.setitimer(signal.ITIMER_REAL, 0)
    return out


def domain_oracle(spec: dict, tol: float, rel: bool, out: dict) -> tuple[str, str] | None:
    """dx0/dt = k_in > 0: x0 grows by 100*k_in >= 0.2 in every step, for ever -- the network has NO steady state, so
    any state presented as steady is wrong (the tolerances of this stage are far below that change; under the relative
    norm the change of x0 is >= 1/1000 per step within the budget)."""
    if out["kind"].startswith("Err"):
        return "violation", f"steady-state search on {spec} ended with {out['kind']} {out.get('detail', '')}"
    if out["kind"] != "Steady":
        return None
    return "violation", (
        f"dx0/dt = {spec['k_in']} (x0 accumulates without bound, no steady state) with the production of x1 = "
        f"{'sqrt(1 - x0)' if spec['law'] == 'sqrt' else 'arcsin(x0)'} undefined for x0 > 1: the search (tolerance={tol}, "
        f"rel_norm={rel}) returned SUCCESS with state {out['y']} at t={out['t']}"
    )


# ---------------------------------------------------------------------------------------
# (e) parameter sweeps on ONE Simulator, results read afterwards
# ---------------------------------------------------------------------------------------


def net_with(net: dict, r_idx: int, value: float) -> dict:
    n2 = dict(net)
    rx = list(net["reactions"])
    rx[r_idx] = (*rx[r_idx][:-1], float(value))
    n2["reactions"] = rx
    return n2


def run_sweep(net: dict, r_idx: int, values: list[float], tol: float, rel: bool) -> dict:
    """clear_results(); update_parameter(p<r_idx>, v); simulate_to_steady_state().get_result() for every v with ONE
    Simulator / ONE model object; the collected results are looked at only AFTER the loop (lazy evaluation)."""
    import numpy as np

    from harness import c15
    from mxlpy import Simulator

    signal.signal(signal.SIGALRM, _alarm)
    signal.setitimer(signal.ITIMER_REAL, 180.0)
    out: dict[str, Any] = {"results": [], "raised": None}
    try:
        m = c15.build_model(net)
        y0 = {f"x{i}": float(v) for i, v in enumerate(net["y0"])} if net["user_y0"] else None
        sim = Simulator(m, y0=y0)
        collected = []
        with np.errstate(all="ignore"):
            for v in values:
                sim.clear_results()
                sim.update_parameter(f"p{r_idx}", float(v))
                collected.append(sim.simulate_to_steady_state(tolerance=tol, rel_norm=rel).get_result())
            names = [f"x{i}" for i in range(net["d"])]
            for res in collected:
                val = res.value
                k = result_kind(val)
                if k != "Success":
                    out["results"].append({"kind": k})
                    continue
                fr = val.raw_variables[-1]
                fl = val.fluxes
                out["results"].append({"kind": "Steady", "t": float(fr.index[-1]), "y": [float(fr[nm].iloc[-1]) for nm in names],
                                       "fluxes": [float(fl[f"r{r}"].iloc[-1]) for r in range(len(net["reactions"]))]})
    except _Timeout:
        out["raised"] = "Timeout"
    except Exception as e:  # noqa: BLE001
        out["raised"] = type(e).__name__ + ": " + str(e)[:160]
    finally:
        signal.setitimer(signal.ITIMER_REAL, 0)
    return out


def sweep_oracle(net: dict, r_idx: int, values: list[float], tol: float, rel: bool, sw: dict) -> tuple[str, str] | None:
    """Every collected result is judged as a single search on the network with ITS value of the parameter: state near
    that network's analytic steady state, reported fluxes balancing at it."""
    from harness import c15

    desc = f"sweep of p{r_idx} over {values} on ONE Simulator (network {net['kind']} {net['reactions']} y0={net['y0']} tol={tol} rel_norm={rel})"
    if sw["raised"]:
        return "violation", f"{desc} raised {sw['raised']}"
    for v, out in zip(values, sw["results"]):
        verdict = c15.oracle(net_with(net, r_idx, v), tol, rel, out, {})
        if verdict is not None and not verdict[0].startswith("undecided:"):
            want = expected_fluxes(net_with(net, r_idx, v), out.get("y")) if out["kind"] == "Steady" else None
            return verdict[0], (f"{desc}: the result collected for p{r_idx}={v} (read after the sweep): {verdict[1]}; reported fluxes "
                                f"{out.get('fluxes')}, rate laws at the reported state under p{r_idx}={v}: {want}")
    return None


def expected_fluxes(net: dict, y: list[float] | None) -> list[float] | None:
    """the rate laws of the generated linear networks, evaluated independently of the implementation"""
    if y is None:
        return None
    out = []
    for rx in net["reactions"]:
        out.append(float(rx[2]) if rx[0] == "in" else float(rx[-1]) * y[rx[1]])
    return out
