"""C12 -- model descriptions: generator, builder of the real mxlpy.Model through the public API,
reader of the exact inputs of to_symbolic_model (containers + the consulted parts of the cache),
and the Gallina literal printer for coq/symbolic.

Names are small ints: 0 is "time"; k>0 is f"n{k:04d}" (never equal to a function's argument name,
so property C06's sequential-substitution defect cannot interfere).

desc = {
  "vars": [(n, ("plain", v) | ("ia", fid, [args]))],
  "pars": [(n, ("plain", v) | ("ia", fid, [args]))],
  "data": [n],
  "der":  [(n, fid, [args])],                                   declaration order
  "rxn":  [(n, fid, [args], [(cpd, ("num", q) | ("fun", fid, [args]))])],
  "ro":   [(n, fid, [args])],
  "surr": [(n, "mock" | "qss", [args], [(out, fid)], [(flux_out, [(cpd, ("num", q) | ("fun", fid, [args]))])])],
          optional; every output out_j = table[fid_j](*args); an output listed as flux_out is a FLUX of
          the surrogate (it has a stoichiometry and appears as a reaction name in the cache tables)
  "kind": str,
}
"""

from __future__ import annotations

from fractions import Fraction
from typing import Any

from harness import c12_fns
from harness.common import clist, cn, cq

COEFS = [Fraction(-2), Fraction(-1), Fraction(-1, 2), Fraction(1, 2), Fraction(1), Fraction(2), Fraction(3)]


def nm(k: int) -> str:
    return "time" if k == 0 else f"n{k:04d}"


def un(s: str) -> int:
    return 0 if s == "time" else int(s[1:])


KINDS = [
    "plain", "plain", "plain", "plain", "shuffled", "shuffled", "shuffled", "shuffled",
    "ia_par_unref", "ia_par_unref", "ia_par_ref", "ia_var", "time", "dyn", "statcoef", "novarrxn",
    "rate_dep", "untranslatable", "data", "readout", "nopars",
    "surr_rxn", "surr_rxn", "surr_der", "surr_flux", "surr_coef", "surr_unused",
]


def gen_desc(rng, kind: str | None = None, *, poly_only: bool = True) -> dict:
    kind = kind or rng.choice(KINDS)
    tab = c12_fns.table()
    ids = c12_fns.POLY_IDS if poly_only else c12_fns.POLY_IDS + [50, 51, 52]
    by_ar: dict[int, list[int]] = {}
    for i in ids:
        by_ar.setdefault(tab[i][1], []).append(i)
    counter = [10]

    def fresh() -> int:
        counter[0] += rng.randint(1, 3)
        return counter[0]

    n_var = rng.randint(1, 4)
    n_par = 0 if kind == "nopars" else rng.randint(1, 4)
    # names are drawn so that string order differs from declaration order
    var_names = [fresh() for _ in range(n_var)]
    par_names = [fresh() for _ in range(n_par)]
    rng.shuffle(var_names)
    rng.shuffle(par_names)
    desc: dict[str, Any] = {"vars": [], "pars": [], "data": [], "der": [], "rxn": [], "ro": [], "kind": kind}
    for n in var_names:
        desc["vars"].append((n, ("plain", rng.randint(-3, 3))))
    for n in par_names:
        desc["pars"].append((n, ("plain", rng.randint(-3, 3))))
    pool = var_names + par_names

    def pick(ar_choices=(1, 1, 2, 2, 2, 3, 3, 4, 5), from_pool=None, allow0=False):
        fp = from_pool if from_pool is not None else pool
        ars = [a for a in ar_choices if a in by_ar and (fp or a == 0)]
        if allow0 and 0 in by_ar and rng.random() < 0.1:
            ars.append(0)
        ar = rng.choice(ars)
        fid = rng.choice(by_ar[ar])
        return fid, [rng.choice(fp) for _ in range(ar)]

    # derived chain (dependency order first; shuffled later)
    n_der = rng.randint(0, 4) if kind not in ("shuffled",) else rng.randint(2, 5)
    ders = []
    dpool = list(pool)
    for _ in range(n_der):
        n = fresh()
        fid, args = pick(from_pool=dpool)
        if kind == "shuffled" and ders and rng.random() < 0.8:
            args[rng.randrange(len(args))] = ders[-1][0]  # make the chain real
        ders.append((n, fid, args))
        dpool.append(n)
    ia_par = None
    if kind in ("ia_par_unref", "ia_par_ref"):
        n = fresh()
        fid, args = pick(from_pool=par_names or var_names)
        ia_par = n
        pos = rng.choice([0, 0, rng.randint(0, len(desc["pars"]))])
        desc["pars"].insert(pos, (n, ("ia", fid, args)))
    if kind == "ia_var":
        n = fresh()
        fid, args = pick(from_pool=par_names or var_names)
        desc["vars"].insert(rng.randint(0, len(desc["vars"])), (n, ("ia", fid, args)))
        var_names.append(n)
    all_vars = [n for n, _ in desc["vars"]]
    # reactions
    n_rxn = rng.randint(1, 5)
    rxns = []
    rpool = dpool
    for _ in range(n_rxn):
        n = fresh()
        fid, args = pick(from_pool=rpool, allow0=True)
        k = rng.randint(1, min(3, len(all_vars)))
        cpds = rng.sample(all_vars, k)
        st = [(c, ("num", rng.choice(COEFS))) for c in cpds]
        rxns.append([n, fid, args, st])
    # every variable gets a reaction unless the kind says otherwise
    covered = {c for r in rxns for c, _ in r[3]}
    for v in all_vars:
        if v not in covered:
            r = rng.choice(rxns)
            r[3].append((v, ("num", rng.choice(COEFS))))
    if kind == "novarrxn":
        v = rng.choice(all_vars)
        for r in rxns:
            r[3] = [(c, q) for c, q in r[3] if c != v]
        rxns = [r for r in rxns if r[3]] or [[fresh(), by_ar[1][0], [pool[0]], []]]
    if kind == "ia_par_ref":
        r = rng.choice(rxns)
        if r[2]:
            r[2][rng.randrange(len(r[2]))] = ia_par
        else:
            r[1], r[2] = by_ar[1][0], [ia_par]
    if kind == "time":
        tgt = rng.choice(["der", "rxn"]) if ders else "rxn"
        lst = ders if tgt == "der" else rxns
        cands = [i for i, e in enumerate(lst) if e[2]]
        if cands:
            i = rng.choice(cands)
            e = list(lst[i])
            e[2] = list(e[2])
            e[2][rng.randrange(len(e[2]))] = 0
            lst[i] = tuple(e) if tgt == "der" else e
        else:
            rxns[0][1], rxns[0][2] = by_ar[1][0], [0]
    if kind == "dyn":
        r = rng.choice(rxns)
        fid, args = pick(ar_choices=(1, 2), from_pool=all_vars + [d[0] for d in ders if any(a in all_vars for a in d[2])] or all_vars)
        if not any(a in all_vars or a in [d[0] for d in ders] for a in args):
            args[0] = all_vars[0]
        i = rng.randrange(len(r[3])) if r[3] else None
        if i is None:
            r[3].append((all_vars[0], ("fun", fid, args)))
        else:
            r[3][i] = (r[3][i][0], ("fun", fid, args))
    if kind == "statcoef" and par_names:
        r = rng.choice(rxns)
        fid, args = pick(ar_choices=(1, 2), from_pool=par_names)
        i = rng.randrange(len(r[3]))
        r[3][i] = (r[3][i][0], ("fun", fid, args))
    if kind == "rate_dep":
        n = fresh()
        ders.append((n, by_ar[1][0], [rxns[0][0]]))
        rxns.append([fresh(), by_ar[1][0], [n], [(rng.choice(all_vars), ("num", Fraction(1)))]])
    if kind == "untranslatable":
        tgt = rng.choice(["der", "rxn"]) if ders else "rxn"
        if tgt == "der":
            i = rng.randrange(len(ders))
            ders[i] = (ders[i][0], c12_fns.UNTRANSLATABLE, [rng.choice(pool)])
        else:
            r = rng.choice(rxns)
            r[1], r[2] = c12_fns.UNTRANSLATABLE, [rng.choice(rpool)]
    if kind == "data":
        desc["data"].append(fresh())
    if kind.startswith("surr_"):
        # one or two surrogates; their arguments are variables / parameters / derived values
        desc["surr"] = []
        outs_all: list[int] = []
        for _ in range(rng.choice([1, 1, 2])):
            sn = fresh()
            ar = rng.choice([1, 2])
            sargs = [rng.choice(all_vars if rng.random() < 0.7 else dpool) for _ in range(ar)]
            n_out = rng.choice([1, 1, 2])
            outs = [(fresh(), rng.choice(by_ar[ar])) for _ in range(n_out)]
            desc["surr"].append([sn, rng.choice(["mock", "qss"]), sargs, outs, []])
            outs_all += [o for o, _ in outs]
        s0 = desc["surr"][0]
        o0 = s0[3][0][0]
        if kind == "surr_rxn":
            # a surrogate OUTPUT is an argument of an ordinary reaction
            r = rng.choice(rxns)
            if r[2]:
                r[2][rng.randrange(len(r[2]))] = o0
            else:
                r[1], r[2] = by_ar[1][0], [o0]
        elif kind == "surr_der":
            # ... of a derived value (which a reaction may or may not use)
            n = fresh()
            ders.append((n, by_ar[1][0], [o0]))
            if rng.random() < 0.6:
                r = rng.choice(rxns)
                if r[2]:
                    r[2][rng.randrange(len(r[2]))] = n
        elif kind == "surr_coef":
            # ... of a computed stoichiometric coefficient
            r = rng.choice(rxns)
            i = rng.randrange(len(r[3]))
            r[3][i] = (r[3][i][0], ("fun", by_ar[1][0], [o0]))
        elif kind == "surr_flux":
            # the surrogate only contributes FLUXES (outputs with stoichiometries)
            for sdesc in desc["surr"]:
                for o, _ in sdesc[3][: rng.choice([1, len(sdesc[3])])]:
                    cpds = rng.sample(all_vars, rng.randint(1, min(2, len(all_vars))))
                    sdesc[4].append((o, [(c, ("num", rng.choice(COEFS))) for c in cpds]))
        # surr_unused: nothing names an output (a readout may)
        if kind == "surr_unused" and rng.random() < 0.5:
            desc["ro"].append((fresh(), by_ar[1][0], [o0]))
    if kind == "readout" or rng.random() < 0.1:
        fid, args = pick(from_pool=rpool)
        desc["ro"].append((fresh(), fid, args))
    # declaration orders
    if kind in ("shuffled", "rate_dep") or rng.random() < 0.5:
        rng.shuffle(ders)
        if kind == "shuffled" and len(ders) >= 2:
            ders.reverse() if rng.random() < 0.5 else None
    if rng.random() < 0.5:
        rng.shuffle(rxns)
    desc["der"] = [tuple(d) for d in ders]
    desc["rxn"] = [(r[0], r[1], list(r[2]), list(r[3])) for r in rxns]
    return desc


def gen_branch_desc(rng) -> tuple[dict, list[int]]:
    """A convertible model in which one rate law, derived value or state-dependent computed coefficient BRANCHES ON THE
    SIGN of a model variable (or of a sum / product / difference of variables; one case in four: of a parameter -- negative in two cases
    of three -- or of variable * parameter): harness/c12_fns ids 60..66
    (`if v < 0`, conditional expressions, hand-written abs / rectifier / gate).  fn_to_sympy turns them into
    Piecewise; the branch that is taken for a NEGATIVE argument is part of the right-hand side like any other.
    -> (desc, state) with every state entry non-zero and the sign-tested variable negative in two cases of three
    (oracle only: the Coq expression fragment is polynomial)."""
    tab = c12_fns.table()
    desc = gen_desc(rng, rng.choice(["plain", "plain", "shuffled", "dyn", "nopars"]))
    varsn = [n for n, _ in desc["vars"]]
    plain = [n for n, v in desc["pars"] if v[0] == "plain"]
    dern = [d[0] for d in desc["der"]]
    top = [max([n for n, _ in desc["vars"]] + [n for n, _ in desc["pars"]] + dern + [r[0] for r in desc["rxn"]] + [r[0] for r in desc["ro"]])]

    def fresh() -> int:
        top[0] += rng.randint(1, 3)
        return top[0]

    ders = [tuple(d) for d in desc["der"]]
    rxns = [[r[0], r[1], list(r[2]), list(r[3])] for r in desc["rxn"]]
    sv = rng.choice(varsn)
    sign_arg = sv
    how = rng.choice(["var", "var", "var", "sum", "prod", "diff"]) if len(varsn) >= 2 else "var"
    if plain and rng.random() < 0.25:
        how = rng.choice(["par", "par", "varpar"])  # the sign of a PARAMETER (or of variable * parameter) decides
    if how == "par":
        sign_arg = rng.choice(plain)
        if rng.random() < 0.67:
            # ... observed at a NEGATIVE value of that parameter in two cases of three
            desc["pars"] = [(n, ("plain", -rng.randint(1, 3))) if n == sign_arg else (n, v) for n, v in desc["pars"]]
    elif how == "varpar":
        sign_arg = fresh()
        ders.append((sign_arg, 23, [sv, rng.choice(plain)]))
    elif how != "var":
        # a derived value sympy can (sum / product of variables) or cannot (difference) sign from the variables
        other = rng.choice([v for v in varsn if v != sv])
        sign_arg = fresh()
        ders.append((sign_arg, {"sum": 25, "prod": 23, "diff": 22}[how], [sv, other]))
    fid = rng.choice(c12_fns.BRANCH_IDS)
    pool = varsn + plain + dern
    args = [sign_arg] + [rng.choice(pool) for _ in range(tab[fid][1] - 1)]
    where = rng.choice(["rxn", "rxn", "der", "coef"])
    if where == "rxn":
        r = rng.choice(rxns)
        r[1], r[2] = fid, args
    elif where == "der":
        n = fresh()
        ders.append((n, fid, args))
        r = rng.choice(rxns)
        if r[2]:
            r[2][rng.randrange(len(r[2]))] = n
        else:
            r[1], r[2] = 0, [n]  # f_id
    else:
        r = rng.choice(rxns)
        i = rng.randrange(len(r[3]))
        r[3][i] = (r[3][i][0], ("fun", fid, args))
    if rng.random() < 0.5:
        rng.shuffle(ders)
    desc["der"] = ders
    desc["rxn"] = [(r[0], r[1], r[2], r[3]) for r in rxns]
    desc["kind"] = f"branch_{where}/{how}"
    x = [rng.choice([-3, -2, -1, 1, 2, 3]) for _ in varsn]
    if rng.random() < 0.67:
        x[varsn.index(sv)] = -abs(x[varsn.index(sv)])
    return desc, x


# coefficients of unit-conversion size (amounts tracked in different units, compartment volume ratios): decimal
# literals and dyadic ones; next to coefficients of order 1 they span 6 to 12 orders of magnitude
TINY_COEFS = [
    Fraction("3e-7"), Fraction("2e-9"), Fraction("1.3e-6"), Fraction("7e-7"), Fraction("4.5e-8"), Fraction("2.5e-7"),
    Fraction("1e-12"), Fraction("6.4e-6"), Fraction("9.99e-7"), Fraction("1.234567e-6"), Fraction("5e-10"),
    Fraction(1, 2**21), Fraction(1, 2**20), Fraction(3, 2**20), Fraction(5, 2**23), Fraction(1, 2**30), Fraction(1, 2**40),
]
# (fid, value of the first parameter, value of the second): a tiny factor COMPUTED from two parameters
# (23 = mul, 26 = proportional, 51 = div: cell volume / medium volume); Model._create_cache folds it to a number
TINY_RATIOS = [
    (23, Fraction(1, 2**11), Fraction(1, 2**10)), (26, Fraction(1, 2**15), Fraction(1, 2**15)), (23, Fraction("3e-4"), Fraction("1e-3")),
    (51, Fraction("2e-12"), Fraction("1e-3")), (51, Fraction("7e-10"), Fraction("1e-3")), (51, Fraction(3), Fraction(10**7)),
    (51, Fraction(1), Fraction(2**21)),
]


def gen_tiny_desc(rng) -> tuple[dict, list[int], dict | None]:
    """A convertible polynomial model in which ONE variable (a big pool tracked in other units) has only coefficients of
    unit-conversion size (|c| between 1e-12 and 6.4e-6, decimal or dyadic, either sign), one case in two a further tiny
    coefficient sits next to ordinary ones in another equation, and in four cases of ten one of the pool's coefficients
    is COMPUTED from two parameters (product or ratio; static: folded to a number by Model._create_cache).  States are
    non-zero integers, the other parameters integers.  -> (desc, state, parameter update or None).  Oracle only: the
    decimal coefficients are not dyadic, so nothing here is exact in binary64 (tolerance = 1e-11 * the magnitude of
    the evaluated expression, c12_oracle.absval)."""
    desc = gen_desc(rng, rng.choice(["plain", "plain", "plain", "shuffled", "nopars"]))
    varsn = [n for n, _ in desc["vars"]]
    plain = [n for n, v in desc["pars"] if v[0] == "plain"]
    top = [max([n for n, _ in desc["vars"]] + [n for n, _ in desc["pars"]] + [d[0] for d in desc["der"]] + [r[0] for r in desc["rxn"]] + [r[0] for r in desc["ro"]])]

    def fresh() -> int:
        top[0] += rng.randint(1, 3)
        return top[0]

    def tiny() -> Fraction:
        c = rng.choice(TINY_COEFS)
        return c if rng.random() < 0.5 else -c

    rxns = [[r[0], r[1], list(r[2]), list(r[3])] for r in desc["rxn"]]
    pool = rng.choice(varsn)
    for r in rxns:
        r[3] = [(c, ("num", tiny())) if c == pool else (c, q) for c, q in r[3]]
    how = "num"
    if rng.random() < 0.5:
        r = rng.choice(rxns)
        i = rng.randrange(len(r[3]))
        r[3][i] = (r[3][i][0], ("num", tiny()))
        how = "num+mixed"
    if rng.random() < 0.4:
        fid, va, vb = rng.choice(TINY_RATIOS)
        pa, pb = fresh(), fresh()
        desc["pars"] = list(desc["pars"]) + [(pa, ("plain", va)), (pb, ("plain", vb))]
        cands = [r for r in rxns if any(c == pool for c, _ in r[3])]
        r = rng.choice(cands)
        i = rng.choice([k for k, (c, _) in enumerate(r[3]) if c == pool])
        r[3][i] = (pool, ("fun", fid, [pa, pb]))
        how = "ratio" + how[3:]
    desc["rxn"] = [(r[0], r[1], r[2], r[3]) for r in rxns]
    desc["kind"] = f"tiny/{how}"
    x = [rng.choice([-3, -2, -1, 1, 2, 3]) for _ in varsn]
    p2 = {k: rng.randint(-3, 3) for k in plain if rng.random() < 0.7} if plain and rng.random() < 0.4 else None
    return desc, x, p2


def is_tiny(desc: dict) -> bool:
    return str(desc.get("kind", "")).startswith(("tiny/", "corpus/tiny"))


# the demo of seeded change C12-9 (polynomial uptake instead of Michaelis-Menten): a substrate is taken up from a big
# medium pool into a small cell; the medium pool's coefficient is the conversion factor 3e-7, the waste returned to the
# medium is scaled by the volume ratio v_cell / v_medium = 2e-9 (a Derived of two parameters: static)
TINY_CORPUS = [
    (
        {"vars": [(11, ("plain", 10)), (12, ("plain", 1)), (13, ("plain", 1))],
         "pars": [(14, ("plain", 4)), (15, ("plain", 3)), (16, ("plain", 2)), (17, ("plain", Fraction("2e-12"))), (18, ("plain", Fraction("1e-3")))],
         "data": [], "der": [],
         "rxn": [(21, 29, [11, 14], [(11, ("num", Fraction("-3e-7"))), (12, ("num", Fraction(1)))]),
                 (22, 29, [12, 15], [(12, ("num", Fraction(-1))), (13, ("fun", 51, [17, 18]))]),
                 (23, 29, [13, 16], [(13, ("num", Fraction(-1, 2)))])],
         "ro": [], "kind": "corpus/tiny-conversion-factors"},
        0, [5, 2, 3], None,
    ),
    (
        {"vars": [(11, ("plain", 1)), (12, ("plain", 2))], "pars": [(13, ("plain", 3))], "data": [], "der": [],
         "rxn": [(21, 29, [11, 13], [(11, ("num", Fraction("-1.3e-6"))), (12, ("num", Fraction(1)))]),
                 (22, 31, [12, 12, 13], [(12, ("num", Fraction(-1))), (11, ("num", Fraction(1, 2**21)))])],
         "ro": [], "kind": "corpus/tiny-nearest-unit-fraction"},
        1, [2, -3], {13: 2},
    ),
]


def uses_branching(desc: dict) -> bool:
    ids = set(c12_fns.BRANCH_IDS)
    return (
        any(d[1] in ids for d in desc["der"])
        or any(r[1] in ids or any(c[0] == "fun" and c[1] in ids for _, c in r[3]) for r in desc["rxn"])
    )


# minimised past failures; they run first on every run: (desc, t, x, p2)
CORPUS = [
    # a state-dependent computed coefficient on a reaction whose translated rate is a SymPy Integer
    # (minus(a, a) = 0): the snapshot's `[symbols...] * rxns[rxn]` repeats the list instead of raising
    # and the coefficient function's unsubstituted body (symbol `x`) lands in the equations
    (
        {"vars": [(11, ("plain", 1)), (12, ("plain", 2))], "pars": [(13, ("plain", 3))], "data": [], "der": [],
         "rxn": [(21, 22, [11, 11], [(11, ("fun", 24, [12])), (12, ("num", Fraction(-1)))]),
                 (23, 29, [12, 13], [(12, ("num", Fraction(-1))), (11, ("num", Fraction(1)))])],
         "ro": [], "kind": "corpus/dyn-integer-rate"},
        0, [1, 2], None,
    ),
    # ... and on an ordinary rate
    (
        {"vars": [(11, ("plain", 1)), (12, ("plain", 2))], "pars": [(13, ("plain", 3))], "data": [], "der": [],
         "rxn": [(21, 29, [11, 13], [(11, ("num", Fraction(-1))), (12, ("fun", 24, [11]))])],
         "ro": [], "kind": "corpus/dyn"},
        1, [2, -1], {13: 2},
    ),
    # the demo of seeded change C12-4: a rectified leak `-g*V if V < 0 else 0` on a potential-like variable and a
    # hand-written |V| in a coupling term, observed at V = -2 (oracle only: Piecewise is outside the Coq fragment)
    (
        {"vars": [(11, ("plain", -2)), (12, ("plain", 2))], "pars": [(13, ("plain", 3)), (14, ("plain", 1)), (15, ("plain", 2))], "data": [], "der": [],
         "rxn": [(21, 60, [11, 13], [(11, ("num", Fraction(1)))]),
                 (22, 63, [11, 12, 14], [(12, ("num", Fraction(-1)))]),
                 (23, 20, [15], [(12, ("num", Fraction(1)))]),
                 (24, 29, [12, 15], [(11, ("num", Fraction(-1, 2)))])],
         "ro": [], "kind": "corpus/sign-branch"},
        0, [-2, 2], None,
    ),
]


def expected_convertible(desc: dict) -> bool:
    """Independent rule: is this a model the conversion has to accept whatever its declaration
    order?  (plain numbers as coefficients or parameter-only computed ones, no time, no
    assignment-defined parameter referenced, derived values do not depend on rates, translatable
    functions, every variable has a reaction)."""
    tab = c12_fns.table()
    plain_pars = {n for n, v in desc["pars"] if v[0] == "plain"}
    varsn = {n for n, _ in desc["vars"]}
    dern = {d[0] for d in desc["der"]}
    okn = plain_pars | varsn | dern
    # a surrogate that contributes a flux has no symbolic form: the model is not convertible; a
    # surrogate output is not a name the conversion knows (not in okn), so naming one is caught below
    if any(s[4] for s in desc.get("surr", [])):
        return False
    for _, fid, args in desc["der"]:
        if fid == c12_fns.UNTRANSLATABLE or any(a not in okn for a in args):
            return False
    covered = set()
    for _, fid, args, st in desc["rxn"]:
        if fid == c12_fns.UNTRANSLATABLE or any(a not in okn for a in args):
            return False
        for cpd, coef in st:
            covered.add(cpd)
            if coef[0] == "fun":
                if tab[coef[1]][1] != len(coef[2]):
                    return False
                # computed coefficient: static (its value is folded) iff all arguments are parameters /
                # derived parameters; a state-dependent one is translated like a rate
                if not _param_only(desc, coef[2], plain_pars) and (
                    coef[1] == c12_fns.UNTRANSLATABLE or any(a not in okn for a in coef[2])
                ):
                    return False
    return varsn <= covered


def _param_only(desc, args, plain_pars) -> bool:
    der = {d[0]: d for d in desc["der"]}
    ia = {n for n, v in desc["pars"] if v[0] == "ia"}
    seen: set[int] = set()

    def po(a) -> bool:
        if a in plain_pars or a in ia:
            return True
        if a in der and a not in seen:
            seen.add(a)
            return all(po(b) for b in der[a][2])
        return False

    return all(po(a) for a in args)


def surrogate_outputs(desc: dict) -> set[int]:
    return {o for s in desc.get("surr", []) for o, _ in s[3]}


def uses_surrogate(desc: dict) -> bool:
    """Independent rule: does the right-hand side depend on a surrogate -- a surrogate flux, or an
    output named (directly or through derived values) by a rate or a computed coefficient?  Such a
    model has no symbolic form: the conversion has to raise and the simulator has to fall back.
    (A derived value that names an output but feeds no rate does not make the right-hand side depend
    on the surrogate: refusing or converting such a model are both fine.)"""
    outs = surrogate_outputs(desc)
    if not outs:
        return False
    if any(s[4] for s in desc["surr"]):
        return True
    der = {d[0]: d[2] for d in desc["der"]}
    seen: set[int] = set()

    def dep(a) -> bool:
        if a in outs:
            return True
        if a in der and a not in seen:
            seen.add(a)
            return any(dep(b) for b in der[a])
        return False

    for _, _, args, st in desc["rxn"]:
        seen.clear()
        if any(dep(a) for a in args):
            return True
        for _, coef in st:
            seen.clear()
            if coef[0] == "fun" and any(dep(a) for a in coef[2]):
                return True
    return False


def has_static_computed_coefficient(desc: dict) -> bool:
    plain_pars = {n for n, v in desc["pars"] if v[0] == "plain"}
    return any(coef[0] == "fun" and _param_only(desc, coef[2], plain_pars) for r in desc["rxn"] for _, coef in r[3])


# ---------------------------------------------------------------------------------------
# builder
# ---------------------------------------------------------------------------------------


def build(desc: dict, par_override: dict[int, Any] | None = None):
    import pandas as pd
    from mxlpy import Derived, InitialAssignment, Model

    tab = c12_fns.table()
    m = Model()
    for n, v in desc["vars"]:
        m.add_variable(nm(n), float(v[1]) if v[0] == "plain" else InitialAssignment(fn=tab[v[1]][0], args=[nm(a) for a in v[2]]))
    for n, v in desc["pars"]:
        if v[0] == "plain":
            val = v[1] if par_override is None or n not in par_override else par_override[n]
            m.add_parameter(nm(n), float(val))
        else:
            m.add_parameter(nm(n), InitialAssignment(fn=tab[v[1]][0], args=[nm(a) for a in v[2]]))
    for n in desc["data"]:
        m.add_data(nm(n), pd.Series([1.0, 2.0]))
    for n, fid, args in desc["der"]:
        m.add_derived(nm(n), fn=tab[fid][0], args=[nm(a) for a in args])
    for n, fid, args, st in desc["rxn"]:
        sto = {}
        for cpd, coef in st:
            sto[nm(cpd)] = float(coef[1]) if coef[0] == "num" else Derived(fn=tab[coef[1]][0], args=[nm(a) for a in coef[2]])
        m.add_reaction(nm(n), fn=tab[fid][0], args=[nm(a) for a in args], stoichiometry=sto)
    for n, fid, args in desc["ro"]:
        m.add_readout(nm(n), fn=tab[fid][0], args=[nm(a) for a in args])
    for n, flavour, sargs, outs, fluxes in desc.get("surr", []):
        fs = [tab[fid][0] for _, fid in outs]

        def predict(*a, _fs=fs):
            return tuple(f(*a) for f in _fs)

        sto = {
            nm(o): {nm(c): (float(coef[1]) if coef[0] == "num" else Derived(fn=tab[coef[1]][0], args=[nm(a) for a in coef[2]])) for c, coef in st}
            for o, st in fluxes
        }
        kw = {"args": [nm(a) for a in sargs], "outputs": [nm(o) for o, _ in outs], "stoichiometries": sto}
        if flavour == "qss":
            from mxlpy.surrogates import qss

            m.add_surrogate(nm(n), qss.Surrogate(model=predict, **kw))
        else:
            from mxlpy.surrogates.abstract import MockSurrogate

            m.add_surrogate(nm(n), MockSurrogate(fn=predict, **kw))
    return m


# ---------------------------------------------------------------------------------------
# the exact inputs of to_symbolic_model, read from the real model + its cache
# ---------------------------------------------------------------------------------------


class InputAssumptionBroken(Exception):
    pass


def read_inputs(m) -> dict:
    from mxlpy.types import InitialAssignment

    from harness.common import to_fraction

    tab = c12_fns.table()
    fid_of = {id(v[0]): k for k, v in tab.items()}
    cache = m._create_cache()  # noqa: SLF001
    vars_ = list(m._variables)  # noqa: SLF001
    if list(cache.var_names) != vars_ or list(cache.initial_conditions) != vars_ or m.get_variable_names() != vars_:
        raise InputAssumptionBroken("var_names / initial_conditions / get_variable_names() no longer list _variables in one order")
    if m.get_parameter_names() != list(m._parameters):  # noqa: SLF001
        raise InputAssumptionBroken("get_parameter_names() is not list(_parameters)")
    pars = []
    for k, p in m._parameters.items():  # noqa: SLF001
        if isinstance(p.value, InitialAssignment):
            pars.append((un(k), ("ia", to_fraction(cache.all_parameter_values[k]))))
        else:
            pars.append((un(k), ("plain", to_fraction(p.value))))
    if list(m.get_parameter_values()) != [nm(n) for n, v in pars if v[0] == "plain"]:
        raise InputAssumptionBroken("get_parameter_values() is not the plain parameters in declaration order")

    def comp(c):
        return (fid_of[id(c.fn)], [un(a) for a in c.args])

    def stoich_of(sto):
        return [(un(c), ("fun", comp(f)) if hasattr(f, "fn") else ("num", to_fraction(f))) for c, f in sto.items()]

    # surrogates: names read from the model; the per-output function ids are recovered from the predict
    # closure the builder made (the model itself only knows `predict`); that each output really has this
    # value is checked inside Coq against Model.get_args (FnTab.surr_ok)
    surr = []
    surr_raw = []
    for k, sg in m._surrogates.items():  # noqa: SLF001
        fn = getattr(sg, "fn", None) or getattr(sg, "model", None)
        fs = (getattr(fn, "__kwdefaults__", None) or {}).get("_fs", [])
        if len(fs) != len(sg.outputs):
            raise InputAssumptionBroken("surrogate outputs do not match the builder's function list")
        surr.append((un(k), [un(a) for a in sg.args], [(un(o), fid_of[id(f)]) for o, f in zip(sg.outputs, fs, strict=True)]))
        # second loop of Model._create_cache: the surrogates' stoichiometries, after the reactions'
        surr_raw += [(un(r), stoich_of(sto)) for r, sto in sg.stoichiometries.items()]
    if m.get_surrogate_output_names(include_fluxes=True) != [nm(o) for _, _, outs in surr for o, _ in outs]:
        raise InputAssumptionBroken("get_surrogate_output_names(include_fluxes=True) is not the outputs in declaration order")

    return {
        "vars": [un(v) for v in vars_],
        "pars": pars,
        "data": [un(k) for k in m._data],  # noqa: SLF001
        "der": [(un(k), comp(v)) for k, v in m._derived.items()],  # noqa: SLF001
        "rxn": [(un(k), comp(v)) for k, v in m._reactions.items()],  # noqa: SLF001
        "order": [un(k) for k in cache.order],
        "stoich": [(un(c), [(un(r), to_fraction(n)) for r, n in st.items()]) for c, st in cache.stoich_by_cpds.items()],
        "dyn": [(un(c), [(un(r), comp(d)) for r, d in st.items()]) for c, st in cache.dyn_stoich_by_cpds.items()],
        # the model's own stoichiometries and what Model._create_cache classifies / evaluates them with
        "raw": [(un(k), stoich_of(r.stoichiometry)) for k, r in m._reactions.items()] + surr_raw,  # noqa: SLF001
        "surr": surr,
        "parnames": [un(k) for k in cache.all_parameter_values],
        "pv": [(un(k), to_fraction(v)) for k, v in cache.all_parameter_values.items()],
    }


# ---------------------------------------------------------------------------------------
# Gallina literals
# ---------------------------------------------------------------------------------------


def c_comp(c) -> str:
    return f"(mkComp {cn(c[0])} {clist(map(cn, c[1]))})"


def c_model(inp: dict) -> str:
    pars = clist(f"({cn(n)}, {'PPlain' if v[0] == 'plain' else 'PIA'} {cq(v[1])})" for n, v in inp["pars"])
    der = clist(f"({cn(n)}, {c_comp(c)})" for n, c in inp["der"])
    rxn = clist(f"({cn(n)}, {c_comp(c)})" for n, c in inp["rxn"])
    sto = clist(f"({cn(c)}, {clist(f'({cn(r)}, {cq(q)})' for r, q in st)})" for c, st in inp["stoich"])
    dyn = clist(f"({cn(c)}, {clist(f'({cn(r)}, {c_comp(d)})' for r, d in st)})" for c, st in inp["dyn"])
    surr = clist(
        f"({cn(n)}, mkSurr {clist(map(cn, args))} {clist(f'({cn(o)}, {cn(f)})' for o, f in outs)})" for n, args, outs in inp.get("surr", [])
    )
    return (
        f"(mkSM {clist(map(cn, inp['vars']))} {pars} {clist(map(cn, inp['data']))}\n      {der}\n      {rxn}\n"
        f"      {clist(map(cn, inp['order']))}\n      {sto}\n      {dyn}\n      {surr})"
    )


def c_raw(inp: dict) -> str:
    def coef(f) -> str:
        return f"CNum {cq(f[1])}" if f[0] == "num" else f"CFun {c_comp(f[1])}"

    return clist(f"({cn(r)}, {clist(f'({cn(c)}, {coef(f)})' for c, f in st)})" for r, st in inp["raw"])


def c_qlist(xs) -> str:
    return clist(cq(x) for x in xs)


def c_qmat(rows) -> str:
    return clist(c_qlist(r) for r in rows)


def c_err(kind: str) -> str:
    return {"ErrKey": "ErrKey", "ErrValue": "ErrValue", "ErrType": "ErrType", "ErrName": "ErrName"}.get(kind, "ErrUnmodelled")
