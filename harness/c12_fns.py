"""C12 function table (real module file: fn_to_sympy needs inspect.getsource).

ids 0..10   harness/fnlib.py (polynomial)
ids 20..33  polynomial members of the shipped rate-law library mxlpy.fns
id  40      a function fn_to_sympy cannot parse (-> ValueError "Unable to parse ...")
ids 50..53  rational members of mxlpy.fns -- used by the ORACLE only (not in coq/symbolic/FnTab.v)
ids 60..66  rate laws that BRANCH ON THE SIGN of an argument (if v < 0 / conditional expression / hand-written
            abs, rectifier, gate) -- fn_to_sympy turns them into Piecewise; ORACLE only (coq/symbolic/SignFold.v
            models what symbol assumptions do to such branches, see design/C12.md)

coq/symbolic/FnTab.v mirrors ids 0..40; a drift shows as a correspondence mismatch."""

from __future__ import annotations

from harness import fnlib


def f_pick(a):
    return [a, a + 1][0]


def b_rect_neg(v, g):
    # rectified leak: only flows while v < 0
    if v < 0:
        return -g * v
    return 0.0


def b_abs(v):
    return -v if v < 0 else v


def b_pos_part(v):
    if v >= 0:
        return v
    return 0.0


def b_abs_coupling(v, c, k):
    magnitude = -v if v < 0 else v
    return k * c * magnitude


def b_leaky(v, a):
    return v if v >= 0 else a * v


def b_sgn_sq(v):
    if v < 0:
        return -v * v
    else:
        return v * v


def b_gate(v, w):
    return w if v < 0 else 2 * w


BRANCH_IDS = [60, 61, 62, 63, 64, 65, 66]


def table() -> dict[int, tuple]:
    """id -> (callable, arity, polynomial?)"""
    from mxlpy import fns

    t: dict[int, tuple] = {}
    for i, (f, ar) in enumerate(zip(fnlib.FNS, fnlib.ARITY, strict=True)):
        t[i] = (f, ar, True)
    shipped = [
        (20, fns.constant, 1),
        (21, fns.neg, 1),
        (22, fns.minus, 2),
        (23, fns.mul, 2),
        (24, fns.twice, 1),
        (25, fns.add, 2),
        (26, fns.proportional, 2),
        (27, fns.moiety_1s, 2),
        (28, fns.moiety_2s, 3),
        (29, fns.mass_action_1s, 2),
        (30, fns.mass_action_1s_1p, 4),
        (31, fns.mass_action_2s, 3),
        (32, fns.mass_action_2s_1p, 5),
        (33, fns.diffusion_1s_1p, 3),
    ]
    for i, f, ar in shipped:
        t[i] = (f, ar, True)
    t[40] = (f_pick, 1, False)
    t[50] = (fns.michaelis_menten_1s, 3, False)
    t[51] = (fns.div, 2, False)
    t[52] = (fns.michaelis_menten_2s, 5, False)
    t[53] = (fns.one_div, 1, False)
    for i, f, ar in [(60, b_rect_neg, 2), (61, b_abs, 1), (62, b_pos_part, 1), (63, b_abs_coupling, 3),
                     (64, b_leaky, 2), (65, b_sgn_sq, 1), (66, b_gate, 2)]:
        t[i] = (f, ar, False)
    return t


POLY_IDS = list(range(11)) + list(range(20, 34))
UNTRANSLATABLE = 40
