"""Named mutations of /repo for the C07 self-test:  harness/c07_mutrun.sh <name>...  (own scratch copy, regenerates only
C07's Gen file afterwards)  or  MUTNAME=<name> tools/mutate.sh C07 harness/c07_mutations.py
(run inside the scratch copy; every mutation keeps tests/codegen, tests/symbolic and tests/test_sympy.py passing unless
noted in design/C07.md)."""
import os
import re
import subprocess
import sys
from pathlib import Path

name = os.environ.get("MUTNAME", "")
CG = Path("src/mxlpy/meta/codegen_model.py")
ST = Path("src/mxlpy/meta/source_tools.py")


def sub(path: Path, old: str, new: str, count: int = 1) -> None:
    s = path.read_text()
    if old not in s:
        sys.exit(f"mutation {name}: pattern not found in {path}")
    path.write_text(s.replace(old, new, count))


if name == "revert_dependency_order":
    subprocess.run(["patch", "-R", "-p1", "-s", "-i", "/verif/fixes/C07-dependency-order.diff"], check=True)
elif name == "revert_py_templates":
    subprocess.run(["patch", "-R", "-p1", "-s", "-i", "/verif/fixes/C07-py-vector-templates.diff"], check=True)
elif name == "ret_order_first_mention":
    sub(CG, "ret_order = [i for i in variables if i in diff_eqs]", "ret_order = list(diff_eqs)")
elif name == "last_reaction_wins":
    sub(CG, "diff_eqs.setdefault(var_name, {})[rxn_name] = factor", "diff_eqs[var_name] = {rxn_name: factor}")
elif name == "free_parameter_not_popped":
    sub(CG, "parameters.pop(key)", "parameters.get(key)")
elif name == "untranslatable_reaction_skipped":
    sub(CG, "                msg = f\"Unable to parse fn for reaction value '{name}'\"\n                raise ValueError(msg)",
        "                continue")
elif name == "if_branch_shares_symbols":
    # the if-body is translated on the enclosing symbol table itself: its assignments reach the else / fall-through path
    sub(ST, "                [*node.body, *remaining_body],\n                ctx.updated(symbols=dict(ctx.symbols)),",
        "                [*node.body, *remaining_body],\n                ctx,")
elif name == "else_branch_shares_symbols":
    # the else / fall-through path works on the enclosing table (harmless by itself) but is translated FIRST
    s = ST.read_text()
    m = re.search(r"            if_expr = _handle_fn_body\(\n.*?\n            \)\n            else_expr = _handle_fn_body\(\n.*?\n            \)\n", s, re.S)
    if not m:
        sys.exit("pattern")
    new = ("            branch = ctx.updated(symbols=dict(ctx.symbols))\n"
           "            else_expr = _handle_fn_body([*node.orelse, *remaining_body], branch)\n"
           "            if_expr = _handle_fn_body([*node.body, *remaining_body], branch)\n")
    ST.write_text(s.replace(m.group(0), new))
elif name == "tuple_assignment_sequential":
    sub(ST, "                for target, value in zip(target_elements, values, strict=True):\n"
            "                    ctx.symbols[cast(ast.Name, target).id] = cast(sympy.Expr, value)",
        "                for target, value_node in zip(target_elements, node.value.elts, strict=True):\n"
        "                    ctx.symbols[cast(ast.Name, target).id] = cast(sympy.Expr, _handle_expr(value_node, ctx))")
elif name == "coefficient_from_cache":
    subprocess.run(["patch", "-p1", "-s", "-i", "/verif/seeded/C07-1/patch.diff"], check=True)
elif name == "zip_not_strict":
    # seeded C07-6 in the source's own shape: a parameter that gets no argument stays behind as a bare symbol
    sub(ST, "dict(zip(fn_args, model_args, strict=True)), simultaneous=True", "dict(zip(fn_args, model_args)), simultaneous=True")
elif name == "defaults_filled_from_signature":
    # "support" for default values that forgets them: the unsupplied trailing parameters are dropped from the
    # binding (only as many names as arguments are zipped, strictly)
    sub(ST, "dict(zip(fn_args, model_args, strict=True)), simultaneous=True",
        "dict(zip(fn_args[: len(model_args)], model_args, strict=True)), simultaneous=True")
elif name == "kwonly_parameters_are_symbols":
    # keyword-only parameters enter the symbol table (and stay in the expression as bare symbols)
    sub(ST, "fn_args = [str(arg.arg) for arg in fn_def.args.args]",
        "fn_args = [str(arg.arg) for arg in fn_def.args.args]\n        kw_args = [str(arg.arg) for arg in fn_def.args.kwonlyargs]")
    sub(ST, "symbols={name: sympy.Symbol(name) for name in fn_args},", "symbols={name: sympy.Symbol(name) for name in [*fn_args, *kw_args]},")
elif name == "surplus_arguments_ignored":
    # more arguments than parameters (a callee with *args): the surplus is dropped -- harmless for a callee that ignores
    # *args, but the strictness of the binding is gone for too MANY arguments only
    sub(ST, "dict(zip(fn_args, model_args, strict=True)), simultaneous=True",
        "dict(zip(fn_args, model_args[: len(fn_args)], strict=True)), simultaneous=True")
elif name == "constants_first":
    # seeded C07-8 in a shape the extractor does not know: a module float constant wins over the symbol table
    sub(ST, "    value = ctx.symbols.get(node.id)\n    if value is None:",
        "    value = ctx.symbols.get(node.id)\n"
        "    if node.id in dict(inspect.getmembers(ctx.parent_module, predicate=lambda x: isinstance(x, float))):\n"
        "        value = None\n"
        "    if value is None:")
elif name == "constants_first_seeded":
    subprocess.run(["patch", "-p1", "-s", "-i", "/verif/seeded/C07-8/patch.diff"], check=True)
elif name == "zero_via_printer":
    subprocess.run(["patch", "-p1", "-s", "-i", "/verif/seeded/C07-9/patch.diff"], check=True)
elif name == "zero_integer_literal":
    # the explicit zero written as the integer literal 0 (fine in Python / TypeScript, E0308 in Rust)
    sub(CG, 'v="0.0"', 'v="0"')
elif name == "empty_argument_list_fix":
    subprocess.run(["patch", "-p1", "-s", "-i", "/verif/fixes/C07-empty-argument-list-strict.diff"], check=True)
else:
    sys.exit(f"unknown MUTNAME {name!r}")
