"""C08 -- round-trip SESSIONS under the interpreter's default settings (byte-code caching ON).

`./check` runs with PYTHONDONTWRITEBYTECODE=1, so inside the check's own process `sbml.read` always compiles the module
it has just generated.  A user's interpreter caches byte code: `read` writes the generated module to
~/.cache/mxlpy/mb_<stem>.py and imports it through the ordinary source loader, which trusts a cached .pyc whenever the
source's mtime (whole seconds) and size are unchanged.  This driver is started by harness/c08.py as a subprocess, imports
the libraries first (nothing is written next to them), then switches byte-code writing on with `sys.pycache_prefix`
pointing into the check's scratch directory and runs the sessions with harness.c08.session_oracle.

usage: python -m harness.c08_session <input.json> <scratch-dir>   (input {"sessions": [...], "traces": [...]})
       -> one line `C08SESSION {"results": [[kind, bad, at], ...], "traces": [[{op, modname, marker, t, size}, ...], ...]}`
"""

from __future__ import annotations

import json
import sys
from pathlib import Path


def run_trace(ops: list[list], scratch: Path, tag: str) -> list[dict]:
    """One history for the Coq model of read()/import_from_path (coq/sbmlexp/SbmlSession.v): ops are
    ["w", dir, stem, marker] (export the model whose parameter n200 is marker/2 to <dir>/<stem>.xml) and ["r", dir, stem].
    Per read: the marker of the model that came back, the module name valid_filename gives the stem, and mtime (whole
    seconds) and size of the generated module file -- what the source loader compares with its cached byte code."""
    import shutil
    import warnings

    from mxlpy import sbml
    from mxlpy.sbml._import import valid_filename

    from harness import c08

    root = scratch / f"trace_{tag}"
    cache = Path.home() / ".cache" / "mxlpy"
    out: list[dict] = []
    left: set[str] = set()
    try:
        for op in ops:
            d = root / str(op[1])
            d.mkdir(parents=True, exist_ok=True)
            f = d / f"{op[2]}.xml"
            name = valid_filename(f.stem)
            if op[0] == "w":
                m = c08.build_model(c08._sess_model(op[3] / 2), scratch)
                sbml.write(m, f)
                out.append({"op": "w", "modname": name})
                continue
            left.add(name)
            try:
                with warnings.catch_warnings():
                    warnings.simplefilter("ignore")
                    m2 = sbml.read(f)
                st = (cache / f"{name}.py").stat()
                out.append({"op": "r", "modname": name, "marker": float(m2.get_parameter_values()["n200"]) * 2, "t": int(st.st_mtime), "size": st.st_size})
            except Exception as e:  # noqa: BLE001
                out.append({"op": "r", "modname": name, "error": f"{type(e).__name__}: {e}"[:200]})
        return out
    finally:
        shutil.rmtree(root, ignore_errors=True)
        for name in left:
            (cache / f"{name}.py").unlink(missing_ok=True)
            sys.modules.pop(name, None)


def main(argv: list[str]) -> int:
    inp = json.loads(Path(argv[1]).read_text())
    sessions, traces = inp["sessions"], inp.get("traces", [])
    scratch = Path(argv[2])
    scratch.mkdir(parents=True, exist_ok=True)
    sys.path.insert(0, str(scratch))
    import libsbml  # noqa: F401
    import pysbml  # noqa: F401
    import sympy  # noqa: F401

    import mxlpy  # noqa: F401
    from mxlpy import sbml  # noqa: F401

    from harness import c08

    # from here on: the interpreter's default behaviour for modules imported from now on (the generated ones)
    sys.pycache_prefix = str(scratch / "pyc")
    sys.dont_write_bytecode = False
    out = []
    for k, steps in enumerate(sessions):
        try:
            out.append(list(c08.session_oracle(steps, scratch, f"d{k}")))
        except Exception as e:  # noqa: BLE001
            out.append(["driver-error", None, -1, f"{type(e).__name__}: {e}"])
    tr = []
    for k, ops in enumerate(traces):
        try:
            tr.append(run_trace(ops, scratch, f"d{k}"))
        except Exception as e:  # noqa: BLE001
            tr.append([{"op": "driver-error", "error": f"{type(e).__name__}: {e}"}])
    print("C08SESSION " + json.dumps({"results": out, "traces": tr}))
    return 0


if __name__ == "__main__":
    sys.exit(main(sys.argv))
