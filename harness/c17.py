"""C17 -- SBML import builds the model the document describes.

Tie to the source:
  (1) facts regenerated from src/mxlpy/sbml/_import.py, src/mxlpy/meta/codegen_mxlpy.py and
      src/mxlpy/meta/sympy_tools.py into coq/sbmlimp/GenSbmlFacts.v: the names under which function
      bodies are filed (`init_<k>`, `<rxn>_stoich_<k>`), the order in which the loops fill the
      `functions` dict, the parameters-before-variables dispatch of initial assignments, the module /
      file name (`valid_filename(file.stem)`, prefix `mb_`) and the normalised shape of every other
      statement of the anchored functions.  PropsC17.v pins them (C17_facts_pinned);
  (2) correspondence: the harness WRITES SBML L3V2 documents (python-libsbml) from abstract
      descriptions, runs the real pysbml on them and feeds its output -- translated expression by
      expression -- to the Gallina model of the repo side (_codegen, _transform_stoichiometry,
      generate_mxlpy_code_from_symbolic_repr, module execution, Model evaluation), evaluated inside
      Coq by vm_compute; def names of the generated module, structure of the built Model, initial
      conditions, get_args and get_right_hand_side at 3 states are compared exactly (Q);
      valid_filename on generated stems and the two-documents-per-session source observation likewise;
  (3) an independent oracle (harness/c17_sbml.py::Meaning -- SBML semantics of the generated subset
      written down directly, exact Fractions while the math is rational) judges the PROPERTY on what
      mxlpy.sbml.read returned: initial values, rule-defined values and species derivatives at 3
      states, identifier mapping, non-interference of two documents read in one session.
Round-3 closing: facts3 (prefix rule of valid_filename, printing of equalities, body of a generated def) -> gen_facts3;
streams of harness/c17_close3.py (eq / neq conditions at near-equal states, guarded singular terms on the guard, sessions
of documents under module-named file stems in a subprocess: harness/c17_session.py).
"""

from __future__ import annotations

import ast
import inspect
import keyword
import math
import os
import shutil
from fractions import Fraction
from pathlib import Path
from typing import Any

from harness import c17_close3 as C3
from harness import c17_gen as G
from harness import c17_impl as I  # noqa: E741
from harness import c17_sbml as S
from harness import c17_streams as T
from harness import common
from harness.common import Run, cbool, clist, cstr

AREA = "sbmlimp"
PROPS = "PropsC17.v"
PROP = "C17"

# ---------------------------------------------------------------------------------------
# (1) fact extraction (fail-closed)
# ---------------------------------------------------------------------------------------

_SHAPES = {
    "free_symbols": "return [i.name for i in expr.free_symbols if isinstance(i, sympy.Symbol)]",
    "_transform_stoichiometry": (
        "if isinstance(v, sympy.Float):\n    return v\nif isinstance(v, sympy.Symbol):\n    return v.name\n"
        "return SymbolicFn(k, expr=v, args=free_symbols(v))"
    ),
    "_codegen": (
        "sym = SymbolicRepr()\n"
        "for key, var in model.variables.items():\n    sym.variables[key] = SymbolicVariable(value=var.value, unit=var.unit)\n"
        "for key, par in model.parameters.items():\n    sym.parameters[key] = SymbolicParameter(value=par.value, unit=par.unit)\n"
        "for key, der in model.derived.items():\n    sym.derived[key] = SymbolicFn(fn_name=key, expr=der, args=free_symbols(der))\n"
        "for key, rxn in model.reactions.items():\n"
        "    sym.reactions[key] = SymbolicReaction(fn=SymbolicFn(fn_name=key, expr=rxn.expr, args=free_symbols(rxn.expr)), "
        "stoichiometry={k: _transform_stoichiometry(k, v) for k, v in rxn.stoichiometry.items()})\n"
        "<IA>\n"
        "path = default_tmp_dir(None, remove_old_cache=False) / f'{name}.py'\n"
        "with path.open('w+') as f:\n"
        "    f.write(generate_mxlpy_code_from_symbolic_repr(sym, imports=['import math', 'import scipy']))\n"
        "return path"
    ),
    "import_from_path": (
        "spec = util.spec_from_file_location(module_name, file_path)\nassert spec is not None\n"
        "module = util.module_from_spec(spec)\nsys.modules[module_name] = module\nloader = spec.loader\n"
        "assert loader is not None\nloader.exec_module(module)\nreturn module.create_model"
    ),
    # the same with fixes/C08-reimport-stale-bytecode.diff applied (the freshly written source is compiled and
    # executed instead of loader.exec_module, which may reuse stale byte code): same model -- the module body is
    # executed in a new module registered under module_name
    "import_from_path:no-bytecode": (
        "spec = util.spec_from_file_location(module_name, file_path)\nassert spec is not None\n"
        "module = util.module_from_spec(spec)\nsys.modules[module_name] = module\nloader = spec.loader\n"
        "assert loader is not None\nsource = file_path.read_text()\n"
        "exec(compile(source, str(file_path), 'exec'), module.__dict__)\nreturn module.create_model"
    ),
    "valid_filename": (
        "value = unicodedata.normalize('NFKD', value).encode('ascii', 'ignore').decode('ascii')\n"
        "value = re.sub('[^\\\\w\\\\s-]', '', value.lower())\n"
        "value = re.sub('[-\\\\s]+', '_', value).strip('-_')\n"
        "return f'<PREFIX>{value}'"
    ),
    "read": (
        "model = pysbml.load_and_transform_model(file)\nout_name = valid_filename(file.stem)\n"
        "model_fn = import_from_path(out_name, _codegen(out_name, model))\nreturn model_fn()"
    ),
    "sympy_to_python_fn": (
        "fn_args = ', '.join((f'{i}: float' for i in args))\n"
        "return f'def {fn_name}({fn_args}) -> float:\\n    return {pycode(expr, fully_qualified_modules=True, full_prec=False)}\\n    '"
        ".replace('math.factorial', 'scipy.special.factorial')"
    ),
    "_positional_fn": (
        "positions: dict[sympy.Basic, sympy.Basic] = {}\nfor i, arg in enumerate(args):\n"
        "    positions.setdefault(sympy.Symbol(arg), sympy.Symbol(f'__arg{i}__'))\nreturn (expr.xreplace(positions), len(args))"
    ),
    "_register_fn": (
        "positional = _positional_fn(expr, args)\nname = fn_name\ni = 1\n"
        "while name in functions and _positional_fn(*functions[name]) != positional:\n    name = f'{fn_name}_{i}'\n    i += 1\n"
        "functions[name] = (expr, args)\nreturn name"
    ),
    "_parameter_names": (
        "names: list[str] = []\nfor arg in args:\n    name = arg\n    i = 1\n"
        "    while name in names or (name != arg and name in args):\n        name = f'{arg}_{i}'\n        i += 1\n"
        "    names.append(name)\nreturn names"
    ),
    "_codegen_value": (
        "if isinstance((init := X.value), SymbolicFn):\n    fn_name = <KEY>\n    functions[fn_name] = (init.expr, init.args)\n    return <IA-TEXT>"
    ),
}

_NUMBER_LITERAL = (
    "if isinstance(value, sympy.Float) and math.isfinite((number := float(value))) and (sympy.Float(number) == value):\n"
    "    return repr(number)\nreturn sympy_to_inline_py(value)"
)
_RXN_ASSIGN = (
    "sym.reactions[key] = SymbolicReaction(fn=SymbolicFn(fn_name=key, expr=rxn.expr, args=free_symbols(rxn.expr)), "
    "stoichiometry={k: _transform_stoichiometry(k, v) for k, v in rxn.stoichiometry.items()})"
)
# the seeded shape C17-5 (recognised so that the Coq model of that variant can be run against it)
_USED_RATES = (
    "used_rates = {name for expr in (*model.derived.values(), *model.initial_assignments.values(), "
    "*(rxn.expr for rxn in model.reactions.values())) for name in free_symbols(expr)}"
)
_SKIP_TEST = "len(rxn.stoichiometry) == 0 and key not in used_rates"

_IA_BRANCH = "sym.{0}[key].value = SymbolicFn(fn_name=key, expr=der, args=free_symbols(der))"


def _body(fn: ast.FunctionDef) -> list[ast.stmt]:
    return [s for s in fn.body if not (isinstance(s, ast.Expr) and isinstance(s.value, ast.Constant))]


def _norm(stmts: list[ast.stmt]) -> str:
    return "\n".join(ast.unparse(s) for s in stmts)


def _fn(tree: ast.Module, name: str) -> ast.FunctionDef | None:
    return next((n for n in tree.body if isinstance(n, ast.FunctionDef) and n.name == name), None)


def _joined(node: ast.expr) -> list[str] | None:
    """f-string as a list: constants as text, placeholders as '{unparsed}'"""
    if not isinstance(node, ast.JoinedStr):
        return None
    out = []
    for v in node.values:
        if isinstance(v, ast.Constant):
            out.append(str(v.value))
        elif isinstance(v, ast.FormattedValue) and v.conversion == -1 and v.format_spec is None:
            out.append("{" + ast.unparse(v.value) + "}")
        else:
            return None
    return out


def _ascii_ok(s: str) -> bool:
    return all(32 <= ord(c) < 127 for c in s) and '"' not in s


def extract_facts() -> dict[str, Any]:  # noqa: C901, PLR0912, PLR0915
    facts: dict[str, Any] = {
        "init_prefix": None,
        "stoich_infix": None,
        "stoich_key": "StoichKeyUnknown",
        "sections": None,
        "ia_order": "IaUnknown",
        "module_name": "ModuleNameUnknown",
        "file_prefix": None,
        "register": "RegUnknown",
        "rxn_filter": "RxnFilterUnknown",
        "math_ref": "MathRefUnknown",
        "lit_var": "LitUnknown",
        "lit_par": "LitUnknown",
        "lit_stoich": "LitUnknown",
        "prefix_rule": "PrefixUnknown",
        "eq_print": "EqUnknown",
        "body": "BodyUnknown",
        "shapes": {},
    }
    shapes: dict[str, bool] = facts["shapes"]
    try:
        imp = ast.parse((common.REPO / "src/mxlpy/sbml/_import.py").read_text())
        cg = ast.parse((common.REPO / "src/mxlpy/meta/codegen_mxlpy.py").read_text())
        st = ast.parse((common.REPO / "src/mxlpy/meta/sympy_tools.py").read_text())
    except (OSError, SyntaxError):
        return facts

    # ---- _import.py -------------------------------------------------------------------
    for name in ("free_symbols", "_transform_stoichiometry", "import_from_path", "read"):
        f = _fn(imp, name)
        shapes[name] = f is not None and _norm(_body(f)) in (_SHAPES[name], _SHAPES.get(name + ":no-bytecode"))
    if shapes["read"]:
        facts["module_name"] = "StemOnly"
    f = _fn(imp, "valid_filename")
    shapes["valid_filename"] = False
    if f is not None:
        b = _body(f)
        if b and isinstance(b[-1], ast.Return) and (j := _joined(b[-1].value)) is not None and len(j) == 2 and j[1] == "{value}":
            if _ascii_ok(j[0]):
                facts["file_prefix"] = j[0]
            shapes["valid_filename"] = _norm(b).replace(f"f'{j[0]}{{value}}'", "f'<PREFIX>{value}'") == _SHAPES["valid_filename"]
    f = _fn(imp, "_codegen")
    shapes["_codegen"] = False
    if f is not None:
        b = _body(f)
        parts = []
        for s in b:
            if isinstance(s, ast.For) and ast.unparse(s.iter) == "model.initial_assignments.items()" and ast.unparse(s.target) == "(key, der)":
                parts.append("<IA>")
                if len(s.body) == 1 and isinstance(s.body[0], ast.If) and not s.orelse:
                    i1 = s.body[0]
                    if len(i1.orelse) == 1 and isinstance(i1.orelse[0], ast.If) and not i1.orelse[0].orelse:
                        i2 = i1.orelse[0]
                        t1, t2 = ast.unparse(i1.test), ast.unparse(i2.test)
                        b1, b2 = _norm(i1.body), _norm(i2.body)
                        P, V = "key in model.parameters", "key in model.variables"  # noqa: N806
                        bp, bv = _IA_BRANCH.format("parameters"), _IA_BRANCH.format("variables")
                        if (t1, b1, t2, b2) == (P, bp, V, bv):
                            facts["ia_order"] = "ParamsThenVars"
                        elif (t1, b1, t2, b2) == (V, bv, P, bp):
                            facts["ia_order"] = "VarsThenParams"
            else:
                parts.append(ast.unparse(s))
        shapes["_codegen"] = "\n".join(parts) == _SHAPES["_codegen"]

    # ---- sympy_tools.py ---------------------------------------------------------------
    f = _fn(st, "sympy_to_python_fn")
    shapes["sympy_to_python_fn"] = f is not None and _norm(_body(f)) == _SHAPES["sympy_to_python_fn"]

    # ---- codegen_mxlpy.py -------------------------------------------------------------
    # two recognised ways of storing a function body:
    #   RegOverwrite  fn_name = <key> ; functions[fn_name] = (expr, args)            (snapshot)
    #   RegFresh      fn_name = _register_fn(functions, <key>, expr, args)           (fix a07e507)
    prefixes = []
    kinds: list[str] = []
    for name, attr in (("_codegen_variable", "var"), ("_codegen_parameter", "par")):
        f = _fn(cg, name)
        ok = False
        if f is not None:
            b = _body(f)
            if b and isinstance(b[0], ast.If) and ast.unparse(b[0].test) == f"isinstance((init := {attr}.value), SymbolicFn)":
                ib = b[0].body
                ret_ok = (
                    bool(ib)
                    and isinstance(ib[-1], ast.Return)
                    and "InitialAssignment(fn={fn_name}, args={init.args!r})" in ast.unparse(ib[-1])
                    and "{k!r}" in ast.unparse(ib[-1])
                )
                if (
                    ret_ok
                    and len(ib) == 3
                    and isinstance(ib[0], ast.Assign)
                    and ast.unparse(ib[0].targets[0]) == "fn_name"
                    and (j := _joined(ib[0].value)) is not None
                    and len(j) == 2
                    and j[1] == "{init.fn_name}"
                    and ast.unparse(ib[1]) == "functions[fn_name] = (init.expr, init.args)"
                ):
                    prefixes.append(j[0])
                    kinds.append("RegOverwrite")
                    ok = True
                elif (
                    ret_ok
                    and len(ib) == 2
                    and isinstance(ib[0], ast.Assign)
                    and ast.unparse(ib[0].targets[0]) == "fn_name"
                    and isinstance(ib[0].value, ast.Call)
                    and ast.unparse(ib[0].value.func) == "_register_fn"
                    and len(ib[0].value.args) == 4
                    and not ib[0].value.keywords
                    and [ast.unparse(x) for x in (ib[0].value.args[0], ib[0].value.args[2], ib[0].value.args[3])] == ["functions", "init.expr", "init.args"]
                    and (j := _joined(ib[0].value.args[1])) is not None
                    and len(j) == 2
                    and j[1] == "{init.fn_name}"
                ):
                    prefixes.append(j[0])
                    kinds.append("RegFresh")
                    ok = True
        shapes[name] = ok
    if len(prefixes) == 2 and prefixes[0] == prefixes[1] and _ascii_ok(prefixes[0]):
        facts["init_prefix"] = prefixes[0]

    f = _fn(cg, "generate_mxlpy_code_from_symbolic_repr")
    shapes["generate"] = False
    if f is not None:
        # projection: the loops over the four component dicts (in order) and every write into `functions`
        sections = []
        writes: list[str] = []
        tagmap = {
            "model.variables.items()": "SecVars",
            "model.parameters.items()": "SecPars",
            "model.derived.items()": "SecDer",
            "model.reactions.items()": "SecRxn",
        }

        def stoich_key(j: list[str] | None) -> None:
            if j is None or len(j) != 3 or not _ascii_ok(j[1]):
                return
            if j[0] == "{k}" and j[2] == "{stoich.fn_name}":
                facts["stoich_key"], facts["stoich_infix"] = "RxnInfixFn", j[1]
            elif j[0] == "{stoich.fn_name}" and j[2] == "{k}":
                facts["stoich_key"], facts["stoich_infix"] = "FnInfixRxn", j[1]

        for s in _body(f):
            if isinstance(s, ast.For) and ast.unparse(s.iter) in tagmap:
                tag = tagmap[ast.unparse(s.iter)]
                sections.append(tag)
                for n in ast.walk(s):
                    if isinstance(n, ast.Assign) and ast.unparse(n.targets[0]).startswith("functions["):
                        writes.append(f"{tag}: {ast.unparse(n)}")
                    if isinstance(n, ast.Assign) and ast.unparse(n.targets[0]) == "fn_name" and (j := _joined(n.value)) is not None:
                        stoich_key(j)
                    if isinstance(n, ast.Call) and ast.unparse(n.func) == "_register_fn":
                        if len(n.args) == 4 and isinstance(n.args[1], ast.JoinedStr):
                            stoich_key(_joined(n.args[1]))
                            writes.append(f"{tag}: _register_fn({ast.unparse(n.args[0])}, <stoich-key>, {ast.unparse(n.args[2])}, {ast.unparse(n.args[3])})")
                        else:
                            writes.append(f"{tag}: {ast.unparse(n)}")
                    if isinstance(n, ast.Call) and ast.unparse(n.func) in ("_codegen_variable", "_codegen_parameter"):
                        writes.append(f"{tag}: {ast.unparse(n)}")
            elif any(isinstance(n, ast.Subscript) and ast.unparse(n.value) == "functions" and isinstance(n.ctx, ast.Store) for n in ast.walk(s)):
                writes.append("outside-loop: " + ast.unparse(s)[:80])
        if len(sections) == len(set(sections)) == 4:
            facts["sections"] = sections
        src = ast.unparse(f)
        common_ok = (
            "functions: dict[str, tuple[sympy.Expr, list[str]]] = {}" in src
            and "for var, stoich in rxn.stoichiometry.items()" in src
            and "Derived(fn={fn_name}, args={stoich.args!r})" in src
            and "args={fn.args}" in src
            and "fn = rxn.fn" in src
        )
        old_ok = (
            writes
            == [
                "SecVars: _codegen_variable(k, var, functions=functions)",
                "SecPars: _codegen_parameter(k, par, functions=functions)",
                "SecDer: functions[fn.fn_name] = (fn.expr, fn.args)",
                "SecRxn: functions[fn.fn_name] = (fn.expr, fn.args)",
                "SecRxn: functions[fn_name] = (stoich.expr, stoich.args)",
            ]
            and "sympy_to_python_fn(fn_name=name, args=args, expr=expr) for name, (expr, args) in functions.items()" in src
            and "fn={fn.fn_name}" in src
        )
        new_ok = (
            writes
            == [
                "SecVars: _codegen_variable(k, var, functions=functions)",
                "SecPars: _codegen_parameter(k, par, functions=functions)",
                "SecDer: _register_fn(functions, fn.fn_name, fn.expr, fn.args)",
                "SecRxn: _register_fn(functions, fn.fn_name, fn.expr, fn.args)",
                "SecRxn: _register_fn(functions, <stoich-key>, stoich.expr, stoich.args)",
            ]
            and "fn_name = _register_fn(functions, fn.fn_name, fn.expr, fn.args)" in src
            and "rxn_fn_name = _register_fn(functions, fn.fn_name, fn.expr, fn.args)" in src
            and "fn={fn_name}," in src
            and "fn={rxn_fn_name}," in src
            and "fn={fn.fn_name}" not in src
            and "sympy_to_python_fn(fn_name=name, args=_parameter_names(args), expr=expr) for name, (expr, args) in functions.items()" in src
            and all((g := _fn(cg, h)) is not None and _norm(_body(g)) == _SHAPES[h] for h in ("_register_fn", "_positional_fn", "_parameter_names"))
        )
        if common_ok and old_ok and kinds == ["RegOverwrite", "RegOverwrite"]:
            facts["register"] = "RegOverwrite"
            shapes["generate"] = True
        elif common_ok and new_ok and kinds == ["RegFresh", "RegFresh"]:
            facts["register"] = "RegFresh"
            shapes["generate"] = True
    _extract_facts2(facts, imp, cg, st)
    _extract_facts3(facts, imp, st)
    return facts


def _extract_facts2(facts: dict[str, Any], imp: ast.Module, cg: ast.Module, st: ast.Module) -> None:  # noqa: C901, PLR0912
    """the three further facts of coq/sbmlimp/SbmlVariants.v (fail-closed: anything unrecognised stays *Unknown)"""
    # -- which reactions _codegen hands on
    f = _fn(imp, "_codegen")
    if f is not None:
        b = _body(f)
        loops = [(i, s) for i, s in enumerate(b) if isinstance(s, ast.For) and ast.unparse(s.iter) == "model.reactions.items()"]
        if len(loops) == 1 and ast.unparse(loops[0][1].target) == "(key, rxn)" and not loops[0][1].orelse:
            i, loop = loops[0]
            lb = loop.body
            if len(lb) == 1 and ast.unparse(lb[0]) == _RXN_ASSIGN:
                facts["rxn_filter"] = "RxnAll"
            elif (
                len(lb) == 2
                and isinstance(lb[0], ast.If)
                and ast.unparse(lb[0].test) == _SKIP_TEST
                and not lb[0].orelse
                and len(lb[0].body) == 1
                and isinstance(lb[0].body[0], ast.Continue)
                and ast.unparse(lb[1]) == _RXN_ASSIGN
                and i > 0
                and ast.unparse(b[i - 1]) == _USED_RATES
            ):
                facts["rxn_filter"] = "RxnSkipUnreadEmpty"
    # -- how a generated def refers to math functions
    f = _fn(st, "sympy_to_python_fn")
    if f is not None:
        calls = [n for n in ast.walk(f) if isinstance(n, ast.Call) and ast.unparse(n.func) == "pycode"]
        if len(calls) == 1:
            kw = {k.arg: ast.unparse(k.value) for k in calls[0].keywords}
            if kw == {"fully_qualified_modules": "True", "full_prec": "False"}:
                facts["math_ref"] = "MathQualified"
            elif kw == {"fully_qualified_modules": "False", "full_prec": "False"}:
                facts["math_ref"] = "MathBare"
    # -- how plain numbers are written
    g = _fn(cg, "_number_literal")
    lit_ok = g is not None and _norm(_body(g)) == _NUMBER_LITERAL
    for name, key in (("_codegen_variable", "lit_var"), ("_codegen_parameter", "lit_par")):
        f = _fn(cg, name)
        if f is None:
            continue
        assigns = [n for n in ast.walk(f) if isinstance(n, ast.Assign) and ast.unparse(n.targets[0]) == "value"]
        uses = [n for n in ast.walk(f) if isinstance(n, ast.FormattedValue) and ast.unparse(n.value) == "value"]
        if len(assigns) == 1 and uses:
            rhs = ast.unparse(assigns[0].value)
            if rhs == "_number_literal(init)" and lit_ok:
                facts[key] = "LitRepr"
            elif rhs == "sympy_to_inline_py(init)":
                facts[key] = "LitSympy15"
    f = _fn(cg, "generate_mxlpy_code_from_symbolic_repr")
    if f is not None:
        src = ast.unparse(f)
        h = _fn(cg, "_codegen_stoichiometry")
        if "_codegen_stoichiometry" not in src and h is None:
            # the coefficient is written inside the reaction loop: the else branch of the isinstance chain
            outs = [
                ast.unparse(n.value)
                for n in ast.walk(f)
                if isinstance(n, ast.FormattedValue) and isinstance(n.value, ast.Call) and ast.unparse(n.value.args[0] if n.value.args else n.value) == "stoich"
            ]
            if outs == ["_number_literal(stoich)"] and lit_ok:
                facts["lit_stoich"] = "LitRepr"
            elif outs == ["sympy_to_inline_py(stoich)"]:
                facts["lit_stoich"] = "LitSympy15"
        elif h is not None and src.count("_codegen_stoichiometry(") == 1:
            # factored out into a helper (seeded shape C17-6): its last statement writes the number
            hb = _body(h)
            if hb and isinstance(hb[-1], ast.Return):
                last = ast.unparse(hb[-1].value)
                if last == "_number_literal(stoich)" and lit_ok:
                    facts["lit_stoich"] = "LitRepr"
                elif last == "sympy_to_inline_py(stoich)":
                    facts["lit_stoich"] = "LitSympy15"


# the seeded shapes C17-7..9 (recognised so that the Coq variant of each step can be named; anything else: *Unknown)
_VF_HEAD = _SHAPES["valid_filename"].rsplit("\n", 1)[0]
_VF_UNLESS_IDENT = "if value.isidentifier() and (not keyword.iskeyword(value)):\n    return value"
_FN_ARGS = "fn_args = ', '.join((f'{i}: float' for i in args))"
_PRINTER_CLASS = (
    "def _print_Equality(self, expr: sympy.Eq) -> str:\n    lhs, rhs = (self._print(i) for i in expr.args)\n"
    "    return f'{self._module_format('math.isclose')}({lhs}, {rhs})'\n"
    "def _print_Unequality(self, expr: sympy.Ne) -> str:\n    lhs, rhs = (self._print(i) for i in expr.args)\n"
    "    return f'(not {self._module_format('math.isclose')}({lhs}, {rhs}))'"
)
_ISCLOSE_BODY = (
    _FN_ARGS + "\nprinter = _FnBodyPrinter({'fully_qualified_modules': True, 'full_prec': False})\n"
    "return f'def {fn_name}({fn_args}) -> float:\\n    return {printer.doprint(expr)}\\n    '.replace('math.factorial', 'scipy.special.factorial')"
)
_CSE_BODY = (
    _FN_ARGS + "\ntaken = {sympy.Symbol(i) for i in args} | expr.free_symbols\n"
    "temporaries, (expr,) = sympy.cse(expr, symbols=sympy.numbered_symbols('_t', exclude=taken))\n"
    "body = ''.join((f'    {name} = {pycode(sub, fully_qualified_modules=True, full_prec=False)}\\n' for name, sub in temporaries))\n"
    "return f'def {fn_name}({fn_args}) -> float:\\n{body}    return {pycode(expr, fully_qualified_modules=True, full_prec=False)}\\n    '"
    ".replace('math.factorial', 'scipy.special.factorial')"
)


def _extract_facts3(facts: dict[str, Any], imp: ast.Module, st: ast.Module) -> None:
    """the three facts of coq/sbmlimp/SbmlClose3.v (fail-closed)"""
    f = _fn(imp, "valid_filename")
    if f is not None:
        b = _body(f)
        if b and isinstance(b[-1], ast.Return) and (j := _joined(b[-1].value)) is not None and len(j) == 2 and j[1] == "{value}":
            head = _norm(b[:-1])
            if head == _VF_HEAD:
                facts["prefix_rule"] = "PrefixAlways"
            elif head == _VF_HEAD + "\n" + _VF_UNLESS_IDENT:
                facts["prefix_rule"] = "PrefixUnlessIdentifier"
    f = _fn(st, "sympy_to_python_fn")
    if f is not None:
        body = _norm(_body(f))
        if body == _SHAPES["sympy_to_python_fn"]:
            facts["eq_print"], facts["body"] = "EqExact", "BodyExpr"
        elif body == _CSE_BODY:
            facts["eq_print"], facts["body"] = "EqExact", "BodyCse"
        elif body == _ISCLOSE_BODY:
            cls = next((n for n in st.body if isinstance(n, ast.ClassDef) and n.name == "_FnBodyPrinter"), None)
            if (
                cls is not None
                and [ast.unparse(x) for x in cls.bases] == ["PythonCodePrinter"]
                and _norm([x for x in cls.body if not (isinstance(x, ast.Expr) and isinstance(x.value, ast.Constant))]) == _PRINTER_CLASS
            ):
                facts["eq_print"], facts["body"] = "EqIsClose", "BodyExpr"


def gen() -> dict[str, Any]:
    f = extract_facts()
    secs = f["sections"]
    text = (
        "(* REGENERATED from src/mxlpy/sbml/_import.py, src/mxlpy/meta/codegen_mxlpy.py and\n"
        "   src/mxlpy/meta/sympy_tools.py by harness/c17.py; do not edit.  An unrecognised shape yields an\n"
        "   *Unknown constructor / empty string / false, which breaks C17_facts_pinned. *)\n"
        "From Coq Require Import String List.\nFrom SbmlImp Require Import SbmlImport SbmlVariants SbmlClose3.\nImport ListNotations.\nOpen Scope string_scope.\n"
        "Definition gen_facts : facts :=\n"
        f"  mkFacts {cstr(f['init_prefix'] or '')} {cstr(f['stoich_infix'] or '')} {f['stoich_key']} "
        f"{clist(secs) if secs else '[]'} {f['ia_order']} {f['module_name']} {cstr(f['file_prefix'] or '')} {f['register']} "
        f"{cbool(all(f['shapes'].values()) and len(f['shapes']) == 10)}.\n"
        "Definition gen_facts2 : facts2 :=\n"
        f"  mkFacts2 {f['rxn_filter']} {f['math_ref']} {f['lit_var']} {f['lit_par']} {f['lit_stoich']}.\n"
        "Definition gen_facts3 : facts3 :=\n"
        f"  mkFacts3 {f['prefix_rule']} {f['eq_print']} {f['body']}.\n"
    )
    common.write_if_changed(common.area_dir(AREA) / "GenSbmlFacts.v", text)
    return f


# ---------------------------------------------------------------------------------------
# the independent judgement of one read
# ---------------------------------------------------------------------------------------


def py_name(i: str) -> str:
    """how an SBML id appears in the imported model (keywords get a trailing underscore, a leading
    non-letter gets a leading underscore) -- the oracle's own statement of the mapping"""
    if keyword.iskeyword(i):
        i = i + "_"
    if not i[0].isalpha():
        return "_" + i
    return i


def close(a: Any, b: Any) -> bool:
    try:
        fa = float(a)
        if isinstance(b, Fraction) and math.isfinite(fa) and Fraction(*fa.as_integer_ratio()) == b:
            return True
        fb = float(b)
    except (OverflowError, ValueError, TypeError):
        return False
    if not (math.isfinite(fa) and math.isfinite(fb)):
        return False
    return abs(fa - fb) <= 1e-9 * max(1.0, abs(fa), abs(fb))


def fmt(x: Any) -> str:
    return str(x) if isinstance(x, Fraction) else repr(float(x))


def pick_states(rng, doc: dict, M: S.Meaning, n: int) -> list[dict[str, Fraction]] | None:  # noqa: ANN001, N803
    """initial state (from the document's own initial values) + n random states where the math is defined"""
    try:
        init = M.initial()
        s0 = {s["id"]: init[s["id"]] for s in doc["species"] if s["kind"] != "boundary"}
        M.derivative(s0, init)
    except (S.Undefined, ZeroDivisionError, OverflowError):
        return None
    out = [s0]
    for _ in range(12):
        if len(out) > n:
            break
        st = G.gen_states(rng, doc, 1)[0]
        try:
            M.derivative(st, init)
            out.append(st)
        except (S.Undefined, ZeroDivisionError, OverflowError):
            continue
    return out


def judge(doc: dict, res: dict, states: list[dict[str, Fraction]]) -> list[str]:  # noqa: C901, PLR0912
    """Problems (empty = the read model reproduces the document)."""
    M = S.Meaning(doc)  # noqa: N806
    probs: list[str] = []
    if res["obs"][0] != "Val":
        return [f"reading/evaluating the document failed: {res['obs'][0]} {res['obs'][1]}"]
    _, ic, per = res["obs"]
    init = M.initial()
    dyn = [s["id"] for s in doc["species"] if s["kind"] != "boundary"]
    # identifiers: every moving species is a variable under its mapped name, nothing else is
    want_vars = sorted(py_name(s) for s in dyn)
    if sorted(ic) != want_vars:
        probs.append(f"variables of the model are {sorted(ic)}, the document's moving species map to {want_vars}")
        return probs
    for s in dyn:
        if not close(ic[py_name(s)], init[s]):
            probs.append(f"initial value of {s}: model {ic[py_name(s)]!r}, document prescribes {fmt(init[s])}")
    for st, (args, rhs) in zip(states, per, strict=True):
        try:
            vals = M.values(st, init)
            der = M.derivative(st, init)
        except (S.Undefined, ZeroDivisionError, OverflowError):
            continue
        for p in doc["parameters"] + doc["compartments"] + [s for s in doc["species"] if s["kind"] == "boundary"]:
            n = py_name(p["id"])
            if n not in args:
                probs.append(f"{p['id']} (-> {n}) is not a quantity of the model")
            elif not close(args[n], vals[p["id"]]):
                probs.append(f"value of {p['id']} at state {_st(st)}: model {args[n]!r}, document {fmt(vals[p['id']])}")
        for s in dyn:
            if not close(rhs[py_name(s)], der[s]):
                probs.append(f"d{s}/dt at state {_st(st)}: model {rhs[py_name(s)]!r}, document {fmt(der[s])}")
        if len(probs) > 6:
            break
    probs += judge_reactions(doc, res, states, M, init)
    return probs


def judge_reactions(doc: dict, res: dict, states: list[dict[str, Fraction]], M: S.Meaning, init: dict) -> list[str]:  # noqa: C901, N803, PLR0912
    """The reactions, their rates, the stoichiometric coefficients and the plain numbers of the Model against the
    document (the part of the property that the species derivatives alone do not show):
      * every reaction of the document is a reaction of the Model (and nothing else is);
      * its rate at every state is the kinetic law's value;
      * the coefficient of every moving species in every reaction is the document's net coefficient (divided by
        the compartment size for a species given as a concentration); a constant coefficient of an amount species
        that occurs once in the reaction involves no arithmetic: the stored number is EXACTLY the file's double;
      * a parameter value / compartment size / initial amount without rule and initial assignment likewise."""
    ex = res.get("extra")
    if ex is None:
        return [f"the reactions / rates / coefficients of the model could not be read: {res.get('extra_error')}"]
    probs: list[str] = []
    rxns = doc["reactions"]
    want = sorted(py_name(r["id"]) for r in rxns)
    if sorted(ex["reactions"]) != want:
        missing = sorted(set(want) - set(ex["reactions"]))
        return [f"reactions of the model are {sorted(ex['reactions'])}, the document declares {want}" + (f" (missing: {missing})" if missing else "")]
    species = {s["id"]: s for s in doc["species"]}
    dyn = [s for s in species if species[s]["kind"] != "boundary"]
    # stored numbers: exact
    rule_or_ia = {r["var"] for r in doc["rules"]} | {i["sym"] for i in doc["inits"]}
    plain = [(p["id"], p["value"], "value of parameter") for p in doc["parameters"]]
    plain += [(c["id"], c["size"], "size of compartment") for c in doc["compartments"]]
    plain += [(s["id"], s["init"], "initial amount of") for s in doc["species"] if s["kind"] == "amount"]
    for ident, v, what in plain:
        if ident in rule_or_ia:
            continue
        got = ex["plain"].get(py_name(ident))
        if got is not None and Fraction(*float(got).as_integer_ratio()) != Fraction(*float(Fraction(*v)).as_integer_ratio()):
            probs.append(f"{what} {ident}: the model stores {got!r}, the document gives {float(Fraction(*v))!r}")
    for r in rxns:
        parts = [(sp, -Fraction(*st)) for sp, st in r["reactants"]] + [(sp, Fraction(*st)) for sp, st in r["products"]]
        names = [sp for sp, _ in parts]
        stored = ex["stored"].get(py_name(r["id"]), {})
        for sp, c in parts:
            if names.count(sp) == 1 and sp in species and species[sp]["kind"] == "amount":
                got = stored.get(py_name(sp), "absent")
                if got == "absent":
                    probs.append(f"coefficient of {sp} in {r['id']}: absent from the model, the document gives {float(c)!r}")
                elif got is not None and Fraction(*float(got).as_integer_ratio()) != Fraction(*float(c).as_integer_ratio()):
                    probs.append(f"coefficient of {sp} in {r['id']}: the model stores {got!r}, the document gives {float(c)!r}")
    for st, (fl, sto) in zip(states, ex["per"], strict=True):
        try:
            vals = M.values(st, init)
        except (S.Undefined, ZeroDivisionError, OverflowError):
            continue
        for r in rxns:
            n = py_name(r["id"])
            if n not in fl:
                probs.append(f"reaction {r['id']} (-> {n}) has no rate in get_fluxes")
            elif not close(fl[n], vals[r["id"]]):
                probs.append(f"rate of {r['id']} at state {_st(st)}: model {fl[n]!r}, document {fmt(vals[r['id']])}")
            col = sto.get(n, {})
            for sp in dyn:
                net = sum((Fraction(*c) for x, c in r["products"] if x == sp), Fraction(0)) - sum((Fraction(*c) for x, c in r["reactants"] if x == sp), Fraction(0))
                if species[sp]["kind"] == "conc":
                    size = vals[species[sp]["comp"]]
                    if size == 0:
                        continue
                    net = net / size
                if not close(col.get(py_name(sp), 0.0), net):
                    probs.append(f"coefficient of {sp} in {r['id']} at state {_st(st)}: model {col.get(py_name(sp), 0.0)!r}, document {fmt(net)}")
        if len(probs) > 6:
            break
    return probs


def _st(st: dict) -> str:
    return "{" + ", ".join(f"{k}={fmt(v)}" for k, v in st.items()) + "}"


def impl_states(states: list[dict[str, Fraction]]) -> list[dict[str, float]]:
    return [{py_name(k): float(v) for k, v in st.items()} for st in states]


# ---------------------------------------------------------------------------------------
# documents with deliberate collisions (the recorded findings' region) and fixed witnesses
# ---------------------------------------------------------------------------------------


def _n(p: int, q: int = 1) -> list:
    return ["num", p, q]


def _s(x: str) -> list:
    return ["sym", x]


def base_doc(k: int = 1) -> dict:
    return {
        "compartments": [{"id": "c", "size": [2, 1]}],
        "species": [{"id": "A", "comp": "c", "init": [4, 1], "kind": "conc"}, {"id": "B", "comp": "c", "init": [1, 1], "kind": "conc"}],
        "parameters": [{"id": "k1", "value": [3, 1]}, {"id": "k3", "value": [1, 1]}],
        "functions": [],
        "rules": [],
        "inits": [],
        "reactions": [{"id": "v1", "reactants": [["A", [1, 1]]], "products": [["B", [2, 1]]], "math": ["mul", ["mul", _s("k1"), _s("A")], _n(k)]}],
    }


def witness_stoich_collision() -> dict:
    d = base_doc()
    d["parameters"].append({"id": "v1_stoich_A", "value": [0, 1]})
    d["rules"].append({"var": "v1_stoich_A", "math": ["add", _s("k1"), _n(5)]})
    d["reactions"][0]["math"] = ["mul", ["mul", _s("k1"), _s("A")], _s("v1_stoich_A")]
    return d


def witness_init_collision(same_arity: bool) -> dict:
    d = base_doc()
    d["parameters"].append({"id": "init_k3", "value": [0, 1]})
    d["rules"].append({"var": "init_k3", "math": ["add", _s("A"), _n(1)] if same_arity else ["add", _s("A"), _s("B")]})
    d["inits"].append({"sym": "k3", "math": ["mul", _s("k1"), _n(2)]})
    d["reactions"][0]["math"] = ["mul", ["mul", _s("k3"), _s("A")], _s("init_k3")]
    return d


def witness_reserved(name: str) -> dict:
    d = base_doc()
    d["parameters"].append({"id": name, "value": [2, 1]})
    if name in ("Model", "Derived", "InitialAssignment", "create_model"):
        d["rules"].append({"var": name, "math": ["add", _s("k1"), _n(5)]})
        d["inits"].append({"sym": "k3", "math": ["mul", _s("k1"), _n(2)]})
        d["reactions"][0]["math"] = ["mul", ["mul", _s("k3"), _s("A")], _s(name)]
    else:  # math: shadows the module inside a generated def that needs math.exp
        d["reactions"][0]["math"] = ["mul", ["exp", _s("A")], _s(name)]
    return d


def witness_nonvacuous() -> dict:
    nv = base_doc()
    nv["parameters"].append({"id": "q1", "value": [0, 1]})
    nv["rules"].append({"var": "q1", "math": ["add", _s("k1"), ["mul", _s("A"), _n(2)]]})
    nv["inits"].append({"sym": "k3", "math": ["mul", _s("k1"), _n(2)]})
    nv["inits"].append({"sym": "B", "math": ["add", _s("k1"), _n(1)]})
    nv["species"].append({"id": "lambda", "comp": "c", "init": [2, 1], "kind": "amount"})
    nv["reactions"][0]["math"] = ["mul", ["mul", _s("k3"), _s("A")], _s("q1")]
    nv["reactions"].append({"id": "v2", "reactants": [["B", [1, 2]]], "products": [["lambda", [1, 1]]], "math": ["mul", _s("B"), _s("lambda")]})
    return nv


def witness_keyword_twin() -> dict:
    """`if` and `if_` are different legal SBML ids; the keyword escape maps both to `if_`"""
    d = base_doc()
    d["parameters"] += [{"id": "if", "value": [2, 1]}, {"id": "if_", "value": [5, 1]}]
    d["reactions"][0]["math"] = ["mul", ["mul", _s("if"), _s("A")], _s("if_")]
    return d


def doc_ids(doc: dict) -> list[str]:
    out = [c["id"] for c in doc.get("compartments", [])] + [s["id"] for s in doc.get("species", [])]
    out += [p["id"] for p in doc.get("parameters", [])] + [r["id"] for r in doc.get("reactions", [])]
    return out + [f["id"] for f in doc.get("functions", [])]


def id_twins(doc: dict) -> list[tuple[str, str]]:
    """pairs of different ids of the document that the (external) renaming maps to the same name -- guard of
    the recorded finding C17-keyword-escape-not-injective"""
    ids = doc_ids(doc)
    return [(a, b) for i, a in enumerate(ids) for b in ids[i + 1 :] if a != b and py_name(a) == py_name(b)]


# name in coq/sbmlimp/SbmlWitness.v -> document
WITNESS_TMS = [
    ("w_base1", lambda: base_doc(1)),
    ("w_base5", lambda: base_doc(5)),
    ("w_stoich_coll", lambda: witness_stoich_collision()),
    ("w_init_coll", lambda: witness_init_collision(False)),
    ("w_init_coll_same", lambda: witness_init_collision(True)),
    ("w_nonvac", lambda: witness_nonvacuous()),
    # coq/sbmlimp/SbmlWitness2.v (seeded shapes C17-4..6)
    ("w_idle", lambda: dict(T.fixed_documents())["idle_reaction_unread"]),
    ("w_precise", lambda: dict(T.fixed_documents())["coefficients_needing_17_digits"]),
    ("w_mathids", lambda: dict(T.fixed_documents())["math_ids_as_arguments"]),
    # coq/sbmlimp/SbmlWitness3.v (seeded shapes C17-8 / C17-9)
    ("w_eqcond", lambda: {n: d for n, d, _ in C3.fixed_documents3()}["eq_neq_conditions"]),
    ("w_guarded", lambda: {n: d for n, d, _ in C3.fixed_documents3()}["guarded_inverse_twice"]),
]


def witness_literals(sess: "Session") -> list[tuple[str, str]]:
    out = []
    for name, mk in WITNESS_TMS:
        p = sess.path("wit_" + name)
        S.write_sbml(mk(), p)
        try:
            out.append((name, I.ctmodel(I.transformed(p))))
        except Exception:  # noqa: BLE001
            out.append((name, "(mkT [] [] [] [] [])"))
    return out


def collision_variant(rng, doc: dict) -> dict | None:  # noqa: ANN001
    """rename a rule-defined parameter so that its function name collides with an initial-assignment or
    stoichiometry function of the same document"""
    import copy

    d = copy.deepcopy(doc)
    if d["inits"] and rng.random() < 0.3:
        # a REACTION whose id is init_<k>: its kinetic-law function clashes with the initial assignment's function
        new = f"init_{py_name(rng.choice(d['inits'])['sym'])}"
        if new in set(doc_ids(d)):
            return None
        rng.choice(d["reactions"])["id"] = new
        d["flavour"] = doc.get("flavour", "") + "+collision-rxn"
        return d
    if not d["rules"]:
        return None
    victim = rng.choice(d["rules"])["var"]
    options = [f"init_{py_name(i['sym'])}" for i in d["inits"]]
    for r in d["reactions"]:
        for sp, _ in r["reactants"] + r["products"]:
            kind = next(s["kind"] for s in d["species"] if s["id"] == sp)
            if kind == "conc":
                options.append(f"{py_name(r['id'])}_stoich_{py_name(sp)}")
    if not options:
        return None
    new = rng.choice(options)
    if new in {p["id"] for p in d["parameters"]}:
        return None

    def ren(e):  # noqa: ANN001, ANN202
        if isinstance(e, list):
            if len(e) == 2 and e[0] == "sym" and e[1] == victim:
                return ["sym", new]
            return [ren(x) for x in e]
        return e

    for p in d["parameters"]:
        if p["id"] == victim:
            p["id"] = new
    for r in d["rules"]:
        if r["var"] == victim:
            r["var"] = new
        r["math"] = ren(r["math"])
    for r in d["reactions"]:
        r["math"] = ren(r["math"])
    for i in d["inits"]:
        i["math"] = ren(i["math"])
    d["flavour"] = doc.get("flavour", "") + "+collision"
    return d


# ---------------------------------------------------------------------------------------
# running one document
# ---------------------------------------------------------------------------------------


class Session:
    """scratch HOME (so ~/.cache/mxlpy of the implementation lives under /verif/work) + document dirs"""

    def __init__(self, tag: str) -> None:
        self.root = common.scratch_dir(tag)
        self.old_home = os.environ.get("HOME")
        # something below mxlpy creates an IPython shell lazily; keep its files where they always are
        os.environ.setdefault("IPYTHONDIR", str(Path.home() / ".ipython"))
        os.environ.setdefault("MPLCONFIGDIR", str(Path.home() / ".config" / "matplotlib"))
        os.environ["HOME"] = str(self.root / "home")
        (self.root / "home").mkdir()
        self.n = 0

    def path(self, stem: str) -> Path:
        self.n += 1
        return self.root / f"d{self.n:05d}" / f"{stem}.xml"

    def close(self) -> None:
        if self.old_home is not None:
            os.environ["HOME"] = self.old_home
        shutil.rmtree(self.root, ignore_errors=True)


def run_doc(sess: Session, doc: dict, stem: str, states: list[dict[str, Fraction]]) -> dict:
    p = sess.path(stem)
    S.write_sbml(doc, p)
    out: dict[str, Any] = {"path": p, "tm": None, "tm_error": None}
    try:
        out["tm"] = I.transformed(p)
    except I.Untranslatable as e:
        out["tm_error"] = f"untranslatable: {e}"
    except Exception as e:  # noqa: BLE001
        out["tm_error"] = f"pysbml failed: {type(e).__name__}: {e}"[:200]
    try:
        out["guards"] = I.guards(p)
    except Exception:  # noqa: BLE001
        out["guards"] = ([], [])
    out["res"] = I.run_read(p, impl_states(states))
    return out


def float_rounded(doc: dict, res: dict, states: list[dict[str, Fraction]]) -> bool:
    """True when some number the implementation returned is CLOSE to the document's exact rational value but
    not equal to it: binary64 rounding happened, so the exact (Q) run of the Coq model cannot be compared with
    it number by number (the oracle still judges the document with its tolerance)."""
    if res["obs"][0] != "Val":
        return False
    try:
        M = S.Meaning(doc)  # noqa: N806
        init = M.initial()
        _, ic, per = res["obs"]
        pairs = [(ic.get(py_name(k)), v) for k, v in init.items()]
        for st, (args, rhs) in zip(states, per, strict=True):
            vals = M.values(st, init)
            der = M.derivative(st, init)
            pairs += [(args.get(py_name(k)), v) for k, v in vals.items()]
            pairs += [(rhs.get(py_name(k)), v) for k, v in der.items()]
        for got, want in pairs:
            if got is None or not isinstance(want, Fraction):
                continue
            g = float(got)
            if math.isfinite(g) and Fraction(*g.as_integer_ratio()) != want and close(g, want):
                return True
    except Exception:  # noqa: BLE001
        return False
    return False


def coq_case(stem: str, tm: dict, states: list[dict[str, Fraction]], res: dict, rounded: bool = False) -> str:
    values = I.tm_exact(tm) and I.obs_exact(res["obs"]) and not rounded
    obs = I.cobs(res["obs"]) if values else "ErrOther"
    sts = I.cstates(impl_states(states)) if values else "[]"
    tab = I.arg_orders(res["model"], tm) if res.get("model") is not None else []
    return (
        f"(mkCase {I.ctmodel(tm)} {cstr(stem)} {sts} {clist(map(cstr, res['keys']))} "
        f"{I.cstruct(res['struct'])} {obs} {cbool(values)} {I.cfs(tab)})"
    )


def corr_file(cases: list[str], stems: list[tuple[str, str]], pairs: list[str], guards: list[bool] = (), witnesses: list[tuple[str, str]] = ()) -> str:
    body = ";\n  ".join(cases)
    return (
        "From Coq Require Import String List ZArith QArith Bool.\nFrom MxlBase Require Import ListX.\n"
        "From SbmlImp Require Import SbmlExpr SbmlImport SbmlRun SbmlSpec SbmlProofs SbmlWitness SbmlVariants SbmlWitness2 SbmlClose3 SbmlWitness3 GenSbmlFacts.\nImport ListNotations.\nOpen Scope string_scope.\n"
        "Definition cases : list case := [\n  " + body + "\n].\n"
        "Definition guards : list bool := " + clist(cbool(g) for g in guards) + ".\n"
        "Definition guard_mismatches := filter_idx (fun p => negb (Bool.eqb (nodup_strb (fn_keys gen_facts fsyms (c_tm (fst p)))) (snd p))) (combine cases guards).\n"
        "Definition witnesses : list (tmodel * tmodel) := " + clist(f"({a}, {b})" for a, b in witnesses) + ".\n"
        "Definition witness_mismatches := filter_idx (fun p => negb (tmodel_eqb (fst p) (snd p))) witnesses.\n"
        "Definition stems : list (string * string) := " + clist(f"({cstr(a)}, {cstr(b)})" for a, b in stems) + ".\n"
        "Definition pairs : list (option bool * option bool) := " + clist(pairs) + ".\n"
        "Definition mismatches := filter_idx (fun c => negb (case_ok3 gen_facts3 gen_facts2 gen_facts c)) cases.\n"
        "Definition stem_mismatches := filter_idx (fun p => negb (String.eqb (module_name3 gen_facts3 gen_facts (fst p)) (snd p))) stems.\n"
        "Definition pair_mismatches := filter_idx (fun p => match fst p, snd p with Some a, Some b => negb (Bool.eqb a b) | _, _ => true end) pairs.\n"
        "Eval vm_compute in mismatches.\nEval vm_compute in stem_mismatches.\nEval vm_compute in pair_mismatches.\n"
        "Eval vm_compute in guard_mismatches.\nEval vm_compute in witness_mismatches.\n"
    )


# ---------------------------------------------------------------------------------------
# two documents in one session
# ---------------------------------------------------------------------------------------


def fn_sources(m) -> dict[str, str | None]:  # noqa: ANN001
    out: dict[str, str | None] = {}
    fns = {}
    for k, r in m.get_raw_reactions(as_copy=False).items():
        fns[f"rxn:{k}"] = r.fn
    for k, d in m.get_raw_derived(as_copy=False).items():
        fns[f"der:{k}"] = d.fn
    for k, f in fns.items():
        try:
            out[k] = inspect.getsource(f)
        except (OSError, TypeError):
            out[k] = None
    return out


def snapshot(m, states: list[dict[str, float]]) -> Any:  # noqa: ANN001
    try:
        return [dict(m.get_initial_conditions())] + [
            (m.get_args(variables=dict(st), time=0.0).to_dict(), m.get_right_hand_side(variables=dict(st), time=0.0).to_dict()) for st in states
        ]
    except Exception as e:  # noqa: BLE001
        return f"{type(e).__name__}: {e}"[:200]


def two_documents(sess: Session, doc1: dict, doc2: dict, stem1: str, stem2: str, st1: list, st2: list) -> dict:
    """read doc1, observe; read doc2; observe doc1's model again and doc2's model; read doc2 alone elsewhere"""
    from mxlpy import sbml
    from mxlpy.sbml._import import valid_filename

    p1, p2 = sess.path(stem1), sess.path(stem2)
    S.write_sbml(doc1, p1)
    S.write_sbml(doc2, p2)
    out: dict[str, Any] = {"same_module": valid_filename(stem1) == valid_filename(stem2), "problems": [], "source_changed": None, "error": None}
    try:
        m1 = sbml.read(p1)
        before = snapshot(m1, impl_states(st1))
        src_before = fn_sources(m1)
        m2 = sbml.read(p2)
        after = snapshot(m1, impl_states(st1))
        src_after = fn_sources(m1)
        got2 = snapshot(m2, impl_states(st2))
        p3 = sess.path("zz_alone_" + str(sess.n))
        S.write_sbml(doc2, p3)
        alone2 = snapshot(sbml.read(p3), impl_states(st2))
    except Exception as e:  # noqa: BLE001
        out["error"] = f"{type(e).__name__}: {e}"[:200]
        return out
    if repr(before) != repr(after):
        out["problems"].append("the first model's initial values / values / derivatives changed after a second document was read")
    if repr(got2) != repr(alone2):
        out["problems"].append("the second document read after another one differs from the same document read alone")
    out["source_changed"] = src_before != src_after
    out["rxn_source_kept"] = {k: src_before[k] == src_after[k] for k in src_before if k.startswith("rxn:")}
    out["tm"] = None
    return out


# ---------------------------------------------------------------------------------------
# sessions of several documents in a process of their own (harness/c17_session.py)
# ---------------------------------------------------------------------------------------


def run_session_subprocess(steps: list[dict], root: Path, tag: str, timeout: float = 400.0) -> dict:
    import json
    import subprocess
    import sys

    inp = root / f"session_{tag}.json"
    inp.write_text(json.dumps({"steps": steps}))
    env = dict(os.environ)
    env["C17_SESSION_ROOT"] = str(root)
    env["PYTHONDONTWRITEBYTECODE"] = "1"
    # a cache directory of its own: sessions run in parallel and use the same stems (~/.cache/mxlpy/mb_<stem>.py)
    home = root / f"home_{tag}"
    (home / ".cache").mkdir(parents=True, exist_ok=True)
    env["HOME"] = str(home)
    try:
        p = subprocess.run([sys.executable, "-m", "harness.c17_session", str(inp)], cwd=str(common.VERIF), env=env, capture_output=True, text=True, timeout=timeout, check=False)
        for line in p.stdout.splitlines():
            if line.startswith("C17SESSION "):
                return json.loads(line[len("C17SESSION "):])
        return {"problems": ["the session's process ended without a result: " + (p.stderr or p.stdout)[-300:]], "modules_replaced": [], "per_step": []}
    except subprocess.TimeoutExpired:
        return {"problems": [f"the session's process did not finish within {timeout:.0f} s"], "modules_replaced": [], "per_step": []}
    finally:
        inp.unlink(missing_ok=True)
        shutil.rmtree(home, ignore_errors=True)


def session_problems(r: dict) -> list[str]:
    probs = list(r["problems"])
    if r["modules_replaced"]:
        probs.append(f"after the session sys.modules{r['modules_replaced']} are no longer the modules they were before the first read")
    return probs


# ---------------------------------------------------------------------------------------
# the check
# ---------------------------------------------------------------------------------------


def _doc_public(doc: dict) -> dict:
    return {k: v for k, v in doc.items()}


def check(run: Run) -> None:  # noqa: C901, PLR0912, PLR0915
    thorough = run.tier == "thorough"
    facts = gen()
    run.coverage["gen_facts"] = facts
    run.rule = (
        "documents: random SBML L3V2 models written with python-libsbml from abstract descriptions -- 1-2 constant compartments "
        "(sizes 1/2,1,2,4,8), 2-4 species (concentration / amount-only / boundary), constant parameters, 0-3 assignment rules declared in "
        "random order, 0-2 function definitions (nested calls), 0-2 initial assignments (parameters, species), 1-3 reactions with "
        "fractional stoichiometries and net coefficients; kinetic laws polynomial / piecewise+abs / transcendental (exp, ln, sin, cos, "
        "sqrt, general division); a third of the documents use awkward ids (Python keywords, sympy names, leading underscores, "
        "init_/_stoich_ look-alikes) and a separate stream renames a rule-defined parameter so that its function name clashes with a generated "
        "init_<k> / <rxn>_stoich_<k> name; each read is judged at the document's initial state and 2 random states; a case is non-trivial if "
        "it has >= 1 reaction with a species of a compartment != 1 or a rule/function/initial assignment (all generated documents are); "
        "distinct by document content; three directed streams with own rng streams (harness/c17_streams.py): ids equal to names of Python's "
        "math module (exp, log, sin, cos, sqrt as species / parameter inside an expression calling that function, as id of a rule or a "
        "reaction next to another call), reactions that change no variable (no participants / modifiers only / boundary species only; a "
        "third read by other math), numbers needing 16/17 significant digits (coefficients, values; written with their repr); the six "
        "documents of the seeded shapes C17-4..6 first.  The oracle judges initial values, values, species derivatives, the reactions of "
        "the Model, their rates, the coefficients per state, and bit-for-bit equality of numbers written as plain literals; round-3 "
        "streams with their own states (harness/c17_close3.py): piecewise conditions with MathML eq / neq between non-constant "
        "quantities at states where the sides are equal, clearly different and different by one part in 2^31 (operands exact in "
        "binary64); piecewise guards around terms singular on the guard that occur twice in the guarded branch (division, ln, sqrt; "
        "laws, rules, initial assignments, function definitions), judged on and off the guard; sessions of 3-4 documents with math "
        "functions read in ONE interpreter (a subprocess per session) under file stems that are module names (math, Math, scipy, "
        "mxlpy, sympy, os, ...), every document judged when read and again after every later read"
    )
    proofs_ok = run.check_proofs(AREA, PROPS)
    run.assumptions += [
        "Coq 8.16.1 kernel + vm_compute; Print Assumptions of every theorem is recorded in trusted_base",
        "pysbml.load_and_transform_model (external, 1700 lines) is NOT verified: the theorems take its output as the input and its "
        "meaning-preservation as a Section hypothesis; it is exercised end to end by the oracle on every generated document -- the property is "
        "therefore PARTIAL by design",
        "sympy's pycode printer and CPython's evaluation of the printed expression are modelled by `eval` over an arbitrary value algebra",
        "Model._create_cache/get_args/get_right_hand_side are modelled compactly here (their own properties are C01/C02/C13)",
        "fact extractor harness/c17.py::extract_facts (fail-closed ast matcher), sympy->Gallina expression translator, literal printers, coqc output parser",
        "python-libsbml as the writer of the generated documents; the oracle's reading of SBML semantics (harness/c17_sbml.py::Meaning)",
        "valid_filename is modelled on printable-ASCII stems (unicodedata.normalize is not modelled)",
        "capture of a module-level name by a document id is not modelled (only the list of names a generated module needs: needed_names); "
        "numbers inside generated def bodies are printed by sympy with 15 significant digits (validated within the oracle's 1e-9 tolerance only)",
        "sys.modules is modelled for the three imports of a generated module (math, scipy, mxlpy); the session driver harness/c17_session.py "
        "(subprocess) watches 33 module names; math.isclose / sympy.cse appear only in regression models of seeded shapes",
    ]

    rng = common.rng_for(run.seed, "c17")
    sess = Session("c17")
    try:
        _check_body(run, rng, sess, thorough, proofs_ok)
    finally:
        sess.close()


def _check_body(run: Run, rng, sess: Session, thorough: bool, proofs_ok: bool) -> None:  # noqa: ANN001, C901, PLR0912, PLR0915
    n_docs = 1400 if thorough else 130
    n_coll = 120 if thorough else 24
    n_pairs = 160 if thorough else 24
    dist: dict[str, int] = {}
    outcomes: dict[str, int] = {}
    skipped: dict[str, int] = {}
    coq_cases: list[str] = []
    coq_guards: list[bool] = []
    coq_meta: list[dict] = []
    n_viol = 0
    known_hits: dict[str, int] = {}
    good_docs: list[tuple[dict, list]] = []

    def bump(d: dict, k: str) -> None:
        d[k] = d.get(k, 0) + 1

    def handle(doc: dict, stem: str, states: list, *, expect_finding: bool, pool: bool = True) -> None:
        nonlocal n_viol
        r = run_doc(sess, doc, stem, states)
        res = r["res"]
        tm = r["tm"]
        bump(outcomes, res["obs"][0])
        run.count_case(("doc", repr(doc), stem))
        if tm is None:
            bump(skipped, r["tm_error"].split(":")[0] + " (not sent to Coq)")
        else:
            rounded = float_rounded(doc, res, states)
            coq_cases.append(coq_case(stem, tm, states, res, rounded))
            coq_guards.append(not r["guards"][0])
            coq_meta.append({"doc": _doc_public(doc), "stem": stem, "values": I.tm_exact(tm) and I.obs_exact(res["obs"]) and not rounded})
            if not coq_meta[-1]["values"]:
                bump(skipped, "values not compared in Coq (transcendental or inexact)")
        probs = judge(doc, res, states)
        coll, resv = r["guards"]
        if (
            probs
            and res["obs"][0] != "Val"
            and res.get("exc") == "TypeError"
            and "expecting bool or Boolean" in (res.get("read_error") or "")
            and tm is None
            and (r["tm_error"] or "").startswith("untranslatable: condition")
        ):
            # pysbml folded a relation over a piecewise into a boolean-valued Piecewise/ITE inside a condition; sympy's
            # pycode printer raises on it (sympy/printing/pycode.py _print_ITE): the read is REFUSED loudly, no model
            # is built -- external limitation, outside the subset the property quantifies over
            bump(skipped, "refused loudly by sympy's printer: boolean piecewise inside a condition (external, no model built)")
            return
        if coll:
            bump(dist, "documents-with-clashing-function-keys (repaired region, judged like any other)")
        if probs:
            if resv:
                bump(known_hits, "C17-reserved-name-capture")
            elif id_twins(doc):
                bump(known_hits, "C17-keyword-escape-not-injective")
            elif n_viol < 4:
                n_viol += 1
                run.violation(
                    f"mxlpy.sbml.read does not reproduce the document: {probs[0]}",
                    {"kind": "doc", "doc": _doc_public(doc), "stem": stem, "states": [{k: [v.numerator, v.denominator] for k, v in st.items()} for st in states],
                     "problems": probs[:6], "generated_defs": res["keys"]},
                )
        elif not expect_finding and pool:
            good_docs.append((doc, states))
        if len(run.samples) < 3 and not probs and not expect_finding:
            run.sample({"document": _doc_public(doc), "stem": stem, "read_ok": True, "rhs_at_initial_state": res["obs"][2][0][1] if res["obs"][0] == "Val" else None})

    # ---- corpus of minimised past failures (of the check itself) first -------------------
    import json

    corpus_file = Path(__file__).with_name("c17_corpus.json")
    if corpus_file.exists():
        for ent in json.loads(corpus_file.read_text()):
            states = [{k: Fraction(v[0], v[1]) for k, v in st.items()} for st in ent["states"]]
            bump(dist, "corpus")
            handle(ent["doc"], "corpus_" + ent["name"][:20].replace("-", "_"), states, expect_finding=bool(ent.get("finding_region")))

    # ---- the documents of the seeded shapes C17-4..6 (fixed; see c17_streams.fixed_documents) -----------
    for name, doc in T.fixed_documents():
        states = pick_states(common.rng_for(0, "c17-fixed-" + name), doc, S.Meaning(doc), 2)
        if states is None:
            run.note(f"fixed document {name}: math undefined at the initial state")
            continue
        bump(dist, "fixed-seeded-shapes")
        handle(doc, "fixed_" + name, states, expect_finding=False, pool=False)

    # ---- the main stream ----------------------------------------------------------------
    for i in range(n_docs):
        flavour = ["poly", "poly", "pw", "transc"][i % 4]
        awkward = i % 3 == 2
        doc = G.gen_doc(rng, flavour, awkward)
        M = S.Meaning(doc)  # noqa: N806
        states = pick_states(rng, doc, M, 2)
        if states is None:
            bump(skipped, "document's math undefined at its initial state (discarded)")
            continue
        bump(dist, doc["flavour"])
        handle(doc, G.gen_stem(rng) if i % 5 == 0 else f"doc{i}", states, expect_finding=False)

    # ---- deliberate collisions: the findings' region, faithful model must agree ----------
    made = 0
    tries = 0
    while made < n_coll and tries < n_coll * 20:
        tries += 1
        doc = collision_variant(rng, G.gen_doc(rng, "poly" if tries % 2 else "pw", False))
        if doc is None:
            continue
        states = pick_states(rng, doc, S.Meaning(doc), 2)
        if states is None:
            continue
        made += 1
        bump(dist, "collision-variant")
        handle(doc, f"coll{made}", states, expect_finding=True)

    # ---- directed streams (own rng streams: the streams above are what they were) -----------------------
    r_math = common.rng_for(run.seed, "c17-mathid")
    for i in range(240 if thorough else 36):
        doc = T.mathid_doc(r_math, T.MATHID_SHAPES[i % len(T.MATHID_SHAPES)])
        states = pick_states(r_math, doc, S.Meaning(doc), 2)
        if states is None:
            bump(skipped, "document's math undefined at its initial state (discarded)")
            continue
        bump(dist, doc["flavour"])
        handle(doc, f"mid{i}", states, expect_finding=False, pool=False)
    r_idle = common.rng_for(run.seed, "c17-idle")
    for i in range(160 if thorough else 24):
        doc = T.idle_doc(r_idle, G.gen_doc(r_idle, ["poly", "pw"][i % 2], i % 4 == 3))
        states = pick_states(r_idle, doc, S.Meaning(doc), 2) if doc is not None else None
        if states is None:
            bump(skipped, "idle-reaction variant not usable (no constant parameter / math undefined)")
            continue
        bump(dist, "idle-reactions")
        for kd in doc["flavour"][5:].split(","):
            bump(dist, "idle:" + kd)
        handle(doc, f"idle{i}", states, expect_finding=False, pool=False)
    r_prec = common.rng_for(run.seed, "c17-precise")
    for i in range(160 if thorough else 24):
        doc = T.precise_doc(r_prec, G.gen_doc(r_prec, ["poly", "poly", "pw"][i % 3], False))
        states = pick_states(r_prec, doc, S.Meaning(doc), 2)
        if states is None:
            bump(skipped, "document's math undefined at its initial state (discarded)")
            continue
        bump(dist, doc["flavour"])
        handle(doc, f"prec{i}", states, expect_finding=False, pool=False)

    # ---- round-3 streams (own rng streams; harness/c17_close3.py) ----------------------------------------
    # the documents of the seeded shapes C17-8 / C17-9 with the states of their demos
    for name, doc, states in C3.fixed_documents3():
        bump(dist, "fixed-seeded-shapes")
        handle(doc, "fixed_" + name, states, expect_finding=False, pool=False)
    r_eq = common.rng_for(run.seed, "c17-eq")
    for i in range(140 if thorough else 28):
        doc, states = C3.eq_doc(r_eq, C3.EQ_SHAPES[i % len(C3.EQ_SHAPES)])
        bump(dist, doc["flavour"].rsplit(":", 1)[0] if doc["flavour"].startswith("eq:init") else doc["flavour"])
        handle(doc, f"eq{i}", states, expect_finding=False, pool=False)
    r_guard = common.rng_for(run.seed, "c17-guard")
    for i in range(128 if thorough else 24):
        doc, states = C3.guard_doc(r_guard, C3.GUARD_SHAPES[i % len(C3.GUARD_SHAPES)])
        bump(dist, doc["flavour"])
        handle(doc, f"guard{i}", states, expect_finding=False, pool=False)
    # sessions of 3-4 documents whose file stems are module names, each in a process of its own
    r_stem = common.rng_for(run.seed, "c17-stem")
    sessions = [C3.stem_session(r_stem, first=(i == 0)) for i in range(20 if thorough else 6)]
    from concurrent.futures import ThreadPoolExecutor

    with ThreadPoolExecutor(max_workers=min(6, common.NCPU)) as ex:
        sess_res = list(ex.map(lambda p: run_session_subprocess(p[1], sess.root, f"{p[0]:03d}"), enumerate(sessions)))
    for steps, r in zip(sessions, sess_res, strict=True):
        run.count_case(("session", repr(steps)))
        bump(dist, "stem-sessions")
        for st in steps:
            bump(dist, "stem-session-documents" + (":module-named-stem" if st["stem"] in C3.MODULE_STEMS else ""))
        for ps in r["per_step"]:
            bump(outcomes, "session:" + ps["outcome"])
        probs = session_problems(r)
        if probs and n_viol < 6:
            n_viol += 1
            run.violation(
                f"documents read in one session (file stems {[st['stem'] for st in steps]}): {probs[0]}",
                {"kind": "session", "steps": steps, "problems": probs[:8]},
            )

    # ---- valid_filename -----------------------------------------------------------------
    from mxlpy.sbml._import import valid_filename

    stems = sorted(set(G.STEMS) | set(C3.MODULE_STEMS) | set(C3.NEUTRAL_STEMS) | {G.gen_stem(rng) for _ in range(600 if thorough else 150)})
    stem_pairs = [(s, valid_filename(s)) for s in stems if all(32 <= ord(c) < 127 for c in s)]
    for s, _ in stem_pairs:
        run.count_case(("stem", s), nontrivial=any(not c.isalnum() for c in s))

    # ---- two documents per session ------------------------------------------------------
    pair_lits: list[str] = []
    pair_meta: list[dict] = []
    same_seen = 0
    for j in range(n_pairs):
        if len(good_docs) < 2:
            break
        (d1, s1), (d2, s2) = rng.sample(good_docs, 2)
        if j % 3 == 0:
            stem1, stem2 = rng.choice([("My Model", "my-model"), ("a.b", "ab"), ("x (1)", "x-1"), ("Run_7", "run_7"), ("same", "same")])
        else:
            stem1, stem2 = f"pair{j}a", f"pair{j}b"
        run.count_case(("pair", repr(d1), repr(d2), stem1, stem2))
        r = two_documents(sess, d1, d2, stem1, stem2, s1, s2)
        bump(dist, "pair-same-module" if r["same_module"] else "pair-different-modules")
        if r["error"]:
            if n_viol < 6:
                n_viol += 1
                run.violation(f"two documents in one session: {r['error']}", {"kind": "pair", "doc1": d1, "doc2": d2, "stem1": stem1, "stem2": stem2})
            continue
        probs = list(r["problems"])
        if r["source_changed"] and not r["same_module"]:
            probs.append("inspect.getsource of the first model's functions changed although the module names differ")
        if probs and n_viol < 6:
            n_viol += 1
            run.violation(f"two documents in one session interfere: {probs[0]}", {"kind": "pair", "doc1": d1, "doc2": d2, "stem1": stem1, "stem2": stem2, "problems": probs})
        if r["source_changed"] and r["same_module"]:
            same_seen += 1
            bump(known_hits, "C17-same-stem-overwrite")
        # correspondence of the source observation: one reaction function of the first model
        try:
            p1, p2 = sess.path(stem1), sess.path(stem2)
            S.write_sbml(d1, p1)
            S.write_sbml(d2, p2)
            tm1, tm2 = I.transformed(p1), I.transformed(p2)
            for k, kept in list(r["rxn_source_kept"].items())[:2]:
                pair_lits.append(
                    f"(source_kept gen_facts {cstr(stem1)} {cstr(stem2)} {I.ctmodel(tm1)} {I.ctmodel(tm2)} {cstr(k[4:])}, Some {cbool(kept)})"
                )
                pair_meta.append({"stem1": stem1, "stem2": stem2, "fn": k, "kept": kept})
        except I.Untranslatable:
            bump(skipped, "pair not sent to Coq (untranslatable)")

    run.coverage["input_distribution"] = {"documents": dist, "impl_outcomes": outcomes, "skipped_or_partial": skipped, "stems": len(stem_pairs), "pairs_sent_to_coq": len(pair_lits)}

    # ---- correspondence inside Coq ------------------------------------------------------
    files = {}
    per = 60
    chunks = common.chunks(coq_cases, per)
    gchunks = common.chunks(coq_guards, per)
    wit_lits = witness_literals(sess)
    for k, (chunk, gchunk) in enumerate(zip(chunks, gchunks, strict=True)):
        files[f"c17_{k:04d}"] = corr_file(list(chunk), stem_pairs if k == 0 else [], pair_lits if k == 0 else [], list(gchunk), wit_lits if k == 0 else [])
    if not files:
        files["c17_0000"] = corr_file([], stem_pairs, pair_lits, [], wit_lits)
    res = common.coq_eval_many(AREA, files, timeout_s=900)
    mism = 0
    for k, name in enumerate(sorted(files)):
        ok, out = res[name]
        lists = common.parse_eval_list(out) if ok else None
        if not ok or not lists or len(lists) != 5:
            run.broken_correspondence.append(f"correspondence shard {name} did not evaluate: {out[-400:]}")
            continue
        for j in lists[0]:
            mism += 1
            meta = coq_meta[k * per + j]
            if len(run.broken_correspondence) < 4:
                run.broken_correspondence.append(f"model/implementation disagree on document #{k * per + j} (stem {meta['stem']!r}, values compared: {meta['values']}): {str(meta['doc'])[:600]}")
        for j in lists[1]:
            mism += 1
            if len(run.broken_correspondence) < 6:
                run.broken_correspondence.append(f"valid_filename: model/implementation disagree on stem {stem_pairs[j][0]!r} (impl {stem_pairs[j][1]!r})")
        for j in lists[2]:
            mism += 1
            if len(run.broken_correspondence) < 6:
                run.broken_correspondence.append(f"two documents: model/implementation disagree on whether getsource is kept: {pair_meta[j]}")
        for j in lists[3]:
            mism += 1
            meta = coq_meta[k * per + j]
            if len(run.broken_correspondence) < 6:
                run.broken_correspondence.append(
                    f"guard NoKeyCollision: the model's function-key list and the harness' independent list of generated def names disagree on document #{k * per + j} (stem {meta['stem']!r})"
                )
        for j in lists[4]:
            mism += 1
            run.broken_correspondence.append(f"fixed witness {WITNESS_TMS[j][0]} of coq/sbmlimp/SbmlWitness.v / SbmlWitness2.v is no longer what pysbml returns for its document")
    run.coverage["traces_validated_against_impl"] = 2 * len(coq_cases) + len(stem_pairs) + len(pair_lits) + len(wit_lits) - mism
    run.coverage["correspondence_mismatches"] = mism
    run.coverage["findings_region_hits"] = known_hits

    # ---- regression witnesses of REPAIRED defects (known_findings "fixed"): must pass now -----
    for name in FIXED_WITNESSES:
        doc = WITNESSES[name]()
        states = pick_states(common.rng_for(0, "w"), doc, S.Meaning(doc), 2)
        r = run_doc(sess, doc, "fixed_" + name, states)
        run.count_case(("fixed-witness", name))
        probs = judge(doc, r["res"], states)
        if probs:
            run.violation(
                f"repaired defect C17-function-key-collision is back (witness {name}): {probs[0]}",
                {"kind": "doc", "doc": doc, "stem": "fixed_" + name, "states": [{k: [v.numerator, v.denominator] for k, v in st.items()} for st in states],
                 "problems": probs[:6], "generated_defs": r["res"]["keys"]},
            )

    # ---- known findings: replay every witness --------------------------------------------
    for f in common.load_known_findings(PROP):
        w = f.get("witness", {})
        try:
            still = replay_witness(sess, w)
        except Exception as e:  # noqa: BLE001
            still = None
            run.note(f"witness of {f['id']} could not be replayed: {type(e).__name__}: {e}")
        if still:
            run.known(f["id"], f["what_fails"] + " -- " + still)
        elif still is not None:
            run.note(f"known finding {f['id']} no longer reproduces (repaired?)")
    if not proofs_ok:
        run.note("proof obligations broken; all generated documents, collision variants and session pairs were judged by the oracle")


# ---------------------------------------------------------------------------------------
# replay
# ---------------------------------------------------------------------------------------


def replay_witness(sess: Session, w: dict) -> str | None:
    """-> description of the failure if the witness still fails, else None"""
    kind = w.get("kind")
    if kind == "finding:doc":
        first = None
        for name in w.get("names") or [w["name"]]:
            doc = WITNESSES[name]()
            states = pick_states(common.rng_for(0, "w"), doc, S.Meaning(doc), 2)
            r = run_doc(sess, doc, "witness_" + name, states)
            probs = judge(doc, r["res"], states)
            if probs and first is None:
                first = f"[{name}] {probs[0]}"
        return first
    if kind == "finding:same-stem":
        r = two_documents(sess, base_doc(1), base_doc(5), "My Model", "my-model", [], [])
        if r["error"]:
            return r["error"]
        return "inspect.getsource(first model's v1) now returns the second document's function" if r["source_changed"] else None
    raise ValueError(f"unknown witness kind {kind}")


FIXED_WITNESSES = ["stoich_collision", "init_collision_same_arity", "init_collision"]

WITNESSES = {
    "stoich_collision": witness_stoich_collision,
    "init_collision_same_arity": lambda: witness_init_collision(True),
    "init_collision": lambda: witness_init_collision(False),
    "reserved_math": lambda: witness_reserved("math"),
    "reserved_Model": lambda: witness_reserved("Model"),
    "keyword_twin": witness_keyword_twin,
}


def replay(rep: dict) -> int:
    r = rep["replay"]
    common.quiet_impl_logging()
    sess = Session("c17replay")
    try:
        if r.get("kind") == "doc":
            states = [{k: Fraction(v[0], v[1]) for k, v in st.items()} for st in r["states"]]
            out = run_doc(sess, r["doc"], r["stem"], states)
            probs = judge(r["doc"], out["res"], states)
            print("generated defs:", out["res"]["keys"])
            print("outcome:", out["res"]["obs"][0])
            for p in probs:
                print("PROBLEM:", p)
            if not probs:
                print("the read model reproduces the document on this input")
            return 1 if probs else 0
        if r.get("kind") == "pair":
            d1, d2 = r["doc1"], r["doc2"]
            s1 = pick_states(common.rng_for(0, "r1"), d1, S.Meaning(d1), 2) or []
            s2 = pick_states(common.rng_for(0, "r2"), d2, S.Meaning(d2), 2) or []
            out = two_documents(sess, d1, d2, r["stem1"], r["stem2"], s1, s2)
            probs = list(out["problems"]) + ([out["error"]] if out["error"] else [])
            if out["source_changed"] and not out["same_module"]:
                probs.append("getsource changed although module names differ")
            for p in probs:
                print("PROBLEM:", p)
            return 1 if probs else 0
        if r.get("kind") == "session":
            res = run_session_subprocess(r["steps"], sess.root, "replay")
            for ps in res["per_step"]:
                print(f"{ps['stem']}.xml: {ps['outcome']}", "ok" if not ps["problems"] else "PROBLEM")
            probs = session_problems(res)
            for p in probs:
                print("PROBLEM:", p)
            if not probs:
                print("every document of the session reproduces its equations, when read and after every later read")
            return 1 if probs else 0
        if "broken" in r:
            print("nothing concrete to replay; broken obligations/correspondence:", r["broken"])
            return 1
        print("nothing to replay:", rep.get("what"))
        return 1
    finally:
        sess.close()
