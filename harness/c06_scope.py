"""C06, name-resolution and lambda stage (round-3 closing: seeded C06-9 and C06-10).

What the main generator (c06_gen.py) resolves itself -- WHICH object a name of the function body refers to, and WHAT source
`get_fn_ast` hands to the translator -- is exercised here:

  scope   programs whose functions import names LOCALLY (`from pkg import scale`, `from pkg import consts`, `import lib`,
          `from pkg.consts import K`) while the defining module binds the same name to ANOTHER object at module level (a
          from-import, a module-level alias, a def); the function then calls `scale(x)`, `consts.sat(x)`, reads `consts.K`.
          CPython: the local binding wins.  Controls: no collision, same object on both sides, import inside an if branch,
          a helper with its own imports called from the target.
  lambda  statements holding one or several lambdas (same / different parameter names; dict, tuple, nested list whose
          breadth-first order differs from the source order, multi-line statements, one lambda per line); every lambda
          object is handed to fn_to_sympy.

Facts (fail-closed, pinned by C06_rfacts_pinned): the operand order of the three `members | local imports` merges
(f_scope), under which name a function-local import with `as` is recorded (f_alias), what get_fn_ast does with a lambda
(f_lambda).  Oracle: the real function / lambda called on exact `Ex` numbers vs the returned expression (c06.judge).
Correspondence: the Coq model (Resolve.v) resolves every name of the program under the EXTRACTED facts inside Coq and is
compared with the implementation; PyLang with CPython's resolution is compared with CPython.
"""

from __future__ import annotations

import ast
import importlib
import inspect
import sys
import textwrap
from fractions import Fraction
from pathlib import Path
from typing import Any

from harness import common
from harness import c06_gen as G

SRC = "src/mxlpy/meta/source_tools.py"

# ---------------------------------------------------------------------------------------
# facts
# ---------------------------------------------------------------------------------------

_GET_FN_AST_SHIPPED = (
    "tree = ast.parse(textwrap.dedent(get_fn_source(fn)))\nif not isinstance((fn_def := tree.body[0]), ast.FunctionDef):\n"
    "    msg = 'Not a function'\n    raise TypeError(msg)\nreturn fn_def"
)
_GET_FN_AST_REPAIRED = (
    "tree = ast.parse(textwrap.dedent(get_fn_source(fn)))\nif getattr(fn, '__name__', None) == '<lambda>' or not isinstance((fn_def := tree.body[0]), ast.FunctionDef):\n"
    "    msg = 'Not a function'\n    raise TypeError(msg)\nreturn fn_def"
)
_GET_FN_AST_SEEDED = (
    "tree = ast.parse(textwrap.dedent(get_fn_source(fn)))\nif isinstance((fn_def := tree.body[0]), ast.FunctionDef):\n    return fn_def\n"
    "if getattr(fn, '__name__', None) == '<lambda>':\n    return _lambda_to_fn_def(fn, tree)\nmsg = 'Not a function'\nraise TypeError(msg)"
)
_LAMBDA_TO_FN_DEF_SEEDED = (
    "code = fn.__code__\nn_params = code.co_argcount + code.co_kwonlyargcount\nparams = list(code.co_varnames[:n_params])\n"
    "for node in ast.walk(tree):\n    if isinstance(node, ast.Lambda):\n        args = node.args\n"
    "        names = [i.arg for i in (*args.posonlyargs, *args.args, *args.kwonlyargs)]\n        if names == params:\n"
    "            fn_def = ast.FunctionDef(name=fn.__name__, args=args, body=[ast.copy_location(ast.Return(value=node.body), node)], decorator_list=[], type_params=[])\n"
    "            return ast.fix_missing_locations(ast.copy_location(fn_def, node))\nmsg = 'Source of lambda not found'\nraise TypeError(msg)"
)
_IMPORT_SHIPPED = "for alias in node.names:\n    name = alias.name\n    ctx.modules[name] = importlib.import_module(name)"
_IMPORT_REPAIRED = "for alias in node.names:\n    name = alias.name\n    ctx.modules[alias.asname or name] = importlib.import_module(name)"
_FROM_HEAD = "package = cast(str, node.module)\nmodule = importlib.import_module(package)\ncontents = dict(inspect.getmembers(module))\nfor alias in node.names:\n"
_FROM_TAIL = (
    "    if isinstance(el, float):\n        ctx.symbols[name] = sympy.Float(el)\n    elif callable(el):\n        ctx.fns[name] = el\n"
    "    elif isinstance(el, ModuleType):\n        ctx.modules[name] = el\n    else:\n        _LOGGER.debug('Skipping import %s', node)"
)
_FROM_SHIPPED = _FROM_HEAD + "    name = alias.name\n    el = contents[name]\n" + _FROM_TAIL
_FROM_REPAIRED = _FROM_HEAD + "    el = contents[alias.name]\n    name = alias.asname or alias.name\n" + _FROM_TAIL
_CTX_NEW = "Context(symbols={name: sympy.Symbol(name) for name in fn_args}, caller=fn, parent_module=inspect.getmodule(fn), origin=origin, modules={}, fns={})"


def _members(pred: str) -> str:
    return f"dict(inspect.getmembers(ctx.parent_module, predicate={pred}))"


def _body_text(fn: ast.FunctionDef) -> str:
    return "\n".join(ast.unparse(s) for s in fn.body if not (isinstance(s, ast.Expr) and isinstance(s.value, ast.Constant) and isinstance(s.value.value, str)))


def _merge_kind(e: ast.expr, pred: str, local: str, fns: dict[str, ast.FunctionDef]) -> str | None:
    """'L' = the function-local imports are the right operand of `|` (they win), 'M' = the module's members win."""
    if isinstance(e, ast.BinOp) and isinstance(e.op, ast.BitOr):
        lt, rt = ast.unparse(e.left), ast.unparse(e.right)
        if lt == _members(pred) and rt == local:
            return "L"
        if lt == local and rt == _members(pred):
            return "M"
        return None
    if isinstance(e, ast.Call) and isinstance(e.func, ast.Name) and not e.keywords and [ast.unparse(a) for a in e.args] == ["ctx", pred, local]:
        h = fns.get(e.func.id)
        if h is None or h.decorator_list or [a.arg for a in h.args.args] != ["ctx", "predicate", "local"] or h.args.defaults or h.args.kwonlyargs or h.args.vararg or h.args.kwarg:
            return None
        t = _body_text(h)
        if t == "return dict(inspect.getmembers(ctx.parent_module, predicate=predicate)) | local":
            return "L"
        if t == "return local | dict(inspect.getmembers(ctx.parent_module, predicate=predicate))":
            return "M"
    return None


def _merges(fn: ast.FunctionDef, fns: dict[str, ast.FunctionDef]) -> list[tuple[str, str | None]]:
    """every place of `fn` that mentions ctx.fns / ctx.modules, classified"""
    out: list[tuple[str, str | None]] = []
    seen: set[int] = set()
    for n in ast.walk(fn):
        for pred, local in (("callable", "ctx.fns"), ("inspect.ismodule", "ctx.modules")):
            if isinstance(n, (ast.BinOp, ast.Call)) and id(n) not in seen:
                txt = ast.unparse(n)
                direct = isinstance(n, ast.BinOp) and isinstance(n.op, ast.BitOr) and local in (ast.unparse(n.left), ast.unparse(n.right))
                viacall = isinstance(n, ast.Call) and isinstance(n.func, ast.Name) and any(ast.unparse(a) == local for a in n.args)
                if direct or viacall:
                    seen.add(id(n))
                    out.append((local, _merge_kind(n, pred, local, fns)))
                del txt
    return out


def extract_rfacts() -> dict[str, str]:
    f = {"scope": "ScopeUnknown", "alias": "AliasUnknown", "lambda": "LamUnknown"}
    try:
        tree = ast.parse((common.REPO / SRC).read_text())
    except (OSError, SyntaxError):
        return f
    fns = {n.name: n for n in tree.body if isinstance(n, ast.FunctionDef)}
    ha, hc, fts, hb, gfa = (fns.get(k) for k in ("_handle_attribute", "_handle_call", "fn_to_sympy", "_handle_fn_body", "get_fn_ast"))

    # ---- f_scope: the three merges, a fresh (empty) pair of local tables per translated function
    if ha is not None and hc is not None and fts is not None:
        ma, mc = _merges(ha, fns), _merges(hc, fns)
        fresh = any(isinstance(n, ast.Call) and ast.unparse(n) == _CTX_NEW for n in ast.walk(fts))
        ok_counts = (
            sorted(k for k, _ in ma) == ["ctx.modules"] and sorted(k for k, _ in mc) == ["ctx.fns", "ctx.modules"]
            and ast.unparse(ha).count("ctx.modules") == 1 and ast.unparse(hc).count("ctx.modules") == 1 and ast.unparse(hc).count("ctx.fns") == 1
            and "ctx.fns" not in ast.unparse(ha)
        )
        kinds = {k for _, k in ma + mc}
        if fresh and ok_counts and kinds == {"L"}:
            f["scope"] = "ScopeLocalWins"
        elif fresh and ok_counts and kinds == {"M"}:
            f["scope"] = "ScopeModuleWins"

    # ---- f_alias: the Import / ImportFrom blocks of _handle_fn_body
    if hb is not None:
        blocks = {ast.unparse(n.test): "\n".join(ast.unparse(s) for s in n.body) for n in ast.walk(hb) if isinstance(n, ast.If) and ast.unparse(n.test) in ("isinstance(node, ast.Import)", "isinstance(node, ast.ImportFrom)")}
        pair = (blocks.get("isinstance(node, ast.Import)"), blocks.get("isinstance(node, ast.ImportFrom)"))
        if pair == (_IMPORT_SHIPPED, _FROM_SHIPPED):
            f["alias"] = "AliasIgnored"
        elif pair == (_IMPORT_REPAIRED, _FROM_REPAIRED):
            f["alias"] = "AliasHonoured"

    # ---- f_lambda: get_fn_ast
    if gfa is not None and not gfa.decorator_list:
        t = _body_text(gfa)
        if t == _GET_FN_AST_SHIPPED:
            f["lambda"] = "LamDefLine"
        elif t == _GET_FN_AST_REPAIRED:
            f["lambda"] = "LamRefused"
        elif t == _GET_FN_AST_SEEDED and (h := fns.get("_lambda_to_fn_def")) is not None and not h.decorator_list and _body_text(h) == _LAMBDA_TO_FN_DEF_SEEDED:
            f["lambda"] = "LamFirstMatching"
    return f


# ---------------------------------------------------------------------------------------
# the small expression language of this stage (tuples as in c06_gen, plus NAMED references)
#   ("ncall", name, [e])            name(e, ...)            name in FN_NAMES (or a helper / alias)
#   ("nmcall", modname, k, [e])     modname.sat / .lin      k = 0 | 1
#   ("nattr", modname, k)           modname.K / .H
# ---------------------------------------------------------------------------------------

ALARM_ID = {"alias": "local-import-alias-ignored", "lambda": "lambda-on-def-line"}

# name ids of the Coq model (Resolve.v: the N carried by ECall before resolution)
NAME_ID = {"scale": 1, "shift": 2, "boost": 3, "other": 4, "consts": 5, "LIB": 6, "sc": 7, "pc": 8, "bo": 9, "helper": 20}
ARITY = {"scale": 1, "shift": 2, "boost": 1, "other": 1, "sc": 1, "bo": 1, "helper": 1}
MODFN = ["sat", "lin"]
MODFN_ARITY = [1, 2]
MODCONST = ["K", "H"]
# objects: functions are their index in DEFS; modules 100.. ; 99 = unresolved
OBJ_MOD = {"pf.consts": 100, "ps.consts": 101, "lib": 102}
K_MAIN = 50  # variable id of the main module's float constant K


class Lib:
    """the constants of one chunk's library modules and the fixed definition list"""

    def __init__(self, rng, tag: str) -> None:
        pool = [Fraction(x) for x in (2, 3, 5, 7, 4)] + [Fraction(1, 2), Fraction(3, 2), Fraction(5, 2)]
        self.tag = tag
        r = rng

        def pick(*avoid):
            return r.choice([p for p in pool if p not in avoid])

        self.c: dict[str, Fraction] = {}
        for mod in ("pf", "ps"):
            for k in ("scale", "shift", "boost"):
                self.c[f"{mod}.{k}"] = pick(*[self.c.get(f"pf.{k}")])
        self.c["ps.other"] = pick()
        for mod in ("pf.consts", "ps.consts", "lib"):
            prev = [self.c.get(f"{m}.{k}") for m in ("pf.consts", "ps.consts", "lib") for k in ("K",)]
            self.c[f"{mod}.K"] = pick(*prev)
            prevh = [self.c.get(f"{m}.H") for m in ("pf.consts", "ps.consts", "lib")]
            self.c[f"{mod}.H"] = pick(*prevh)
            prevs = [self.c.get(f"{m}.sat") for m in ("pf.consts", "ps.consts", "lib")]
            self.c[f"{mod}.sat"] = pick(*prevs)
            prevl = [self.c.get(f"{m}.lin") for m in ("pf.consts", "ps.consts", "lib")]
            self.c[f"{mod}.lin"] = pick(*prevl)
        self.c["main.boost"] = pick(self.c["pf.boost"], self.c["ps.boost"])
        self.c["main.K"] = pick()
        # definition list: (key, params, body tuple-AST)
        v1, v2 = ("var", 1), ("var", 2)

        def num(q):
            return ("num", q, True)

        self.defs: list[tuple[str, list[int], tuple]] = []
        for mod in ("pf", "ps"):
            self.defs.append((f"{mod}.scale", [1], ("bin", "Mul", num(self.c[f"{mod}.scale"]), v1)))
            self.defs.append((f"{mod}.shift", [1, 2], ("bin", "Add", v1, ("bin", "Mul", num(self.c[f"{mod}.shift"]), v2))))
            self.defs.append((f"{mod}.boost", [1], ("bin", "Add", ("bin", "Mul", v1, v1), num(self.c[f"{mod}.boost"]))))
            if mod == "ps":
                self.defs.append(("ps.other", [1], ("bin", "Sub", num(self.c["ps.other"]), v1)))
        for mod in ("pf.consts", "ps.consts", "lib"):
            self.defs.append((f"{mod}.sat", [1], ("bin", "Div", v1, ("bin", "Add", num(self.c[f"{mod}.sat"]), v1))))
            self.defs.append((f"{mod}.lin", [1, 2], ("bin", "Sub", ("bin", "Mul", num(self.c[f"{mod}.lin"]), v1), v2)))
        self.defs.append(("main.boost", [1], ("bin", "Mul", num(self.c["main.boost"]), v1)))
        self.idx = {k: i for i, (k, _p, _b) in enumerate(self.defs)}
        self.n = len(self.defs)
        # module-level bindings of the main module: name -> object
        self.modlevel = {"scale": self.idx["pf.scale"], "shift": self.idx["pf.shift"], "consts": OBJ_MOD["pf.consts"], "LIB": OBJ_MOD["pf.consts"], "boost": self.idx["main.boost"]}

    # -- Python sources
    def mod(self, key: str) -> str:
        return {"pf": f"{self.tag}_pf", "ps": f"{self.tag}_ps", "pf.consts": f"{self.tag}_pf.consts", "ps.consts": f"{self.tag}_ps.consts", "lib": f"{self.tag}_lib", "main": f"{self.tag}_m"}[key]

    def write(self, d: Path) -> None:
        def fl(q):
            return repr(float(q))

        for mod in ("pf", "ps"):
            p = d / f"{self.tag}_{mod}"
            p.mkdir(exist_ok=True)
            lines = [f"from {self.tag}_{mod} import consts", "", ""]
            lines += [f"def scale(x):\n    return {fl(self.c[mod + '.scale'])} * x\n\n", f"def shift(x, y):\n    return x + {fl(self.c[mod + '.shift'])} * y\n\n", f"def boost(x):\n    return x * x + {fl(self.c[mod + '.boost'])}\n\n"]
            if mod == "ps":
                lines.append(f"def other(x):\n    return {fl(self.c['ps.other'])} - x\n")
            (p / "__init__.py").write_text("\n".join(lines))
            (p / "consts.py").write_text(self._consts_src(f"{mod}.consts"))
        (d / f"{self.tag}_lib.py").write_text(self._consts_src("lib"))

    def _consts_src(self, mod: str) -> str:
        c = self.c
        return (
            f"K = {float(c[mod + '.K'])!r}\nH = {float(c[mod + '.H'])!r}\n\n\n"
            f"def sat(x):\n    return x / ({float(c[mod + '.sat'])!r} + x)\n\n\n"
            f"def lin(x, y):\n    return {float(c[mod + '.lin'])!r} * x - y\n"
        )

    def main_head(self) -> str:
        t = self.tag
        return (
            f"import {t}_pf.consts as {t}_lib\nfrom {t}_pf import consts, scale, shift\n\nK = {float(self.c['main.K'])!r}\n\n\n"
            f"def boost(x):\n    return {float(self.c['main.boost'])!r} * x\n"
        )


# import statements a generated function may start with: (python text builder, decl for the model, what Python binds)
#   kind, imported name, alias|None, object key
def _import_choices(lib: Lib, allow_alias: bool) -> list[tuple]:
    t = lib.tag
    out = [
        ("from", f"{t}_ps", "scale", None, lib.idx["ps.scale"]),       # collides with the module-level from-import
        ("from", f"{t}_ps", "scale", None, lib.idx["ps.scale"]),
        ("from", f"{t}_ps", "shift", None, lib.idx["ps.shift"]),
        ("from", f"{t}_ps", "consts", None, OBJ_MOD["ps.consts"]),     # a module object, collides
        ("from", f"{t}_ps", "consts", None, OBJ_MOD["ps.consts"]),
        ("from", f"{t}_ps", "boost", None, lib.idx["ps.boost"]),       # collides with a def of the main module
        ("import", f"{t}_lib", "LIB", None, OBJ_MOD["lib"]),            # `import <lib>`: collides with the module-level alias
        ("from", f"{t}_ps", "other", None, lib.idx["ps.other"]),       # no collision: only local
        ("from", f"{t}_pf", "scale", None, lib.idx["pf.scale"]),       # the SAME object on both sides
        ("from", f"{t}_pf", "boost", None, lib.idx["pf.boost"]),       # collides with the def
        ("float", f"{t}_ps.consts", "K", None, None),                  # a float: goes to the symbol table
    ]
    if allow_alias:
        out += [
            ("from", f"{t}_ps", "scale", "sc", lib.idx["ps.scale"]),
            ("from", f"{t}_ps", "boost", "bo", lib.idx["ps.boost"]),
            ("from", f"{t}_ps", "consts", "pc", OBJ_MOD["ps.consts"]),
            ("importas", f"{t}_ps.consts", "pc", "pc", OBJ_MOD["ps.consts"]),
        ]
    return out


class SGen:
    def __init__(self, rng, lib: Lib, allow_alias: bool) -> None:
        self.r = rng
        self.lib = lib
        self.allow_alias = allow_alias
        self.feat: set[str] = set()

    def lit(self) -> tuple:
        return ("num", Fraction(self.r.choice([1, 2, 3, -1, 4])), False) if self.r.random() < 0.7 else ("num", Fraction(self.r.choice([1, 3, 5, -1]), 2), True)

    def atom(self, sc: dict, d: int, need_param: bool = False) -> tuple:
        r = self.r
        x = r.random()
        if need_param or x < 0.3 or d <= 0:
            if need_param or x < 0.22 or not sc["consts"]:
                return ("var", r.choice(sc["params"] + sc["locals"]))
            k = r.choice(sc["consts"])
            return ("var", K_MAIN) if k == "K" else self.lit()
        if x < 0.42:
            return self.lit()
        if x < 0.56 and sc["modnames"]:
            self.feat.add("module-attribute-constant")
            return ("nattr", r.choice(sc["modnames"]), r.randrange(2))
        if x < 0.72 and sc["modnames"]:
            self.feat.add("module-attribute-call")
            k = r.randrange(2)
            return ("nmcall", r.choice(sc["modnames"]), k, [self.arg(sc, d - 1) for _ in range(MODFN_ARITY[k])])
        if sc["fnnames"]:
            self.feat.add("name-call")
            n = r.choice(sc["fnnames"])
            return ("ncall", n, [self.arg(sc, d - 1) for _ in range(ARITY[n])])
        return ("var", r.choice(sc["params"]))

    def arg(self, sc: dict, d: int) -> tuple:
        """an argument of a call: always contains a parameter at the top, so that the call runs on exact numbers"""
        p = ("var", self.r.choice(sc["params"]))
        if self.r.random() < 0.45:
            return p
        return ("bin", self.r.choice(["Add", "Mul", "Sub"]), p, self.atom(sc, d) if self.r.random() < 0.5 else self.lit())

    def expr(self, sc: dict, d: int) -> tuple:
        r = self.r
        n = r.choice([1, 2, 2, 3])
        e = self.atom(sc, d)
        for _ in range(n - 1):
            e = ("bin", r.choice(["Add", "Sub", "Mul", "Add"]), e, self.atom(sc, d))
        return e

    # a function: {"name", "params", "imports": [...], "branch_imports": [...], "body": [stmt], "key"}
    def function(self, name: str, nparams: int, helper: dict | None, simple: bool = False) -> dict:
        r = self.r
        lib = self.lib
        params = list(range(1, nparams + 1))
        choices = _import_choices(lib, self.allow_alias)
        k = r.choice([0, 1, 1, 2, 2, 3]) if not simple else r.choice([0, 1])
        imports = [r.choice(choices) for _ in range(k)]
        # what Python binds in this function (locals first); what names are usable
        binds: dict[str, Any] = {}
        for kind, _m, nm, alias, obj in imports:
            binds[alias or nm] = ("float", None) if kind == "float" else ("obj", obj)
        fnnames = [n for n in ("scale", "shift", "boost") if binds.get(n, ("obj",))[0] == "obj"]
        fnnames += [n for n in ("other", "sc", "bo") if n in binds]
        if helper is not None:
            fnnames += ["helper", "helper"]
        modnames = ["consts", "LIB"] + (["pc"] if "pc" in binds else [])
        sc = {"params": params, "locals": [], "consts": ["K", "lit"], "fnnames": fnnames, "modnames": modnames}
        for kind, _m, nm, alias, _o in imports:
            if kind != "float":
                self.feat.add("local-import")
            if kind == "float":
                self.feat.add("local-import-float")
            if alias and kind != "import":
                self.feat.add("local-import-alias")
            if (alias or nm) in lib.modlevel and kind != "float" and lib.modlevel[alias or nm] != _o:
                self.feat.add("local-import-shadows-module-level-name")
        body: list = []
        branch_imports: list = []
        # an import INSIDE an if branch: the name is a local of the WHOLE function for CPython, so it is used in that
        # branch only (anywhere else CPython raises UnboundLocalError: decided before anything else is generated)
        branch_imp = None
        if r.random() < 0.2 and not simple:
            cands = [c for c in choices if c[0] == "from" and c[3] is None and c[2] not in binds and c[2] in ("scale", "shift", "boost", "other")]
            if cands:
                branch_imp = r.choice(cands)
                sc["fnnames"] = [n for n in fnnames if n != branch_imp[2]]
        if r.random() < 0.3 and not simple:
            body.append(("assign", 10, self.expr(sc, 2)))
            sc["locals"] = [10]
        if branch_imp is not None or (r.random() < 0.2 and not simple):
            cond = ("cmp", ("var", r.choice(params)), [(r.choice(["Gt", "Lt", "GtE"]), self.lit())])
            if branch_imp is not None:
                self.feat.add("local-import-inside-branch")
                self.feat.add("local-import")
                if branch_imp[2] in lib.modlevel:
                    self.feat.add("local-import-shadows-module-level-name")
                branch_imports.append(branch_imp)
                inner = dict(sc)
                inner["fnnames"] = [branch_imp[2]] * 3 + sc["fnnames"]
                body.append(("if", cond, [("import", branch_imp), ("return", self.expr(inner, 2))], []))
            else:
                body.append(("if", cond, [("return", self.expr(sc, 2))], []))
        body.append(("return", self.expr(sc, 2 if not simple else 1)))
        return {"name": name, "params": params, "imports": imports, "branch_imports": branch_imports, "body": body}

    # ---- rendering: Python
    def src_e(self, e: tuple, f: dict) -> str:
        k = e[0]
        t = self.lib.tag
        if k == "num":
            return G.num_src(e[1], e[2])
        if k == "var":
            return "K" if e[1] == K_MAIN else G.vn(e[1])
        if k == "bin":
            return f"({self.src_e(e[2], f)} {G.BIN_PY[e[1]]} {self.src_e(e[3], f)})"
        if k == "ncall":
            nm = f["helper_name"] if e[1] == "helper" else e[1]
            return f"{nm}({', '.join(self.src_e(a, f) for a in e[2])})"
        if k == "nmcall":
            return f"{self._modname(e[1], t)}.{MODFN[e[2]]}({', '.join(self.src_e(a, f) for a in e[3])})"
        if k == "nattr":
            return f"{self._modname(e[1], t)}.{MODCONST[e[2]]}"
        raise AssertionError(k)

    @staticmethod
    def _modname(n: str, tag: str) -> str:
        return f"{tag}_lib" if n == "LIB" else n

    @staticmethod
    def src_import(imp: tuple) -> str:
        kind, m, nm, alias, _o = imp
        if kind == "import":
            return f"import {m}"
        if kind == "importas":
            return f"import {m} as {alias}"
        return f"from {m} import {nm}" + (f" as {alias}" if alias else "")

    def src_fn(self, f: dict) -> str:
        lines = [f"def {f['name']}({', '.join(G.vn(p) for p in f['params'])}):"]
        for imp in f["imports"]:
            lines.append("    " + self.src_import(imp))
        for s in f["body"]:
            lines += self._src_s(s, f, 1)
        return "\n".join(lines) + "\n"

    def _src_s(self, s: tuple, f: dict, ind: int) -> list[str]:
        pad = "    " * ind
        if s[0] == "assign":
            return [f"{pad}{G.vn(s[1])} = {self.src_e(s[2], f)}"]
        if s[0] == "return":
            return [f"{pad}return {self.src_e(s[1], f)}"]
        if s[0] == "import":
            return [pad + self.src_import(s[1])]
        if s[0] == "if":
            c = s[1]
            out = [f"{pad}if {self.src_e(c[1], f)} {G.CMP_PY[c[2][0][0]]} {self.src_e(c[2][0][1], f)}:"]
            for x in s[2]:
                out += self._src_s(x, f, ind + 1)
            return out
        raise AssertionError(s[0])

    # ---- rendering: Gallina.  mode "py": names resolved as CPython does (literal objects);
    #      mode "tr": every name goes through Resolve.resolve under the extracted facts, INSIDE Coq
    def decls(self, f: dict) -> list[tuple[str, str, int]]:
        out = []
        for kind, _m, nm, alias, obj in f["imports"] + f["branch_imports"]:
            if kind == "float":
                continue
            # `import a.b as c` imports the module named a.b: the model's im_name is a key no reference uses
            iname = NAME_ID[nm] if kind != "importas" else 90
            out.append((iname, NAME_ID[alias or nm], obj))
        return out

    def py_obj(self, f: dict, name: str) -> int:
        loc = {}
        for kind, _m, nm, alias, obj in f["imports"] + f["branch_imports"]:
            if kind != "float":
                loc[alias or nm] = obj
        if name == "helper":
            return f["helper_idx"]
        return loc.get(name, self.lib.modlevel.get(name, 99))

    def g_e(self, e: tuple, f: dict, mode: str) -> str:
        k = e[0]
        if k in ("num", "var"):
            return G.g_expr(e)
        if k == "bin":
            return f"(EBin {e[1]} {self.g_e(e[2], f, mode)} {self.g_e(e[3], f, mode)})"
        if k == "ncall":
            o = f"(R{f['rid']} {NAME_ID[e[1]]})" if mode == "tr" else str(self.py_obj(f, e[1]))
            return f"(ECall {o} {self._g_es(e[2], f, mode)})"
        if k == "nmcall":
            o = f"(R{f['rid']} {NAME_ID[e[1]]})" if mode == "tr" else str(self.py_obj(f, e[1]))
            return f"(ECall (modfn {o} {e[2]}%nat) {self._g_es(e[3], f, mode)})"
        if k == "nattr":
            o = f"(R{f['rid']} {NAME_ID[e[1]]})" if mode == "tr" else str(self.py_obj(f, e[1]))
            return f"(attr_e {o} {e[2]}%nat)"
        raise AssertionError(k)

    def _g_es(self, es: list, f: dict, mode: str) -> str:
        s = "ENil"
        for e in reversed(es):
            s = f"(ECons {self.g_e(e, f, mode)} {s})"
        return s

    def g_ss(self, ss: list, f: dict, mode: str) -> str:
        out = "SNil"
        for s in reversed(ss):
            if s[0] == "assign":
                h = f"(SAssign {s[1]} {self.g_e(s[2], f, mode)})"
            elif s[0] == "return":
                h = f"(SReturn {self.g_e(s[1], f, mode)})"
            elif s[0] == "import":
                h = self._g_import(s[1])
                if h is None:
                    continue
            else:
                c = s[1]
                cond = f"(CCmp {self.g_e(c[1], f, mode)} (ChCons {c[2][0][0]} {self.g_e(c[2][0][1], f, mode)} ChNil))"
                h = f"(SIf {cond} {self.g_ss(s[2], f, mode)} SNil)"
            out = f"(SCons {h} {out})"
        return out

    def _g_import(self, imp: tuple) -> str | None:
        if imp[0] == "float":
            # `from m import K`: ctx.symbols["K"] = Float(value) -- an assignment of a number to the local K
            return f"(SAssign {K_MAIN} (ENum {G.cq(self.lib.c['ps.consts.K'])}))"
        return "SPass"

    def g_fn(self, f: dict, mode: str) -> str:
        pre = [self._g_import(i) for i in f["imports"]]
        body = self.g_ss(f["body"], f, mode)
        for h in reversed(pre):
            body = f"(SCons {h} {body})"
        return f"(mkMFun [{'; '.join(str(p) for p in f['params'])}] [] 0 {body})"


def g_lib_defs(lib: Lib) -> str:
    rows = []
    for _key, params, body in lib.defs:
        rows.append(f"(mkMFun [{'; '.join(str(p) for p in params)}] [] 1 (SCons (SReturn {G.g_expr(body)}) SNil))")
    return "[" + ";\n  ".join(rows) + "]"


def scope_corr_header(lib: Lib) -> str:
    ml = "; ".join(f"({NAME_ID[k]}, {v})" for k, v in lib.modlevel.items())
    modfn_rows = " ".join(
        f"| {OBJ_MOD[m]} => nth k [{lib.idx[m + '.sat']}; {lib.idx[m + '.lin']}] 99" for m in ("pf.consts", "ps.consts", "lib")
    )
    modconst_rows = " ".join(
        f"| {OBJ_MOD[m]} => nth_error [{G.cq(lib.c[m + '.K'])}; {G.cq(lib.c[m + '.H'])}] k" for m in ("pf.consts", "ps.consts", "lib")
    )
    return (
        "From MxlBase Require Import ListX.\nFrom FnSym Require Import FnToSym ConstEnv Resolve GenFnSymFacts Corr.\nOpen Scope N_scope.\n"
        f"Definition env0 : cenv := [(0, [({K_MAIN}, {G.cq(lib.c['main.K'])})]); (1, [])].\n"
        f"Definition ML : table := [{ml}].\n"
        f"Definition modfn (o : N) (k : nat) : N := match o with {modfn_rows} | _ => 99 end.\n"
        f"Definition modconst (o : N) (k : nat) : option Q := match o with {modconst_rows} | _ => None end.\n"
        "Definition attr_e (o : N) (k : nat) : expr := match modconst o k with Some q => ENum q | None => EOther end.\n"
        f"Definition LIBDEFS : list mfun := {g_lib_defs(lib)}.\n"
        "Record scase := mkSCase { s_t : ccase; s_py : ccase }.\n"
    )


# ---------------------------------------------------------------------------------------
# lambdas
# ---------------------------------------------------------------------------------------


class LGen:
    """statements holding lambdas; bodies over the lambda's parameters, literals, the module constant K and boost()"""

    def __init__(self, rng, allow_def_line: bool) -> None:
        self.r = rng
        self.allow_def_line = allow_def_line
        self.feat: set[str] = set()

    def lit(self) -> tuple:
        return ("num", Fraction(self.r.choice([1, 2, 3, -1, 4])), False) if self.r.random() < 0.7 else ("num", Fraction(self.r.choice([1, 3, 5, -1]), 2), True)

    def expr(self, params: list[int], d: int) -> tuple:
        r = self.r
        x = r.random()
        if d <= 0 or x < 0.3:
            y = r.random()
            if y < 0.65:
                return ("var", r.choice(params))
            if y < 0.75:
                return ("var", K_MAIN)
            return self.lit()
        if x < 0.75:
            op = r.choice(["Add", "Sub", "Mul", "Mul", "Div"])
            a = self.expr(params, d - 1)
            if op == "Div":
                b = ("bin", "Add", self.lit(), ("var", r.choice(params)))
            else:
                b = self.expr(params, d - 1)
            return ("bin", op, a, b)
        if x < 0.85:
            return ("ifexp", ("cmp", ("var", r.choice(params)), [(r.choice(["Gt", "Lt", "GtE", "CEq"]), self.lit())]), self.expr(params, d - 1), self.expr(params, d - 1))
        if x < 0.95:
            p = ("var", r.choice(params))
            return ("call", 0, [p if r.random() < 0.5 else ("bin", "Add", p, self.lit())])
        return ("un", "USub", self.expr(params, d - 1))

    def src_e(self, e: tuple) -> str:
        k = e[0]
        if k == "num":
            return G.num_src(e[1], e[2])
        if k == "var":
            return "K" if e[1] == K_MAIN else G.vn(e[1])
        if k == "un":
            return f"(-{self.src_e(e[2])})"
        if k == "bin":
            return f"({self.src_e(e[2])} {G.BIN_PY[e[1]]} {self.src_e(e[3])})"
        if k == "ifexp":
            c = e[1]
            return f"({self.src_e(e[2])} if {self.src_e(c[1])} {G.CMP_PY[c[2][0][0]]} {self.src_e(c[2][0][1])} else {self.src_e(e[3])})"
        if k == "call":
            return f"boost({self.src_e(e[2][0])})"
        raise AssertionError(k)

    def lam(self, params: list[int]) -> dict:
        body = self.expr(params, 2)
        text = f"lambda {', '.join(G.vn(p) for p in params)}: {self.src_e(body)}"
        return {"params": params, "body": body, "text": text}

    def statement(self, sid: int) -> dict:
        """-> {"src": statement text, "lams": [lam dicts with "path" (python expression selecting the object)], "def": None | {...}}"""
        r = self.r
        name = f"S{sid:03d}"
        kind = r.choice(["single", "dict-same", "dict-same", "dict-same", "tuple-diff", "nested", "multiline", "per-line", "three-mixed"] + (["def-line"] if self.allow_def_line else []))
        self.feat.add("lambda-stmt-" + kind)
        p2 = [1, 2] if r.random() < 0.7 else [1]
        st: dict = {"name": name, "kind": kind, "def": None}
        if kind == "single":
            a = self.lam(p2)
            a["path"] = name
            st["src"] = f"{name} = {a['text']}"
            st["lams"] = [a]
        elif kind == "dict-same":
            a, b = self.lam(p2), self.lam(p2)
            a["path"], b["path"] = f"{name}['a']", f"{name}['b']"
            st["src"] = f"{name} = {{'a': {a['text']}, 'b': {b['text']}}}"
            st["lams"] = [a, b]
        elif kind == "tuple-diff":
            q = [3, 4][: len(p2)]
            a, b = self.lam(p2), self.lam(q)
            a["path"], b["path"] = f"{name}[0]", f"{name}[1]"
            st["src"] = f"{name} = ({a['text']}), ({b['text']})"
            st["lams"] = [a, b]
        elif kind == "nested":
            # breadth-first order (ast.walk) differs from the source order: the second lambda is found first
            a, b = self.lam(p2), self.lam(p2)
            a["path"], b["path"] = f"{name}[0][0]", f"{name}[1]"
            st["src"] = f"{name} = [[{a['text']}], {b['text']}]"
            st["lams"] = [a, b]
        elif kind == "multiline":
            a, b = self.lam(p2), self.lam(p2)
            a["path"], b["path"] = f"{name}[0]", f"{name}[1]"
            st["src"] = f"{name} = [{a['text']}, {b['text']},\n    0]"
            st["lams"] = [a, b]
        elif kind == "per-line":
            a, b = self.lam(p2), self.lam(p2)
            a["path"], b["path"] = f"{name}[0]", f"{name}[1]"
            st["src"] = f"{name} = [\n    {a['text']},\n    {b['text']},\n]"
            st["lams"] = [a, b]
        elif kind == "three-mixed":
            q = [3, 4][: len(p2)]
            a, b, c = self.lam(p2), self.lam(q), self.lam(p2)
            for i, x in enumerate((a, b, c)):
                x["path"] = f"{name}[{i}]"
            st["src"] = f"{name} = ({a['text']}, {b['text']}, {c['text']})"
            st["lams"] = [a, b, c]
        else:  # def-line: the lambda is a default value of a def
            a = self.lam([1, 2])
            body = self.expr([1, 2], 1)
            a["path"] = f"{name}.__defaults__[0]"
            st["src"] = f"def {name}(v01, v02, v03={a['text']}):\n    return {self.src_e(body)}"
            st["lams"] = [a]
            st["def"] = {"params": [1, 2, 3], "body": body}
        return st


def g_lam(lm: dict) -> str:
    return f"(mkLam [{'; '.join(str(p) for p in lm['params'])}] {G.g_expr(lm['body'])})"


def seen_statement(obj: Any, st: dict) -> tuple[list[dict], int, dict | None] | None:
    """What get_fn_ast is given for this lambda object: inspect.getsource (Python's own; the source STATEMENT as far as
    inspect can tell), parsed.  -> (lambdas of it in ast.walk order, index of the object's own lambda, def|None);
    None if that text does not parse (SyntaxError escapes fn_to_sympy: a visible failure, oracle only)."""
    try:
        tree = ast.parse(textwrap.dedent(inspect.getsource(obj)))
    except (SyntaxError, OSError):
        return None
    by_text = {ast.unparse(ast.parse(lm["text"], mode="eval").body): lm for lm in st["lams"]}
    walked = [by_text.get(ast.unparse(n)) for n in ast.walk(tree) if isinstance(n, ast.Lambda)]
    if any(w is None for w in walked):
        return None
    own = next((lm for lm in st["lams"] if eval_path_is(obj, lm)), None)  # noqa: S307
    if own is None or own not in walked:
        return None
    d = st["def"] if isinstance(tree.body[0], ast.FunctionDef) else None
    return walked, walked.index(own), d


def eval_path_is(obj: Any, lm: dict) -> bool:
    return lm.get("obj") is obj


# ---------------------------------------------------------------------------------------
# the stage
# ---------------------------------------------------------------------------------------


def run_stage(run, rfacts: dict[str, str], nviol: list[int], known_ids: set[str]) -> tuple[dict[str, str], dict[str, list[dict]], dict]:
    """-> (correspondence files, their case metas, coverage)"""
    from harness import c06 as C

    thorough = run.tier == "thorough"
    rng = common.rng_for(run.seed, "c06-scope")
    n_chunks = 6 if thorough else 2
    per_chunk = 60 if thorough else 45
    n_lam_stmts = 70 if thorough else 40
    # the two recorded findings: their shapes are generated only when the source has the repaired form
    allow_alias = rfacts["alias"] == "AliasHonoured" or ALARM_ID["alias"] not in known_ids
    allow_def_line = rfacts["lambda"] == "LamRefused" or ALARM_ID["lambda"] not in known_ids
    d = common.scratch_dir("c06scope")
    sys.path.insert(0, str(d))
    tag0 = f"c06s{d.name.split('-')[-1]}"
    files: dict[str, str] = {}
    metas: dict[str, list[dict]] = {}
    cov: dict[str, Any] = {"scope_functions": 0, "lambda_objects": 0, "features": {}, "outcomes": {}, "discarded": {}, "lambda_source_not_parseable (oracle only)": 0,
                           "alias_imports_generated": allow_alias, "def_line_lambdas_generated": allow_def_line}
    feats: dict[str, int] = cov["features"]
    outcomes: dict[str, int] = cov["outcomes"]
    loaded: list[str] = []

    def bump(dct: dict, k: str) -> None:
        dct[k] = dct.get(k, 0) + 1

    def report(what: str, srcs: dict[str, str], main: str, fn_expr: str, ms, pts, bad, out) -> None:
        if nviol[0] < 8:
            nviol[0] += 1
            run.violation(
                what,
                {"kind": "scope", "modules": srcs, "main_module": main, "function": fn_expr, "model_args": ms,
                 "points": [{kk: str(v) for kk, v in pt.items()} for pt in pts], "first_bad": bad, "expression": str(out[1])},
            )

    try:
        for chunk in range(n_chunks):
            tag = f"{tag0}_{chunk:02d}"
            lib = Lib(rng, tag)
            lib.write(d)
            sg = SGen(rng, lib, allow_alias)
            fns: list[dict] = []
            for k in range(per_chunk):
                helper = None
                sg.feat = set()
                if rng.random() < 0.25:
                    helper = sg.function(f"h{k:02d}", 1, None, simple=True)
                f = sg.function(f"t{k:02d}", rng.choice([1, 2, 2, 3]), helper)
                f["helper"] = helper
                f["helper_name"] = helper["name"] if helper else None
                if helper:
                    sg.feat.add("helper-with-own-imports" if helper["imports"] else "helper")
                for f_ in sg.feat:
                    feats[f_] = feats.get(f_, 0) + 1
                fns.append(f)
            main_src = lib.main_head() + "\n\n" + "\n\n".join((sg.src_fn(f["helper"]) + "\n\n" if f["helper"] else "") + sg.src_fn(f) for f in fns)
            (d / f"{tag}_m.py").write_text(main_src)
            # ---- lambdas of this chunk
            lg = LGen(rng, allow_def_line)
            stmts = []
            for i in range(n_lam_stmts // n_chunks + 1):
                lg.feat = set()
                stmts.append(lg.statement(chunk * 1000 + i))
                for f_ in lg.feat:
                    feats[f_] = feats.get(f_, 0) + 1
            lam_src = f"K = {float(lib.c['main.K'])!r}\n\n\ndef boost(x):\n    return {float(lib.c['main.boost'])!r} * x\n\n\n" + "\n\n".join(s["src"] for s in stmts) + "\n"
            (d / f"{tag}_lam.py").write_text(lam_src)
            importlib.invalidate_caches()
            try:
                mod = importlib.import_module(f"{tag}_m")
                lmod = importlib.import_module(f"{tag}_lam")
                loaded += [f"{tag}_m", f"{tag}_lam", f"{tag}_pf", f"{tag}_ps", f"{tag}_pf.consts", f"{tag}_ps.consts", f"{tag}_lib"]
            except Exception as ex:  # noqa: BLE001 -- a generator bug must not look like a pass
                run.broken_correspondence.append(f"generated scope module {tag}_m does not import: {type(ex).__name__}: {ex}")
                continue
            srcs = {n: (d / n).read_text() for n in (f"{tag}_m.py", f"{tag}_lib.py", f"{tag}_pf/__init__.py", f"{tag}_pf/consts.py", f"{tag}_ps/__init__.py", f"{tag}_ps/consts.py")}

            # ---- scope cases
            defs_txt, cases, cm = [], [], []
            for k, f in enumerate(fns):
                cov["scope_functions"] += 1
                fn = getattr(mod, f["name"])
                params = [G.vn(p) for p in f["params"]]
                rid = k * 2
                f["rid"] = rid
                f["helper_idx"] = lib.n
                h = f["helper"]
                if h is not None:
                    h["rid"] = rid + 1
                    h["helper_idx"] = 99
                    h["helper_name"] = None
                # resolution functions of the model: module-level table + helper name; the function's own imports
                ml = "ML" if h is None else f"(({NAME_ID['helper']}, {lib.n}) :: ML)"
                for ff in ([h] if h else []) + [f]:
                    ds = "; ".join(f"mkImp {a} {b} {c}" for a, b, c in sg.decls(ff))
                    defs_txt.append(f"Definition R{ff['rid']} : N -> N := resolve gen_fnsym_rfacts {ml} [{ds}].")
                for mode in ("tr", "py"):
                    progs = ([sg.g_fn(h, mode)] if h else []) + [sg.g_fn(f, mode)]
                    defs_txt.append(f"Definition p{k}{mode} : list mfun := LIBDEFS ++ [" + "; ".join(progs) + "].")
                idx = lib.n + (1 if h else 0)
                for vname, margs in C.variants(rng, f["params"]):
                    ms = None if margs is None else [G.vn(m) for m in margs]
                    syms = sorted(set(params if ms is None else ms))
                    pts = C.make_points(rng, syms, 8)
                    out = C.run_impl(fn, ms)
                    swallowed = C.LAST_NONE_SWALLOWED
                    pyvals, implvals, bad, disc = C.judge(fn, params, ms, pts, out)
                    bump(outcomes, "scope:" + (out[0] if out[0] != "refused" else "refused:" + str(out[1]).split(":")[0]))
                    run.count_case(("scope", sg.src_fn(f), sg.src_fn(h) if h else "", ms, str(sorted(lib.c.items()))), nontrivial=bool(f["imports"] or f["branch_imports"] or h))
                    if disc is not None:
                        bump(cov["discarded"], disc.split(" ")[0])
                        continue
                    if bad:
                        report(
                            f"fn_to_sympy({f['name']}, model_args={ms}) returned {out[1]} but the function has value {bad['python_value']} at {bad['point']} (expression: {bad['expression_value']}); "
                            f"the function imports names locally: {[sg.src_import(i) for i in f['imports'] + f['branch_imports']]}",
                            srcs, f"{tag}_m", f["name"], ms, pts, bad, out)
                    if swallowed:
                        continue
                    argn = f["params"] if margs is None else margs
                    ct = C.coq_case(f"p{k}tr", idx, margs, argn, True, pts, implvals, pyvals)
                    cp = C.coq_case(f"p{k}py", idx, margs, argn, True, pts, implvals, pyvals)
                    cases.append(f"mkSCase ({ct}) ({cp})")
                    cm.append({"fn": f"{f['name']} [name-resolution stage]", "src": (sg.src_fn(h) if h else "") + sg.src_fn(f), "margs": ms, "impl": str(out[1])[:200], "pure": True})
            fname = f"c06_scope_{chunk:02d}"
            files[fname] = (
                scope_corr_header(lib) + "\n".join(defs_txt) + "\nDefinition cases : list scase := [\n  " + ";\n  ".join(cases) + "\n].\n"
                "Eval vm_compute in filter_idx (fun c => negb (trans_ok gen_fnsym_facts (s_t c))) cases.\n"
                "Eval vm_compute in filter_idx (fun c => negb (pysem_ok (s_py c))) cases.\n"
            )
            metas[fname] = cm

            # ---- lambda cases
            lcases, lm_meta, sdefs = [], [], []
            boost_def = f"(mkMFun [1] [] 0 (SCons (SReturn (EBin Mul (ENum {G.cq(lib.c['main.boost'])}) (EVar 1))) SNil))"
            for si, st in enumerate(stmts):
                for lm in st["lams"]:
                    lm["obj"] = eval(lm["path"], vars(lmod))  # noqa: S307 -- our own generated access path
                for li, lm in enumerate(st["lams"]):
                    cov["lambda_objects"] += 1
                    obj = lm["obj"]
                    params = [G.vn(p) for p in lm["params"]]
                    seen = seen_statement(obj, st)
                    for vname, margs in C.variants(rng, lm["params"])[:2]:
                        if st["def"] is not None and margs is not None:
                            margs = None if rng.random() < 0.7 else margs  # the def has another arity: mostly model_args=None
                        ms = None if margs is None else [G.vn(m) for m in margs]
                        syms = sorted(set(params if ms is None else ms))
                        pts = C.make_points(rng, syms, 8)
                        out = C.run_impl(obj, ms)
                        swallowed = C.LAST_NONE_SWALLOWED
                        pyvals, implvals, bad, disc = C.judge(obj, params, ms, pts, out)
                        bump(outcomes, "lambda:" + (out[0] if out[0] != "refused" else "refused:" + str(out[1]).split(":")[0]))
                        run.count_case(("lambda", st["src"], li, ms, float(lib.c["main.K"]), float(lib.c["main.boost"])), nontrivial=len(st["lams"]) > 1 or out[0] == "expr")
                        if disc is not None:
                            bump(cov["discarded"], disc.split(" ")[0])
                            continue
                        if bad:
                            report(
                                f"fn_to_sympy({lm['path']}, model_args={ms}) returned {out[1]} but the lambda `{lm['text']}` has value {bad['python_value']} at {bad['point']} "
                                f"(expression: {bad['expression_value']}); its source statement: {st['src']!r}",
                                {f"{tag}_lam.py": lam_src}, f"{tag}_lam", lm["path"], ms, pts, bad, out)
                        if seen is None:
                            cov["lambda_source_not_parseable (oracle only)"] += 1
                            continue
                        if swallowed:
                            continue
                        walked, own_i, dfn = seen
                        sname = f"st{si}_{li}"
                        if not any(x.startswith(f"Definition {sname} ") for x in sdefs):
                            dtxt = "None" if dfn is None else f"(Some (mkMFun [{'; '.join(str(p) for p in dfn['params'])}] [] 0 (SCons (SReturn {G.g_expr(dfn['body'])}) SNil)))"
                            sdefs.append(f"Definition {sname} : lam_stmt := mkLamStmt {dtxt} [{'; '.join(g_lam(w) for w in walked)}].")
                        argn = lm["params"] if margs is None else margs
                        cpts = "[" + "; ".join("[" + "; ".join(f"({int(k_[1:])}, {G.cq(v)})" for k_, v in sorted(pt.items())) + "]" for pt in pts) + "]"
                        obs = "None" if implvals is None else "(Some [" + "; ".join(G.g_optq(v) for v in implvals) + "])"
                        py = "[" + "; ".join(G.g_optq(v) for v in pyvals) + "]"
                        lcases.append(
                            f"mkLCase [{boost_def}] 0 {sname} {own_i}%nat [{'; '.join(str(x) for x in (margs or []))}] [{'; '.join(str(x) for x in argn)}] env0 {cpts} {obs} {py}"
                        )
                        lm_meta.append({"fn": f"{lm['path']} [lambda stage] `{lm['text']}`", "src": st["src"], "margs": ms, "impl": str(out[1])[:200], "pure": True})
            fname = f"c06_lam_{chunk:02d}"
            files[fname] = (
                "From MxlBase Require Import ListX.\nFrom FnSym Require Import FnToSym ConstEnv Resolve GenFnSymFacts Corr.\nOpen Scope N_scope.\n"
                f"Definition env0 : cenv := [(0, [({K_MAIN}, {G.cq(lib.c['main.K'])})])].\n"
                + "\n".join(sdefs)
                + "\nDefinition cases : list lcase := [\n  " + ";\n  ".join(lcases) + "\n].\n"
                "Eval vm_compute in filter_idx (fun c => negb (lam_trans_ok gen_fnsym_rfacts gen_fnsym_facts c)) cases.\n"
                "Eval vm_compute in filter_idx (fun c => negb (lam_py_ok c)) cases.\n"
            )
            metas[fname] = lm_meta
    finally:
        sys.path.remove(str(d))
        for m in [k for k in sys.modules if k.startswith(tag0)]:
            sys.modules.pop(m, None)
        import shutil

        shutil.rmtree(d, ignore_errors=True)
    del loaded
    return files, metas, cov


def replay_scope(r: dict) -> int:
    """replay of a {"kind": "scope"} record: the module files are written back, the function / lambda (a Python access
    path inside the main module) is translated and judged by the oracle"""
    from harness import c06 as C

    d = common.scratch_dir("c06replay")
    sys.path.insert(0, str(d))
    prefixes = sorted({Path(n).parts[0].split(".")[0] for n in r["modules"]})
    try:
        for name, src in r["modules"].items():
            p = d / name
            p.parent.mkdir(parents=True, exist_ok=True)
            p.write_text(src)
        importlib.invalidate_caches()
        mod = importlib.import_module(r["main_module"])
        fn = eval(r["function"], vars(mod))  # noqa: S307 -- an access path written by this harness
        params = list(fn.__code__.co_varnames[: fn.__code__.co_argcount])
        pts = [{k: Fraction(v) for k, v in pt.items()} for pt in r["points"]]
        out = C.run_impl(fn, r["model_args"])
        _py, _iv, bad, disc = C.judge(fn, params, r["model_args"], pts, out)
        print("fn_to_sympy ->", out[1] if out[0] == "expr" else out)
        print("oracle:", bad or disc or "property holds on this input (expression equals the function wherever it is defined, or translation refused)")
        return 1 if bad else 0
    finally:
        sys.path.remove(str(d))
        for m in [k for k in sys.modules if any(k == p or k.startswith(p + ".") or k.startswith(p + "_") for p in prefixes)]:
            sys.modules.pop(m, None)
        import shutil

        shutil.rmtree(d, ignore_errors=True)
