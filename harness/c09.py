"""C09 -- scans equal independent runs, row-aligned, under any scheduling.

Tie to the source:
  (1) facts regenerated from scan.py / mc.py / parallel.py / simulation.py into
      coq/scan/GenScanFacts.v (does a task work on its own deep copy of the model; shape of the two
      update calls; ordered pool.map with chunksize 1 / sequential map; result containers; shapes of
      Simulation.default and _compute_args; the workers' except/default and placeholder axes) --
      PropsC09.v pins them, so an edit there breaks a proof obligation;
  (2) correspondence: the Gallina model (ScanGeneric.v heap semantics instantiated by ScanModel.v)
      is evaluated inside Coq (vm_compute) on the same models / tables / modes the REAL
      scan.time_course / scan.steady_state / mc.time_course / mc.steady_state ran on, with the
      harness' exact integrator; labels, order, time axes, NaN positions and all values compared
      exactly;
  (3) an independent oracle (pure Python integer arithmetic on the case description; shares nothing
      with the Coq model or with mxlpy) decides the PROPERTY on the implementation's output: every
      row's block equals a separate run with exactly that row, in input order under the input
      labels, failing rows are NaN placeholders of the successful shape;
  (4) a schedule sweep on the real code: the four scans and the Monte-Carlo variants, sequential vs
      parallel with several worker counts vs independent Simulator runs, compared bit for bit (also
      with the default SciPy integrator on benign models).
"""

from __future__ import annotations

import ast
import contextlib
import io
import json
import math
import signal
from pathlib import Path
from typing import Any

from harness import common
from harness.common import Run, clist, cn

AREA = "scan"
PROPS = "PropsC09.v"
SHAPES = json.loads((Path(__file__).parent / "c09_shapes.json").read_text())
LIMIT = 4096
MAXS = 12
EXACT = 2**50

# ---------------------------------------------------------------------------------------
# (1) fact extraction (fail-closed)
# ---------------------------------------------------------------------------------------


def _norm_fn(tree: ast.Module, qual: str) -> str | None:
    node: Any = tree
    for part in qual.split("."):
        node = next(
            (n for n in node.body if isinstance(n, (ast.FunctionDef, ast.ClassDef)) and n.name == part),
            None,
        )
        if node is None:
            return None
    body = [
        s
        for s in node.body
        if not (isinstance(s, ast.Expr) and isinstance(s.value, ast.Constant) and isinstance(s.value.value, str))
    ]
    return "\n".join(ast.unparse(s) for s in body)


_AXIS_UNFIXED = "time_points = np.linspace(0, protocol.index[-1].total_seconds(), len(protocol) * time_points_per_step)"


def extract_facts() -> dict[str, Any]:
    facts: dict[str, Any] = {
        "copies": "false",
        "update_shape": "false",
        "pool_shape": "false",
        "containers": "false",
        "sim_shape": "false",
        "workers_shape": "false",
        "protocol_axis": "PhUnknown",
        "tc_axis": "TcUnknown",
        "ptc_axis": "PtcUnknown",
        "dups": "DupUnknown",
        "view_policy": "ViewUnknown",
        "row_update": "RowUnknown",
        "entry_points": [],
    }
    trees: dict[str, ast.Module] = {}
    try:
        for f in ("scan.py", "mc.py", "parallel.py", "simulation.py"):
            trees[f] = ast.parse((common.REPO / "src/mxlpy" / f).read_text())
    except (OSError, SyntaxError):
        return facts

    def same(key: str) -> bool:
        f, qual = key.split("::")
        return _norm_fn(trees[f], qual) == SHAPES[key]

    # _update_parameters_and_initial_conditions
    upd = _norm_fn(trees["scan.py"], "_update_parameters_and_initial_conditions")
    exp_lines = SHAPES["scan.py::_update_parameters_and_initial_conditions"].splitlines()
    if upd is not None:
        lines = upd.splitlines()
        imports_copy = any(
            isinstance(n, ast.Import) and any(a.name == "copy" and a.asname is None for a in n.names)
            for n in trees["scan.py"].body
        )
        if lines and lines[0] == "model = copy.deepcopy(model)" and imports_copy:
            facts["copies"] = "true"
            lines = lines[1:]
        if lines == exp_lines[1:]:
            facts["update_shape"] = "true"
    # parallel.py
    if same("parallel.py::_load_or_run") and same("parallel.py::parallelise"):
        facts["pool_shape"] = "true"
    # containers and the scan / mc entry points (no timeout passed, keys, raw_index); a dict-keyed entry point
    # may start with the index test `_require_unique_index(<its table>)` (helper of the recorded shape, imported by mc.py)
    helper_ok = (
        _norm_fn(trees["scan.py"], "_require_unique_index") == SHAPES["scan.py::_require_unique_index"]
        and any(
            isinstance(n, ast.ImportFrom) and n.module == "mxlpy.scan" and any(a.name == "_require_unique_index" and a.asname is None for a in n.names)
            for n in trees["mc.py"].body
        )
    )
    entries_ok = True
    checks: dict[str, bool] = {}
    cache_checks: dict[str, bool] = {}
    for f, qual, table, _epn in ENTRY_POINTS:
        body = _norm_fn(trees[f], qual)
        lines = body.splitlines() if body is not None else []
        chk = bool(lines) and lines[0] == f"_require_unique_index({table})" and helper_ok
        if chk:
            lines = lines[1:]
        checks[f"{f}::{qual}"] = chk
        # ... or with the same test only in front of a cached run (the cache files are named after the label)
        cchk = lines[:2] == ["if cache is not None:", f"    _require_unique_index({table})"] and helper_ok
        if cchk:
            lines = lines[2:]
        cache_checks[f"{f}::{qual}"] = cchk
        if "\n".join(lines) != SHAPES[f"{f}::{qual}"]:
            entries_ok = False
    if entries_ok and all(
        same(k)
        for k in SHAPES
        if k.split("::")[1]
        in (
            "_parameter_scan_worker", "SteadyStateScan.variables", "SteadyStateScan.fluxes",
            "TimeCourseScan.variables", "TimeCourseScan.fluxes", "ProtocolScan.variables", "ProtocolScan.fluxes",
        )
    ):
        facts["containers"] = "true"
    dict_keyed = [f"{f}::{q}" for f, q, _t, _n in ENTRY_POINTS if q != "steady_state"]
    if entries_ok and not checks["scan.py::steady_state"] and not checks["mc.py::steady_state"]:
        if all(checks[k] for k in dict_keyed):
            facts["dups"] = "DupRefuse"
        elif not any(checks[k] for k in dict_keyed):
            facts["dups"] = "DupCollapse"
    facts["entry_points"] = [
        _entry_point(trees[f], qual, table, epn, checks[f"{f}::{qual}"], cache_checks[f"{f}::{qual}"]) for f, qual, table, epn in ENTRY_POINTS
    ]
    # simulation.py: Simulation.default / .variables / .fluxes of the recorded shape; _compute_args in one of two accepted
    # forms: it leaves the model at the last segment's parameters (ViewLeaves, the tree before 4167248), or it puts back the
    # parameter values it found (`in_force = self._parameters_in_force()` ... `finally: update_parameters(in_force)`, helper
    # of the recorded shape: ViewRestores).  What a view SHOWS is the same in both forms (theorem C09_view_policy_irrelevant).
    sim_fixed = all(same(k) for k in SHAPES if k.startswith("simulation.py::") and "#" not in k and not k.endswith("._compute_args"))
    ca = _norm_fn(trees["simulation.py"], "Simulation._compute_args")
    helper = _norm_fn(trees["simulation.py"], "Simulation._parameters_in_force")
    if ca == SHAPES["simulation.py::Simulation._compute_args"] and helper is None:
        facts["view_policy"] = "ViewLeaves"
    elif (ca == SHAPES["simulation.py::Simulation._compute_args#restoring"]
          and helper == SHAPES["simulation.py::Simulation._parameters_in_force#restoring"]):
        facts["view_policy"] = "ViewRestores"
    if sim_fixed and facts["view_policy"] != "ViewUnknown":
        facts["sim_shape"] = "true"
    # workers
    pw = _norm_fn(trees["scan.py"], "_protocol_worker")
    exp_pw = SHAPES["scan.py::_protocol_worker"]
    workers_ok = same("scan.py::_steady_state_worker")
    tcw = _norm_fn(trees["scan.py"], "_time_course_worker")
    if tcw == SHAPES["scan.py::_time_course_worker"]:
        facts["tc_axis"] = "TcRequested"
    elif tcw == SHAPES["scan.py::_time_course_worker#with_start"]:
        facts["tc_axis"] = "TcWithStart"
    else:
        workers_ok = False
    ptcw = _norm_fn(trees["scan.py"], "_protocol_time_course_worker")
    if ptcw == SHAPES["scan.py::_protocol_time_course_worker"]:
        facts["ptc_axis"] = "PtcRequested"
    elif ptcw == SHAPES["scan.py::_protocol_time_course_worker#joined"]:
        facts["ptc_axis"] = "PtcJoined"
    else:
        workers_ok = False
    if pw is not None:
        exp_lines_pw = exp_pw.splitlines()
        # expected = 4 lines try/except, 2 axis lines, 1 return
        head, axis_fixed, ret = exp_lines_pw[:4], exp_lines_pw[4:-1], exp_lines_pw[-1:]
        got = pw.splitlines()
        if got[:4] == head and got[-1:] == ret:
            mid = got[4:-1]
            if mid == axis_fixed:
                facts["protocol_axis"] = "PhStepGrid"
            elif mid == [_AXIS_UNFIXED]:
                facts["protocol_axis"] = "PhLinspaceNT"
        else:
            workers_ok = False
    else:
        workers_ok = False
    facts["workers_shape"] = "true" if workers_ok else "false"
    facts["row_update"] = _row_update_policy()
    return facts


def _row_update_policy() -> str:
    """How the two update calls of a scan task treat the model's `_cache` (read structurally from model.py, tolerant of
    validation prefixes and of what the single-item mutators do otherwise):
      RowInvalidatesPerItem  `update_variables` / `update_parameters` are undecorated loops `for k, v in <arg>.items()` whose
                             only `self.<method>` calls are `self.update_variable` / `self.update_parameter`, and those two
                             carry `@_invalidate_cache` (an EMPTY dict leaves the cache alone, any item drops it);
      RowInvalidatesAlways   the two batch mutators carry `@_invalidate_cache` themselves;
    where `_invalidate_cache`'s wrapper executes `self._cache = None` before calling the method.  Anything else: RowUnknown."""
    try:
        tree = ast.parse((common.REPO / "src/mxlpy/model.py").read_text())
    except (OSError, SyntaxError):
        return "RowUnknown"
    deco = next((n for n in tree.body if isinstance(n, ast.FunctionDef) and n.name == "_invalidate_cache"), None)
    model = next((n for n in tree.body if isinstance(n, ast.ClassDef) and n.name == "Model"), None)
    if deco is None or model is None:
        return "RowUnknown"
    wrapper = next((n for n in deco.body if isinstance(n, ast.FunctionDef)), None)
    if wrapper is None or not isinstance(deco.body[-1], ast.Return) or ast.unparse(deco.body[-1].value) != wrapper.name:
        return "RowUnknown"
    wl = [ast.unparse(st) for st in wrapper.body]
    if "self._cache = None" not in wl or not wl[-1].startswith("return method(") or wl.index("self._cache = None") != len(wl) - 2:
        return "RowUnknown"
    if not any(st.startswith("self = ") and "args[0]" in st for st in wl):
        return "RowUnknown"
    meths = {n.name: n for n in model.body if isinstance(n, ast.FunctionDef)}

    def decorated(name: str) -> bool:
        return name in meths and any(isinstance(d, ast.Name) and d.id == "_invalidate_cache" for d in meths[name].decorator_list)

    def loops_over_items(batch: str, single: str, arg: str) -> bool:
        fn = meths.get(batch)
        if fn is None or fn.decorator_list:
            return False
        loops = [n for n in ast.walk(fn) if isinstance(n, ast.For)]  # also inside a try block (a rollback wrapper)
        if len(loops) != 1 or ast.unparse(loops[0].iter) != f"{arg}.items()" or ast.unparse(loops[0].target) != "(k, v)":
            return False
        if any(isinstance(n, (ast.Break, ast.Continue, ast.Return)) for n in ast.walk(loops[0])):
            return False
        # every path through the loop body calls the single-item mutator on k: the body is that call, or an if/else of such calls
        def calls_single(stmts: list) -> bool:
            if len(stmts) != 1:
                return False
            st = stmts[0]
            if isinstance(st, ast.If):
                return calls_single(st.body) and calls_single(st.orelse)
            return (isinstance(st, ast.Expr) and isinstance(st.value, ast.Call) and ast.unparse(st.value.func) == f"self.{single}"
                    and bool(st.value.args) and ast.unparse(st.value.args[0]) == "k")
        if not calls_single(loops[0].body):
            return False
        return isinstance(fn.body[-1], ast.Return)

    if decorated("update_variables") and decorated("update_parameters"):
        return "RowInvalidatesAlways"
    if (decorated("update_variable") and decorated("update_parameter")
            and loops_over_items("update_variables", "update_variable", "variables")
            and loops_over_items("update_parameters", "update_parameter", "parameters")):
        return "RowInvalidatesPerItem"
    return "RowUnknown"


# (file, function, name of its table argument, constructor of ScanModel.ep_name)
ENTRY_POINTS = (
    ("scan.py", "steady_state", "to_scan", "ScanSteadyState"),
    ("scan.py", "time_course", "to_scan", "ScanTimeCourse"),
    ("scan.py", "protocol", "to_scan", "ScanProtocol"),
    ("scan.py", "protocol_time_course", "to_scan", "ScanProtocolTimeCourse"),
    ("mc.py", "steady_state", "mc_to_scan", "McSteadyState"),
    ("mc.py", "time_course", "mc_to_scan", "McTimeCourse"),
    ("mc.py", "protocol", "mc_to_scan", "McProtocol"),
    ("mc.py", "protocol_time_course", "mc_to_scan", "McProtocolTimeCourse"),
    ("mc.py", "scan_steady_state", "mc_to_scan", "McScanSteadyState"),
)
_WORKER_NAMES = {
    "_steady_state_worker": "WkSteadyState", "_time_course_worker": "WkTimeCourse", "_protocol_worker": "WkProtocol",
    "_protocol_time_course_worker": "WkProtocolTimeCourse", "_parameter_scan_worker": "WkParameterScan",
}


def _entry_point(tree: ast.Module, qual: str, table: str, epn: str, checks: bool, cache_checks: bool) -> str:
    """One row of the entry-point table, read structurally from the function's AST (independent of the shape
    comparison): default of `worker`, how `res` ends up in the container, how the pool is chosen, what happens to `y0`.
    Anything unrecognised yields a row that differs from the expected one (fail-closed)."""
    fn = next((n for n in tree.body if isinstance(n, ast.FunctionDef) and n.name == qual), None)
    bad = f"mkEP {epn} WkParameterScan CList ParByFlag true Y0Unknown true"  # no expected row looks like this
    if fn is None:
        return bad
    worker = None
    for a, dflt in zip(fn.args.kwonlyargs, fn.args.kw_defaults):
        if a.arg == "worker" and isinstance(dflt, ast.Name):
            worker = _WORKER_NAMES.get(dflt.id)
    calls = [n for n in ast.walk(fn) if isinstance(n, ast.Call) and isinstance(n.func, ast.Name) and n.func.id == "parallelise"]
    if worker is None or len(calls) != 1:
        return bad
    kws = {k.arg: ast.unparse(k.value) for k in calls[0].keywords}
    if kws.get("inputs") != f"list({table}.iterrows())":
        return bad
    if kws.get("parallel") == "parallel" and "max_workers" not in kws:
        par = "ParByFlag"
    elif kws.get("max_workers") == "max_workers" and "parallel" not in kws:
        par = "ParMaxWorkers"
    else:
        return bad
    src = ast.unparse(fn)
    n_list = src.count("raw_results=[i[1] for i in res]")
    n_dict = src.count("raw_results=dict(res)")
    n_nested = src.count("{k: v.variables.T for k, v in res}") + src.count("{k: v.fluxes.T for k, v in res}")
    if (n_list, n_dict, n_nested) == (1, 0, 0):
        cont = "CList"
    elif (n_list, n_dict, n_nested) == (0, 1, 0):
        cont = "CDict"
    elif (n_list, n_dict, n_nested) == (0, 0, 2):
        cont = "CDictOfScans"
    else:
        return bad
    return f"mkEP {epn} {worker} {cont} {par} {'true' if checks else 'false'} {_y0_policy(fn, calls[0])} {'true' if cache_checks else 'false'}"


def _y0_policy(fn: ast.FunctionDef, call: ast.Call) -> str:
    """How `y0` reaches the rows: `if y0 is not None: model.update_variables(y0)` as a statement of the entry point in front
    of the fan-out and `y0=None` for the worker (Y0IntoModel), or no such statement and `y0=y0` (Y0ToWorker)."""
    stmt_of_call = next((i for i, st in enumerate(fn.body) if any(n is call for n in ast.walk(st))), None)
    if stmt_of_call is None:
        return "Y0Unknown"
    writes = [i for i, st in enumerate(fn.body) if ast.unparse(st) == "if y0 is not None:\n    model.update_variables(y0)"]
    mentions = [
        i for i, st in enumerate(fn.body)
        if i != stmt_of_call and i not in writes and any(isinstance(n, ast.Name) and n.id == "y0" for n in ast.walk(st))
    ]
    # the task function: partial(_update_parameters_and_initial_conditions, fn=partial(worker, ..., y0=<?>), model=model)
    task = call.args[0] if call.args else next((k.value for k in call.keywords if k.arg == "fn"), None)
    inner = None
    if isinstance(task, ast.Call) and ast.unparse(task.func) == "partial":
        inner = next((k.value for k in task.keywords if k.arg == "fn"), None)
    if not (isinstance(inner, ast.Call) and ast.unparse(inner.func) == "partial" and inner.args and ast.unparse(inner.args[0]) == "worker"):
        return "Y0Unknown"
    handed = [ast.unparse(k.value) for k in inner.keywords if k.arg == "y0"]
    if mentions or len(handed) != 1:
        return "Y0Unknown"
    if writes and len(writes) == 1 and writes[0] < stmt_of_call and handed == ["None"]:
        return "Y0IntoModel"
    if not writes and handed == ["y0"]:
        return "Y0ToWorker"
    return "Y0Unknown"


def gen() -> dict[str, Any]:
    f = extract_facts()
    eps = ";\n    ".join(f["entry_points"])
    text = (
        "(* REGENERATED from src/mxlpy/{scan,mc,parallel,simulation}.py by harness/c09.py; do not edit.\n"
        "   An unrecognised shape yields false / *Unknown, which breaks C09_facts_pinned / C09_entry_points_pinned. *)\n"
        "From Coq Require Import List.\nFrom Scan Require Import ScanModel.\nImport ListNotations.\n"
        f"Definition gen_scan_facts : scan_facts := mkScanFacts {f['copies']} {f['update_shape']} {f['pool_shape']} "
        f"{f['containers']} {f['sim_shape']} {f['workers_shape']} {f['protocol_axis']} {f['tc_axis']} {f['ptc_axis']} {f['dups']}.\n"
        f"Definition gen_entry_points : list entry_point :=\n  [ {eps} ].\n"
        f"Definition gen_view_policy : view_policy := {f['view_policy']}.\n"
        f"Definition gen_row_update : row_update := {f['row_update']}.\n"
    )
    common.write_if_changed(common.area_dir(AREA) / "GenScanFacts.v", text)
    return f


# ---------------------------------------------------------------------------------------
# cases
# ---------------------------------------------------------------------------------------
# spec = {"vars": [[name, ["P", v] | ["IA", fid, [args]]]], "pars": [...], "der": [[name, fid, [args]]],
#         "rxn": [[name, fid, [args], [[var, coef]]]]}
# names are ints (N in Coq): 0 = time, 10.. variables, 20.. parameters, 30.. derived, 40.. reactions, 99 = unknown column
# case = {"spec", "kind": "tc"|"ss", "tps": [ints], "cols": [names], "rows": [[ints]], "labels": [ints],
#         "mode": ["seq"] | ["par", workers], "api": "scan"|"mc", optional "y0": [[variable name, int]] = the scan's y0 argument}


def sname(k: int) -> str:
    return "time" if k == 0 else f"n{k:04d}"


def gen_spec(rng, flavour: str) -> dict:
    from harness import c09_fns as F

    nv = rng.randint(1, 2)
    npar = rng.randint(1, 3)
    vars_, pars = [], []
    plain_pool = []
    for i in range(nv):
        vars_.append([10 + i, ["P", rng.randint(-3, 3) if flavour != "guard" else rng.randint(1, 3)]])
        plain_pool.append(10 + i)
    for i in range(npar):
        pars.append([20 + i, ["P", rng.randint(-2, 3)]])
        plain_pool.append(20 + i)
    ia_pool = list(plain_pool)
    # assignment-defined initial value (variable) / parameter: args among plain names and earlier assignments
    if flavour in ("ia", "mixed") or rng.random() < 0.25:
        if rng.random() < 0.4:
            fid = rng.choice([0, 1, 2, 9])
            vars_.append([10 + nv, ["IA", fid, [rng.choice(ia_pool) for _ in range(F.ARITY[fid])]]])
            ia_pool.append(10 + nv)
        for j in range(rng.randint(1, 2)):
            fid = rng.choice([0, 0, 1, 2, 3, 9])
            args = [rng.choice(ia_pool) for _ in range(F.ARITY[fid])]
            if j == 0 and flavour == "ia":
                args[0] = 10  # depends on an initial value: the stale-state shape
            pars.append([20 + npar + j, ["IA", fid, args]])
            ia_pool.append(20 + npar + j)
    var_names = [v[0] for v in vars_]
    par_names = [p[0] for p in pars]
    der = []
    pool = var_names + par_names + ([0] if rng.random() < 0.3 else [])
    for j in range(rng.randint(0, 3)):
        fid = rng.choice([0, 1, 2, 3, 6, 9] if flavour != "blow" else [1, 3, 5])
        args = [rng.choice(pool) for _ in range(F.ARITY[fid])]
        der.append([30 + j, fid, args])
        pool.append(30 + j)
    rxn = []
    for j in range(rng.randint(1, 3)):
        if flavour == "guard" and j == 0:
            fid, args = 7, [rng.choice(par_names), var_names[0]]
        elif flavour == "decay" or (flavour == "mixed" and rng.random() < 0.5):
            # flux = p - x : Euler with unit step reaches the fixed point exactly
            fid, args = 2, [rng.choice(par_names), var_names[j % len(var_names)]]
        elif flavour == "blow":
            fid = rng.choice([3, 5, 8])
            args = [rng.choice(var_names + par_names) for _ in range(F.ARITY[fid])]
            args[0] = var_names[0]
        else:
            fid = rng.choice([0, 1, 2, 3, 4, 9])
            args = [rng.choice(pool) for _ in range(F.ARITY[fid])]
        if flavour == "decay" or (fid == 2 and args[1] in var_names and rng.random() < 0.8):
            st = [[args[1], 1]]
        else:
            tgt = rng.sample(var_names, rng.randint(1, len(var_names)))
            st = [[t, rng.choice([-2, -1, 1, 1, 2])] for t in tgt]
        if flavour == "guard" and j == 0:
            st = [[var_names[0], -1]]
        rxn.append([40 + j, fid, args, st])
    return {"vars": vars_, "pars": pars, "der": der, "rxn": rxn}


def gen_case(rng, thorough: bool) -> dict:
    flavour = rng.choice(["ia", "ia", "mixed", "decay", "blow", "guard", "plain", "mixed"])
    spec = gen_spec(rng, flavour)
    kind = rng.choice(["tc", "tc", "ss"]) if flavour != "decay" else rng.choice(["ss", "ss", "tc"])
    var_names = [v[0] for v in spec["vars"]]
    par_names = [p[0] for p in spec["pars"]]
    ncols = rng.randint(1, 3)
    cand = var_names + par_names
    cols = rng.sample(cand, min(ncols, len(cand)))
    if flavour == "ia" and 10 not in cols:
        cols[0] = 10
    if rng.random() < 0.1:
        cols.append(99)  # a column that names nothing in the model is ignored
    nrows = rng.choice([1, 2, 3, 3, 4, 5] + ([9, 17] if thorough else [7]))
    lo = 1 if flavour == "guard" else -3
    rows = [[rng.randint(lo, 3) for _ in cols] for _ in range(nrows)]
    if flavour == "guard" and rng.random() < 0.3:
        rows[rng.randrange(nrows)][0] = 0  # may make the model unevaluable at t=0 (known finding)
    labels = list(range(nrows))
    r = rng.random()
    if r < 0.2:
        labels = rng.sample(range(100), nrows)
    elif r < 0.26 and nrows >= 2:
        labels[rng.randrange(1, nrows)] = labels[0]  # duplicate index label (known finding for dict containers)
    first = 0 if rng.random() < 0.85 else 1
    tps = [first]
    for _ in range(rng.randint(1, 4)):
        tps.append(tps[-1] + rng.choice([1, 1, 2]))
    return {"spec": spec, "kind": kind, "tps": tps, "cols": cols, "rows": rows, "labels": labels, "flavour": flavour}


def decorate_case(c: dict, rng2) -> dict:
    """Second-round inputs, drawn from their OWN stream so that the case stream above stays what it was:
    (a) a `y0` argument for the scan: 1..all variables (plain or assignment-defined), preferably overlapping the table's
        initial-value columns (the row must win) and the variables initial assignments read (they must see y0);
    (b) for steady-state scans (positional container, values as index): duplicate index labels as pd.concat of two
        tables without ignore_index gives them (0..k-1, 0..n-k-1)."""
    c = dict(c)
    spec = c["spec"]
    var_names = [v[0] for v in spec["vars"]]
    r = rng2.random()
    if r < 0.4:
        col_vars = [k for k in c["cols"] if k in var_names]
        read_by_ia = [a for _n, v in spec["vars"] + spec["pars"] if v[0] == "IA" for a in v[2] if a in var_names]
        pick: list[int] = []
        if col_vars and rng2.random() < 0.7:
            pick.append(rng2.choice(col_vars))
        if read_by_ia and rng2.random() < 0.7:
            pick.append(rng2.choice(read_by_ia))
        for k in var_names:
            if rng2.random() < 0.35:
                pick.append(k)
        if not pick:
            pick.append(rng2.choice(var_names))
        lo = 1 if c["flavour"] == "guard" else -3
        c["y0"] = [[k, rng2.randint(lo, 3)] for k in dict.fromkeys(pick)]
    n = len(c["rows"])
    if c["kind"] == "ss" and n >= 2 and rng2.random() < 0.3:
        k = rng2.randrange(1, n)
        c["labels"] = list(range(k)) + list(range(n - k))
    return c


WARM_KINDS = ("ic", "args", "simulator", "simulated")


def decorate_warm(c: dict, rng3) -> dict:
    """Third-round input dimension, drawn from its OWN stream: the model OBJECT handed to the scan has been inspected or
    simulated since it was built (it carries a ModelCache computed from the base content).  The property does not depend on the
    history of the object: the reference stays a separate run of a FRESH model with the row's values."""
    c = dict(c)
    if rng3.random() < 0.45:
        c["warm"] = rng3.choice(WARM_KINDS)
    return c


def warm_up(model, how: str | None) -> bool:
    """Use the model as one does before scanning; -> whether it now carries a cache.  A model that cannot be evaluated at t=0
    raises here and stays without cache (the Coq model: `warm m = ensure (m, None)`)."""
    if how is None:
        return False
    import numpy as np

    from mxlpy import Simulator

    from harness.c09_integ import ExactEuler

    def go():
        if how == "ic":
            model.get_initial_conditions()
        elif how == "args":
            model.get_args()
        elif how == "simulator":
            Simulator(model, integrator=ExactEuler)
        elif how == "simulated":
            Simulator(model, integrator=ExactEuler).simulate_time_course(np.array([0.0, 1.0])).get_result()
        elif how == "simulated-scipy":
            Simulator(model).simulate(1.0).get_result()
            model.get_initial_conditions()
        else:
            raise ValueError(how)

    try:
        with contextlib.redirect_stderr(io.StringIO()):
            _with_timeout(go, 30)
    except _Timeout:
        raise
    except Exception:  # noqa: BLE001
        pass
    return model._cache is not None  # noqa: SLF001


def build_model(spec: dict, override: dict[int, int] | None = None):
    """The model described by spec; `override` replaces values (a FRESH model with exactly a row's values)."""
    from mxlpy import InitialAssignment, Model

    from harness import c09_fns as F

    ov = override or {}
    m = Model()
    for name, v in spec["vars"]:
        if name in ov:
            m.add_variable(sname(name), float(ov[name]))
        elif v[0] == "P":
            m.add_variable(sname(name), float(v[1]))
        else:
            m.add_variable(sname(name), InitialAssignment(fn=F.FNS[v[1]], args=[sname(a) for a in v[2]]))
    for name, v in spec["pars"]:
        if name in ov:
            m.add_parameter(sname(name), float(ov[name]))
        elif v[0] == "P":
            m.add_parameter(sname(name), float(v[1]))
        else:
            m.add_parameter(sname(name), InitialAssignment(fn=F.FNS[v[1]], args=[sname(a) for a in v[2]]))
    for name, fid, args in spec["der"]:
        m.add_derived(sname(name), fn=F.FNS[fid], args=[sname(a) for a in args])
    for name, fid, args, st in spec["rxn"]:
        m.add_reaction(sname(name), fn=F.FNS[fid], args=[sname(a) for a in args], stoichiometry={sname(k): float(c) for k, c in st})
    return m


def make_table(case: dict):
    import pandas as pd

    return pd.DataFrame(
        [[float(x) for x in r] for r in case["rows"]], columns=[sname(c) for c in case["cols"]], index=list(case["labels"])
    )


# ---------------------------------------------------------------------------------------
# implementation driver
# ---------------------------------------------------------------------------------------


class _Timeout(Exception):
    pass


def _alarm(signum, frame):  # noqa: ANN001, ARG001
    raise _Timeout


def _with_timeout(fn, seconds: float = 60.0):
    signal.signal(signal.SIGALRM, _alarm)
    signal.setitimer(signal.ITIMER_REAL, seconds)
    try:
        return fn()
    finally:
        signal.setitimer(signal.ITIMER_REAL, 0)


def _num(x) -> Any:
    x = float(x)
    if math.isnan(x):
        return "nan"
    if math.isinf(x):
        return "inf"
    fr = common.to_fraction(x)
    return fr.numerator if fr.denominator == 1 else ["frac", fr.numerator, fr.denominator]


def _frame_blocks(df, n_levels_label: int = 1):
    """MultiIndex (n, time) frame -> [(label, [(time, {col: value})])] in frame order."""
    out: list = []
    for idx, row in zip(df.index.tolist(), df.to_numpy().tolist()):
        lab, t = idx[0], idx[1]
        if not out or out[-1][0] != lab:
            out.append((lab, []))
        out[-1][1].append((_num(t), {c: _num(v) for c, v in zip(df.columns.tolist(), row)}))
    return out


def run_scan(case: dict, mode: list, api: str = "scan", integrator: str = "euler") -> dict:
    """Run the real scan; -> {"raises": name} | {"blocks": [(label, [(t, vars{}, flux{})])], "index": [...]}"""
    import numpy as np

    from mxlpy import mc, scan

    from harness.c09_integ import ExactEuler

    integ = ExactEuler if integrator == "euler" else None
    model = build_model(case["spec"])
    try:
        warm_up(model, case.get("warm"))
    except _Timeout:
        return {"raises": "Timeout"}
    tab = make_table(case)
    tps = np.array(case["tps"], dtype=float)
    y0 = {sname(k): float(v) for k, v in case["y0"]} if case.get("y0") is not None else None

    def go():
        if api == "mc":
            kw = {"max_workers": mode[1]} if mode[0] == "par" else {"max_workers": None}
            if case["kind"] == "tc":
                return mc.time_course(model, mc_to_scan=tab, time_points=tps, integrator=integ, y0=y0, **kw)
            return mc.steady_state(model, mc_to_scan=tab, integrator=integ, y0=y0, **kw)
        par = mode[0] == "par"
        if par and mode[1] is not None:
            # scan.* does not expose max_workers: give the pool that size through parallelise's own default
            import multiprocessing

            orig = multiprocessing.cpu_count
            multiprocessing.cpu_count = lambda: mode[1]
            try:
                if case["kind"] == "tc":
                    return scan.time_course(model, to_scan=tab, time_points=tps, parallel=True, integrator=integ, y0=y0)
                return scan.steady_state(model, to_scan=tab, parallel=True, integrator=integ, y0=y0)
            finally:
                multiprocessing.cpu_count = orig
        if case["kind"] == "tc":
            return scan.time_course(model, to_scan=tab, time_points=tps, parallel=par, integrator=integ, y0=y0)
        return scan.steady_state(model, to_scan=tab, parallel=par, integrator=integ, y0=y0)

    try:
        with contextlib.redirect_stderr(io.StringIO()):
            res = _with_timeout(go)
            v, f = _with_timeout(lambda: (res.variables, res.fluxes))
    except _Timeout:
        return {"raises": "Timeout"}
    except ValueError as e:
        if "duplicate index labels" in str(e):
            return {"refused": str(e)[:200]}  # the entry point's visible refusal of the table
        return {"raises": type(e).__name__, "msg": str(e)[:200]}
    except Exception as e:  # noqa: BLE001
        return {"raises": type(e).__name__, "msg": str(e)[:200]}
    if case["kind"] == "tc":
        bv, bf = _frame_blocks(v), _frame_blocks(f)
        blocks = []
        for (lab, rows_v), (lab2, rows_f) in zip(bv, bf, strict=True):
            assert lab == lab2
            blocks.append((int(lab), [(t, dv, df_) for (t, dv), (_t2, df_) in zip(rows_v, rows_f, strict=True)]))
        return {"blocks": blocks, "index": [int(b[0]) for b in blocks]}
    # steady state: one frame row per table row; index = the row's values
    blocks = []
    idx = v.index.tolist()
    for i, (rv, rf) in enumerate(zip(v.to_numpy().tolist(), f.to_numpy().tolist(), strict=True)):
        blocks.append(
            (i, [(0, {c: _num(x) for c, x in zip(v.columns.tolist(), rv)}, {c: _num(x) for c, x in zip(f.columns.tolist(), rf)})])
        )
    return {"blocks": blocks, "index": [list(map(_num, i)) if isinstance(i, tuple) else [_num(i)] for i in idx]}


# ---------------------------------------------------------------------------------------
# (3) independent oracle: integer arithmetic on the case description
# ---------------------------------------------------------------------------------------


class _ZeroDiv(Exception):
    pass


class _Inexact(Exception):
    pass


NAN = "nan"


def _f(fid: int, a: list):
    def chk(x):
        if x != NAN and abs(x) >= EXACT:
            raise _Inexact
        return x

    if fid == 7:
        if a[1] != NAN and a[1] == 0:
            raise _ZeroDiv
        return NAN if NAN in a else a[0]
    if fid == 6:
        return 2
    if NAN in a:
        return NAN
    return chk(
        {0: lambda: a[0], 1: lambda: a[0] + a[1], 2: lambda: a[0] - a[1], 3: lambda: a[0] * a[1],
         4: lambda: a[0] * a[1] + a[2], 5: lambda: a[0] * a[0], 8: lambda: a[2] * a[0] * a[1], 9: lambda: -a[0]}[fid]()
    )


def oracle_row(spec: dict, cols: list[int], row: list[int], kind: str, tps: list[int], y0: list | None = None):
    """What a separate simulation of a fresh model with the scan's y0 (if any) and then exactly this row's values must show.
    -> ("crash",) | ("ok", [(t, env)]) | ("failed", [axis of a successful run])"""
    var_names = [v[0] for v in spec["vars"]]
    par_names = [p[0] for p in spec["pars"]]
    vals = dict(zip(cols, row))
    y0d = {k: v for k, v in (y0 or [])}
    # the content of a fresh model: y0 written first, the row's own values on top
    content = {}
    for name, v in spec["vars"] + spec["pars"]:
        if name in vals:
            content[name] = ["P", vals[name]]
        elif name in y0d and name in var_names:
            content[name] = ["P", y0d[name]]
        else:
            content[name] = v

    def resolve(state: dict | None, t):
        """all component values; state=None -> initial evaluation (initial values from the content)"""
        env = {0: t}
        pending = []
        for name in var_names + par_names:
            c = content[name]
            if c[0] == "P":
                env[name] = c[1]
            else:
                pending.append((name, c[1], c[2]))
        init = dict(env)
        # assignments are evaluated ONCE at t=0 with the initial values
        env0 = dict(init)
        env0[0] = 0
        todo = list(pending)
        while todo:
            progressed = False
            for item in list(todo):
                name, fid, args = item
                if all(a in env0 for a in args):
                    env0[name] = _f(fid, [env0[a] for a in args])
                    todo.remove(item)
                    progressed = True
            if not progressed:
                raise KeyError("unresolvable")
        for name, _fid, _args in pending:
            env[name] = env0[name]
        if state is not None:
            for k, v in state.items():
                env[k] = v
        for name, fid, args in spec["der"]:
            env[name] = _f(fid, [env[a] for a in args])
        for name, fid, args, _st in spec["rxn"]:
            env[name] = _f(fid, [env[a] for a in args])
        return env

    def deriv(env):
        d = {k: 0 for k in var_names}
        for name, _fid, _args, st in spec["rxn"]:
            for k, c in st:
                d[k] += c * env[name]
        return d

    try:
        env = resolve(None, 0)
    except _ZeroDiv:
        return ("crash",)
    state = {k: env[k] for k in var_names}
    if kind == "tc":
        axis = list(tps) if tps[0] == 0 else [0, *tps]
        out = [(0, env)]
        t = 0
        try:
            for t1 in axis[1:]:
                d = deriv(resolve(state, t))
                state = {k: state[k] + (t1 - t) * d[k] for k in var_names}
                t = t1
                if any(abs(v) > LIMIT for v in state.values()):
                    return ("failed", axis)
                out.append((t, None))
                out[-1] = (t, dict(state))
        except _ZeroDiv:
            return ("failed", axis)
        # values shown at each point
        try:
            return ("ok", [(0, resolve({k: env[k] for k in var_names}, 0))] + [(t, resolve(s, t)) for t, s in out[1:]])
        except _ZeroDiv:
            return ("viewcrash",)
    # steady state
    t = 0
    try:
        for _ in range(MAXS):
            d = deriv(resolve(state, t))
            new = {k: state[k] + d[k] for k in var_names}
            t += 1
            if any(abs(v) > LIMIT for v in new.values()):
                return ("failed", [0])
            if new == state:
                try:
                    return ("ok", [(0, resolve(new, t))])
                except _ZeroDiv:
                    return ("viewcrash",)
            state = new
    except _ZeroDiv:
        return ("failed", [0])
    return ("failed", [0])


_ACTIVE: set[str] | None = None


def active_findings() -> set[str]:
    """ids of the findings currently RECORDED for C09 (known_findings.json): only those excuse a shape"""
    global _ACTIVE  # noqa: PLW0603
    if _ACTIVE is None:
        _ACTIVE = {f["id"] for f in common.load_known_findings("C09")}
    return _ACTIVE


def judge(case: dict, got: dict) -> tuple[str | None, str | None]:
    """(violation text | None, known-finding id | None) for one scan result."""
    spec, cols, kind, tps = case["spec"], case["cols"], case["kind"], case["tps"]
    exp = [oracle_row(spec, cols, r, kind, tps, case.get("y0")) for r in case["rows"]]
    var_names = {sname(v[0]) for v in spec["vars"]}
    labels = case["labels"]
    dup = len(set(labels)) != len(labels)
    if "refused" in got:
        # a visible refusal is right exactly for dict-keyed scans of a table with equal labels
        if kind == "tc" and dup:
            return None, None
        return f"the scan refused the table ({got['refused']}) although its index labels are pairwise different or not used as keys", None
    if any(e[0] in ("crash", "viewcrash") for e in exp):
        if "raises" in got and got["raises"] == "ZeroDivisionError":
            if any(e[0] == "crash" for e in exp) and "zerodiv-at-t0-crashes-scan" not in active_findings():
                return "a row whose model cannot be evaluated at t=0 makes the whole scan raise ZeroDivisionError", None
            return None, "zerodiv-at-t0-crashes-scan" if any(e[0] == "crash" for e in exp) else None
        if "raises" in got:
            return f"scan raised {got['raises']}: {got.get('msg', '')}", None
        return None, None  # the scan coped although a fresh run cannot even be set up
    if "raises" in got:
        return f"scan raised {got['raises']}: {got.get('msg', '')} although every row can be simulated or fails cleanly", None
    blocks = got["blocks"]
    if kind == "tc" and dup:
        # dict-keyed container: rows with equal labels collapse; nothing else is judged
        if len(blocks) != len(labels):
            if "duplicate-index-labels" in active_findings():
                return None, "duplicate-index-labels"
            return f"{len(blocks)} result blocks for {len(labels)} rows: rows with equal index labels {labels} were silently lost", None
        return None, None
    if len(blocks) != len(case["rows"]):
        return f"{len(blocks)} result blocks for {len(case['rows'])} rows", None
    known = None
    for i, ((lab, rows_got), e) in enumerate(zip(blocks, exp)):
        want_lab = labels[i] if kind == "tc" else i
        if lab != want_lab:
            return f"block {i} is reported under label {lab}, the input row has label {want_lab}", None
        if kind == "ss":
            want_idx = [v for c, v in zip(cols, case["rows"][i])]
            if got["index"][i] != want_idx:
                return f"row {i}: reported under index {got['index'][i]}, the input row is {want_idx}", None
        if e[0] == "failed":
            axis = e[1]
            times = [t for t, _, _ in rows_got]
            for t, dv, _df in rows_got:
                bad = [c for c in dv if c in var_names and dv[c] != "nan"]
                if bad:
                    return f"row {i} fails but its block is not a NaN placeholder: {bad} at t={t}", None
            if kind == "tc" and times != axis:
                if tps[0] != 0 and times == list(tps) and "tc-placeholder-misses-t0" in active_findings():
                    known = "tc-placeholder-misses-t0"
                else:
                    return f"row {i} fails: placeholder time axis {times}, a successful run has {axis}", None
            continue
        want = e[1]
        if kind == "tc" and [t for t, _, _ in rows_got] != [t for t, _ in want]:
            return f"row {i}: time axis {[t for t, _, _ in rows_got]}, a separate run gives {[t for t, _ in want]}", None
        for (t, dv, df_), (_tw, env) in zip(rows_got, want):
            for c, v in list(dv.items()) + list(df_.items()):
                k = 0 if c == "time" else int(c[1:])
                if env.get(k) != v:
                    return (
                        f"row {i} (label {lab if kind == 'tc' else labels[i]}) t={t}: {c} = {v}, a separate simulation of a fresh model with "
                        f"{'y0 ' + str(case['y0']) + ' and ' if case.get('y0') else ''}this row's values gives {env.get(k)}"
                        + (f" (the model handed to the scan had been used before: {case['warm']})" if case.get("warm") else ""),
                        None,
                    )
    return None, known


# ---------------------------------------------------------------------------------------
# (2) correspondence
# ---------------------------------------------------------------------------------------


def zc(n: int) -> str:
    return f"({int(n)})" if n < 0 else str(int(n))


def coq_valia(v) -> str:
    return f"Plain {zc(v[1])}" if v[0] == "P" else f"IA {cn(v[1])} {clist(map(cn, v[2]))}"


def coq_mdl(spec: dict) -> str:
    vs = clist(f"({cn(n)}, {coq_valia(v)})" for n, v in spec["vars"])
    ps = clist(f"({cn(n)}, {coq_valia(v)})" for n, v in spec["pars"])
    ds = clist(f"mkC {cn(n)} {cn(f)} {clist(map(cn, a))}" for n, f, a in spec["der"])
    rs = clist(
        f"mkR {cn(n)} {cn(f)} {clist(map(cn, a))} {clist('(' + cn(k) + ', ' + zc(c) + ')' for k, c in st)}"
        for n, f, a, st in spec["rxn"]
    )
    return f"(mkM {vs} {ps} {ds} {rs})"


def coq_val(x) -> str:
    if x == "nan":
        return "NaN"
    if isinstance(x, int):
        return f"(Num {zc(x)})"
    raise ValueError(f"not an integer value: {x!r}")


def coq_obs(case: dict, got: dict) -> str:
    if "refused" in got:
        return "ObsRefuse"
    if "raises" in got:
        return "ObsRaise"
    spec = case["spec"]
    items = []
    for lab, rows in got["blocks"]:
        rr = []
        for t, dv, df_ in rows:
            rr.append(f"({zc(t)}, {clist(coq_val(v) for v in dv.values())}, {clist(coq_val(v) for v in df_.values())})")
        label = lab if case["kind"] == "tc" else case["labels"][lab]
        items.append(f"({zc(label)}, {clist(rr)})")
    _ = spec
    return f"(ObsOk {clist(items)})"


def coq_mode(mode: list, n: int, rng) -> str:
    if mode[0] == "seq":
        return "Seq"
    w = mode[1] or 16
    order = list(range(n))
    rng.shuffle(order)
    sched = clist(f"({i}%nat, {rng.randrange(w)}%nat)" for i in order)
    return f"(Par {w}%nat {sched})"


def coq_case(case: dict, mode: list, got: dict, rng, api: str = "scan") -> str:
    w = f"(WTimeCourse {clist(map(zc, case['tps']))})" if case["kind"] == "tc" else "WSteady"
    rows = clist(
        f"({zc(lab)}, {clist('(' + cn(c) + ', ' + zc(v) + ')' for c, v in zip(case['cols'], r))})"
        for lab, r in zip(case["labels"], case["rows"])
    )
    ep = {("scan", "ss"): "ScanSteadyState", ("scan", "tc"): "ScanTimeCourse", ("mc", "ss"): "McSteadyState", ("mc", "tc"): "McTimeCourse"}[
        (api, case["kind"])
    ]
    y0 = "None" if case.get("y0") is None else "(Some " + clist(f"({cn(k)}, {zc(v)})" for k, v in case["y0"]) + ")"
    warm = "true" if case.get("warm") else "false"
    return f"mkCase {coq_mdl(case['spec'])} {w} {coq_mode(mode, len(case['rows']), rng)} {rows} {coq_obs(case, got)} {ep} {y0} {warm}"


def corr_file(cases: list[str]) -> str:
    body = ";\n  ".join(cases)
    return (
        "From Coq Require Import List ZArith NArith.\nFrom Scan Require Import ScanGeneric ScanModel ScanY0 ScanWarm GenScanFacts ScanCorr.\n"
        "Import ListNotations.\nOpen Scope Z_scope.\n"
        "Definition cases : list case := [\n  " + body + "\n].\n"
        "Eval vm_compute in mismatches3 gen_scan_facts gen_entry_points gen_row_update gen_view_policy cases.\n"
    )


def order_is_declaration_order(spec: dict) -> bool:
    """the model's simplification: the sorter returns the declaration order"""
    m = build_model(spec)
    try:
        order = m._create_cache().order  # noqa: SLF001
    except ZeroDivisionError:
        return True
    except Exception:  # noqa: BLE001
        return False
    ia_v = [sname(n) for n, v in spec["vars"] if v[0] == "IA"]
    ia_p = [sname(n) for n, v in spec["pars"] if v[0] == "IA"]
    return order == ia_v + ia_p + [sname(d[0]) for d in spec["der"]] + [sname(r[0]) for r in spec["rxn"]]


def exact_ok(got: dict) -> bool:
    if "raises" in got or "refused" in got:
        return True
    for _lab, rows in got["blocks"]:
        for t, dv, df_ in rows:
            for v in [t, *dv.values(), *df_.values()]:
                if v != "nan" and (not isinstance(v, int) or abs(v) >= EXACT):
                    return False
    return True


# ---------------------------------------------------------------------------------------
# (4) schedule sweep with protocol scans / nested MC / SciPy, bit for bit
# ---------------------------------------------------------------------------------------


def _bits(df) -> list:
    import numpy as np

    a = np.ascontiguousarray(df.to_numpy(dtype=float))
    return [df.index.tolist().__repr__(), df.columns.tolist(), a.view(np.uint64).tolist() if a.size else []]


def sweep_model(stale: bool):
    """x' = k*p - x (linear, benign); p is assignment-defined from the initial value of x when `stale`."""
    from mxlpy import InitialAssignment, Model

    from harness import c09_fns as F

    m = Model()
    m.add_variable("x", 1.0)
    m.add_variable("y", 0.0)
    m.add_parameter("k", 1.0)
    m.add_parameter("q", 1.0)
    if stale:
        m.add_parameter("p", InitialAssignment(fn=F.g_id, args=["x"]))
    else:
        m.add_parameter("p", 2.0)
    m.add_derived("kp", fn=F.g_mul, args=["k", "p"])
    m.add_reaction("v_in", fn=F.g_mul, args=["kp", "q"], stoichiometry={"x": 1.0})
    m.add_reaction("v_out", fn=F.g_id, args=["x"], stoichiometry={"x": -1.0, "y": 1.0})
    m.add_reaction("v_y", fn=F.g_id, args=["y"], stoichiometry={"y": -1.0})
    return m


def sweep_run(kind: str, stale: bool, tab_spec: dict, mode: list, integrator: str, warm: str | None = None) -> dict:
    """One real scan of `kind`; returns the bit patterns of .variables / .fluxes (or the exception).
    `warm`: the model object is used (simulated / inspected) before it is handed to the scan."""
    import multiprocessing

    import numpy as np
    import pandas as pd

    from mxlpy import make_protocol, mc, scan

    from harness.c09_integ import ExactEuler

    integ = ExactEuler if integrator == "euler" else None
    tab = pd.DataFrame(tab_spec["data"], index=tab_spec.get("index"))
    model = sweep_model(stale)
    try:
        warm_up(model, warm)
    except _Timeout:
        return {"raises": "Timeout"}
    proto = make_protocol([(2.0, {"q": 1.0}), (2.0, {"q": 2.0})])
    tps = np.array([0.0, 1.0, 2.0, 3.0])
    par = mode[0] == "par"
    orig = multiprocessing.cpu_count
    if par and mode[1] is not None:
        multiprocessing.cpu_count = lambda: mode[1]
    try:

        def go():
            if kind == "steady_state":
                return scan.steady_state(model, to_scan=tab, parallel=par, integrator=integ)
            if kind == "time_course":
                return scan.time_course(model, to_scan=tab, time_points=tps, parallel=par, integrator=integ)
            if kind == "protocol":
                return scan.protocol(model, to_scan=tab, protocol=proto, time_points_per_step=2, parallel=par, integrator=integ)
            if kind == "protocol_time_course":
                return scan.protocol_time_course(
                    model, to_scan=tab, protocol=proto, time_points=np.array([0.0, 1.0, 2.0, 3.0, 4.0]), parallel=par, integrator=integ
                )
            mw = mode[1] if par else 1
            if kind == "mc.steady_state":
                return mc.steady_state(model, mc_to_scan=tab, max_workers=mw, integrator=integ)
            if kind == "mc.time_course":
                return mc.time_course(model, mc_to_scan=tab, time_points=tps, max_workers=mw, integrator=integ)
            if kind == "mc.protocol":
                return mc.protocol(model, mc_to_scan=tab, protocol=proto, time_points_per_step=2, max_workers=mw, integrator=integ)
            if kind == "mc.scan_steady_state":
                inner = pd.DataFrame({"k": [1.0, 2.0, 3.0]}, index=tab_spec.get("inner_index"))
                return mc.scan_steady_state(model, to_scan=inner, mc_to_scan=tab, max_workers=mw, integrator=integ)
            raise ValueError(kind)

        with contextlib.redirect_stderr(io.StringIO()):
            res = _with_timeout(go, 120)
            v, f = _with_timeout(lambda: (res.variables, res.fluxes), 120)
        return {"variables": _bits(v), "fluxes": _bits(f)}
    except _Timeout:
        return {"raises": "Timeout"}
    except Exception as e:  # noqa: BLE001
        return {"raises": type(e).__name__ + ": " + str(e)[:150]}
    finally:
        multiprocessing.cpu_count = orig


def sweep_independent(kind: str, stale: bool, tab_spec: dict, integrator: str) -> list:
    """Per row: a separate Simulator run on a FRESH model with exactly that row's values."""
    import numpy as np
    import pandas as pd

    from mxlpy import Simulator, make_protocol

    from harness.c09_integ import ExactEuler

    integ = ExactEuler if integrator == "euler" else None
    tab = pd.DataFrame(tab_spec["data"], index=tab_spec.get("index"))
    proto = make_protocol([(2.0, {"q": 1.0}), (2.0, {"q": 2.0})])
    tps = np.array([0.0, 1.0, 2.0, 3.0])
    out = []

    def one(vals: dict):
        m = sweep_model(stale)
        m.update_variables({k: v for k, v in vals.items() if k in ("x", "y")})
        m.update_parameters({k: v for k, v in vals.items() if k in ("k", "q", "p")})
        s = Simulator(m, integrator=integ)
        if kind.endswith("steady_state"):
            s.simulate_to_steady_state()
        elif kind.endswith("protocol_time_course"):
            s.simulate_protocol_time_course(proto, time_points=np.array([0.0, 1.0, 2.0, 3.0, 4.0]))
        elif kind.endswith("protocol"):
            s.simulate_protocol(proto, time_points_per_step=2)
        else:
            s.simulate_time_course(tps)
        r = s.get_result().unwrap_or_err()
        return r.variables, r.fluxes

    for _lab, row in tab.iterrows():
        vals = {k: float(v) for k, v in row.to_dict().items()}
        if kind == "mc.scan_steady_state":
            for kv in (1.0, 2.0, 3.0):
                v, f = _with_timeout(lambda kv=kv: one(vals | {"k": kv}), 120)
                out.append((_bits(v.iloc[[-1]])[2], _bits(f.iloc[[-1]])[2]))
        else:
            v, f = _with_timeout(lambda: one(vals), 120)
            if kind.endswith("steady_state"):
                v, f = v.iloc[[-1]], f.iloc[[-1]]
            out.append((_bits(v)[2], _bits(f)[2]))
    return out


def sweep_compare(kind: str, got: dict, indep: list) -> str | None:
    """the scan's frames, cut into per-row blocks, against the independent runs (bit patterns)"""
    if "raises" in got:
        return f"raised {got['raises']}"
    for what, j in (("variables", 0), ("fluxes", 1)):
        flat = got[what][2]
        pos = 0
        for i, blk in enumerate(indep):
            n = len(blk[j])
            if flat[pos : pos + n] != blk[j]:
                return f"{what} of row {i} differ from a separate simulation of a fresh model with that row's values"
            pos += n
        if pos != len(flat):
            return f"{what}: {len(flat)} result rows, independent runs give {pos}"
    return None


# ---------------------------------------------------------------------------------------
# known findings
# ---------------------------------------------------------------------------------------

KNOWN_IDS = ("zerodiv-at-t0-crashes-scan", "duplicate-index-labels", "tc-placeholder-misses-t0", "cached-duplicate-labels")


def replay_known(f: dict) -> bool:
    """True if the recorded finding still shows on the implementation."""
    w = f["witness"]
    if w.get("kind") == "cached-dups":
        got = _cached_scan_run(w["entry"], w["labels"], cached=True)
        _viol, known = _cached_judge(w["entry"], w["labels"], True, got)
        return known == f["id"]
    case = w["case"]
    got = run_scan(case, w["mode"])
    _viol, known = judge(case, got)
    return known == f["id"]


# ---------------------------------------------------------------------------------------
# the check
# ---------------------------------------------------------------------------------------

STALE_WITNESS = {
    "spec": {"vars": [[10, ["P", 1]]], "pars": [[20, ["P", 1]], [21, ["IA", 0, [10]]]], "der": [],
             "rxn": [[40, 3, [21, 20], [[10, -1]]]]},
    "kind": "tc", "tps": [0, 1], "cols": [10], "rows": [[1], [2], [3]], "labels": [0, 1, 2], "flavour": "ia",
}


_SQ_SPEC = {"vars": [[10, ["P", 0]]], "pars": [[20, ["P", 1]]], "der": [], "rxn": [[40, 5, [10], [[10, 1]]]]}
# a failing row next to a successful one, time points not starting at 0 (placeholder axis vs successful axis)
TC_T0_WITNESS = {"spec": _SQ_SPEC, "kind": "tc", "tps": [1, 2], "cols": [10], "rows": [[0], [100]], "labels": [0, 1], "flavour": "blow"}
TC_T0_WITNESS2 = {"spec": _SQ_SPEC, "kind": "tc", "tps": [2, 3, 5], "cols": [10], "rows": [[100], [0], [1]], "labels": [4, 2, 9], "flavour": "blow"}
# equal index labels (dict-keyed containers: silent row loss vs visible refusal)
DUP_WITNESS = {"spec": _SQ_SPEC, "kind": "tc", "tps": [0, 1], "cols": [10], "rows": [[0], [1], [0]], "labels": [5, 7, 5], "flavour": "plain"}


# second round (seeded changes C09-4, C09-6): y0 together with a table column for the same variable / with a parameter assigned from
# the initial value; steady-state tables with duplicate index labels
_CAP_SPEC = {"vars": [[10, ["P", 10]]], "pars": [[20, ["P", 1]], [21, ["IA", 0, [10]]]], "der": [], "rxn": [[40, 3, [21, 20], [[10, -1]]]]}
Y0_OVERLAP_WITNESS = {"spec": _CAP_SPEC, "kind": "tc", "tps": [0, 1], "cols": [10], "rows": [[1], [2], [4]], "labels": [0, 1, 2],
                      "flavour": "ia", "y0": [[10, 5]]}
Y0_IA_WITNESS = {"spec": _CAP_SPEC, "kind": "tc", "tps": [0, 1], "cols": [20], "rows": [[1], [2], [3]], "labels": [0, 1, 2],
                 "flavour": "ia", "y0": [[10, 5]]}
_FOLLOW_SPEC = {"vars": [[10, ["P", 7]]], "pars": [[20, ["P", 1]], [21, ["IA", 0, [10]]]], "der": [], "rxn": [[40, 2, [21, 10], [[10, 1]]]]}
Y0_SS_WITNESS = {"spec": _FOLLOW_SPEC, "kind": "ss", "tps": [0, 1], "cols": [20], "rows": [[1], [2], [3]], "labels": [0, 1, 2],
                 "flavour": "decay", "y0": [[10, 2]]}
_DECAY_SPEC = {"vars": [[10, ["P", 0]]], "pars": [[20, ["P", 1]]], "der": [], "rxn": [[40, 2, [20, 10], [[10, 1]]]]}
SS_DUP_WITNESS = {"spec": _DECAY_SPEC, "kind": "ss", "tps": [0, 1], "cols": [20], "rows": [[1], [2], [3], [4], [5]],
                  "labels": [0, 1, 2, 0, 1], "flavour": "decay"}


# third round (seeded change C09-8): a model object that was used before the scan (warm cache), a table over initial values only,
# something computed from the initial values (stale-assignment model: trajectory; follow model: steady state; an assigned
# initial value of a second variable)
WARM_TC_WITNESS = STALE_WITNESS | {"warm": "ic"}
WARM_SS_WITNESS = {"spec": _FOLLOW_SPEC, "kind": "ss", "tps": [0, 1], "cols": [10], "rows": [[1], [2], [3]], "labels": [0, 1, 2],
                   "flavour": "decay", "warm": "simulated"}
_IAVAR_SPEC = {"vars": [[10, ["P", 1]], [11, ["IA", 0, [10]]]], "pars": [[20, ["P", 1]]], "der": [],
               "rxn": [[40, 3, [11, 20], [[10, -1]]]]}
WARM_IAVAR_WITNESS = {"spec": _IAVAR_SPEC, "kind": "tc", "tps": [0, 1, 2], "cols": [10], "rows": [[3], [2], [1]], "labels": [7, 3, 5],
                      "flavour": "ia", "warm": "simulator"}
# ... the same object with a y0 argument (update_variables drops the cache) and with a parameter column next to the initial value
WARM_Y0_WITNESS = Y0_OVERLAP_WITNESS | {"warm": "args"}
WARM_PAR_WITNESS = {"spec": _CAP_SPEC, "kind": "tc", "tps": [0, 1], "cols": [10, 20], "rows": [[1, 2], [2, 1], [4, 3]], "labels": [0, 1, 2],
                    "flavour": "ia", "warm": "simulated"}


def check(run: Run) -> None:
    thorough = run.tier == "thorough"
    facts = gen()
    run.coverage["gen_facts"] = facts
    run.rule = (
        "random small models (1-3 variables incl. assignment-defined initial values, 1-5 parameters incl. "
        "assignment-defined ones reading initial values, derived quantities, 1-3 reactions; flavours: stale-assignment, "
        "exact decay to a fixed point, polynomial blow-up (integration failure), division guard (ZeroDivisionError during "
        "the run or at t=0), plain) x scan tables with 1-3 columns (parameters and initial values, sometimes an unknown "
        "column), 1-17 rows, default or custom labels x {scan, mc}.{time_course, steady_state} x sequential / parallel "
        "with 1,2,3,16 workers, run with the exact Euler integrator; a case is non-trivial if it has >= 2 rows and at "
        "least one row succeeds; distinct by content.  Plus a bit-for-bit schedule sweep of all four scans and the MC "
        "variants (incl. nested scan_steady_state) against independent Simulator runs, with the exact integrator and SciPy.  "
        "Plus: the protocol-time-course worker on 7-11 (step durations, requested points) combinations (successful vs failing run, "
        "axis against an independent oracle and against the model), and every dict-keyed entry point (scan/mc time_course, protocol, "
        "protocol_time_course, mc.scan_steady_state) on a table with equal index labels (all rows or a visible refusal).  "
        "Second round (own random stream): 40% of the cases carry a y0 argument (1..all variables, preferably one that is also a table "
        "column and one that an initial assignment reads; reference = fresh model, y0 written, then the row's values), 30% of the "
        "steady-state cases with >= 2 rows get duplicate index labels as pd.concat gives them (positional alignment required); "
        "steady-state scans (scan seq / one-process pool, mc) with a result cache over tables with equal and with different labels, "
        "once and twice over the same directory, against x = k; parallelise with a cache on 12 key lists with repetitions against the "
        "cache model; the bit-for-bit sweep also runs the three steady-state entry points on tables with duplicate labels "
        "(for mc.scan_steady_state the inner table)."
    )
    proofs_ok = run.check_proofs(AREA, PROPS)
    run.assumptions += [
        "Coq 8.16.1 kernel + vm_compute; theorems closed under the global context (no axioms)",
        "fact extractor harness/c09.py::extract_facts (normalised-AST shapes of the anchored functions incl. the two accepted forms of the "
        "time-course / protocol-time-course workers and of the index test, plus the structurally read entry-point table; fail-closed; "
        "harness/c09_shapes.json)",
        "coq/scan/ExpectedFacts.v is a hand-edited switch (expected form of the placeholder axes and of the duplicate-label handling), kept "
        "consistent with known_findings.d/C09.json by tools/c09_switch.py; the harness excuses a finding's shape only while it is recorded",
        "pandas Index.join(how='outer') / numpy.union1d (sorted, duplicate-free join of step ends and requested points) enter the "
        "protocol-time-course axis theorem as a hypothesis (a sorted list); the in-Coq correspondence recomputes the join itself",
        "modelled, not verified: pebble.ProcessPool.map (every task pickled separately = deep copy of the model; results "
        "handed out in input order whatever the completion order), copy.deepcopy, pandas containers (dict / list / concat), "
        "Model evaluation reduced to environment resolution in declaration order (checked per case), the integrator "
        "(harness' exact Euler for the correspondence; SciPy only in the bit-for-bit sweep)",
        "OS scheduling is not modelled: the theorems say the result is the same for EVERY completion order and worker "
        "assignment once each task has its own copy",
        "correspondence harness: literal printer, frame canonicaliser, coqc output parser; oracle: pure-Python integer evaluator",
        "y0: the entry point's policy (written into the model before the fan-out / handed to the worker) is read structurally from the AST "
        "into the entry-point table; Model.update_variables(y0) is modelled as the fold of single updates (names of variables only); "
        "`Simulator(model, y0=...)` with a completed vector is modelled for the hand-over shape only",
        "result cache: parallel.py::_load_or_run as a pure store keyed by the row label (shape pinned, sequential behaviour compared with the "
        "real parallelise on key lists with repetitions); the file system, pickling of results and the timing of concurrent look-ups are "
        "not modelled -- C09_cache_any_interleaving quantifies over every set of results already on disk instead (C19 covers the files)",
    ]

    rng = common.rng_for(run.seed, "c09")
    n_cases = 735 if thorough else 200
    par_budget = 220 if thorough else 45
    cases: list[tuple[dict, list, str]] = []
    # corpus first: the stale-assignment witness in every mode
    for mode in (["seq"], ["par", 2], ["par", 1]):
        cases.append((STALE_WITNESS, mode, "scan"))
    for wit in (TC_T0_WITNESS, TC_T0_WITNESS2, DUP_WITNESS, Y0_OVERLAP_WITNESS, Y0_IA_WITNESS, Y0_SS_WITNESS, SS_DUP_WITNESS):
        for mode, api in ((["seq"], "scan"), (["par", 2], "scan"), (["par", 3], "mc")):
            cases.append((wit, mode, api))
    for wit in (WARM_TC_WITNESS, WARM_SS_WITNESS, WARM_IAVAR_WITNESS, WARM_Y0_WITNESS, WARM_PAR_WITNESS):
        for mode, api in ((["seq"], "scan"), (["par", 2], "scan"), (["par", 3], "mc")):
            cases.append((wit, mode, api))
    rng2 = common.rng_for(run.seed, "c09-round2")
    rng3 = common.rng_for(run.seed, "c09-round3")
    discarded = {"order": 0, "inexact": 0}
    tries = 0
    while len(cases) < n_cases and tries < 5 * n_cases:
        tries += 1
        c = gen_case(rng, thorough)
        if not order_is_declaration_order(c["spec"]):
            discarded["order"] += 1
            continue
        c = decorate_case(c, rng2)
        c = decorate_warm(c, rng3)
        modes: list[tuple[list, str]] = [(["seq"], "scan")]
        if par_budget > 0 and rng.random() < 0.45:
            par_budget -= 1
            w = rng.choice([1, 2, 3, 16])
            modes.append((["par", w], rng.choice(["scan", "mc"])))
        for mode, api in modes:
            cases.append((c, mode, api))

    dist: dict[str, int] = {}
    coq_cases: list[str] = []
    case_of: list[int] = []
    n_viol = 0
    n_viol_by: dict[str, int] = {}
    known_seen: dict[str, int] = {}
    results: list[dict] = []
    for idx, (c, mode, api) in enumerate(cases):
        got = run_scan(c, mode, api)
        results.append(got)
        key = f"{c['kind']}/{c['flavour']}/{mode[0]}{mode[1] if len(mode) > 1 else ''}/{api}"
        dist[key] = dist.get(key, 0) + 1
        if c.get("y0") is not None:
            y0_names = {k for k, _v in c["y0"]}
            ia_reads = {a for _n, v in c["spec"]["vars"] + c["spec"]["pars"] if v[0] == "IA" for a in v[2]}
            for tag, hit in (("y0", True), ("y0:overlaps-column", bool(y0_names & set(c["cols"]))), ("y0:read-by-assignment", bool(y0_names & ia_reads))):
                if hit:
                    dist[tag] = dist.get(tag, 0) + 1
        if c["kind"] == "ss" and len(set(c["labels"])) != len(c["labels"]):
            dist["ss:duplicate-labels"] = dist.get("ss:duplicate-labels", 0) + 1
        if c.get("warm"):
            vnames = {v[0] for v in c["spec"]["vars"]}
            pnames = {q[0] for q in c["spec"]["pars"]}
            reads_var = any(v[0] == "IA" and set(v[2]) & vnames for _n, v in c["spec"]["vars"] + c["spec"]["pars"])
            only_vars = bool(set(c["cols"]) & vnames) and not set(c["cols"]) & pnames
            for tag, hit in (("warm", True), ("warm:" + c["warm"], True), ("warm:initial-value-columns-only", only_vars),
                             ("warm:initial-value-columns-only+assignment-reads-variable+no-y0", only_vars and reads_var and c.get("y0") is None)):
                if hit:
                    dist[tag] = dist.get(tag, 0) + 1
        try:
            exp_kinds = [oracle_row(c["spec"], c["cols"], r, c["kind"], c["tps"], c.get("y0"))[0] for r in c["rows"]]
            viol, known = judge(c, got)
        except _Inexact:
            discarded["inexact"] += 1
            continue
        for k in exp_kinds:
            dist["row:" + k] = dist.get("row:" + k, 0) + 1
        run.count_case((c, mode, api), nontrivial=len(c["rows"]) >= 2 and "ok" in exp_kinds)
        if known:
            known_seen[known] = known_seen.get(known, 0) + 1
        vkey = "axis" if viol and "placeholder time axis" in viol else "dups" if viol and "silently lost" in viol else "other"
        if viol and n_viol_by.get(vkey, 0) < 2 and n_viol < 6:
            n_viol += 1
            n_viol_by[vkey] = n_viol_by.get(vkey, 0) + 1
            run.violation(f"{api}.{'time_course' if c['kind'] == 'tc' else 'steady_state'} {mode}: {viol}",
                          {"kind": "scan-case", "case": c, "mode": mode, "api": api, "observed": got})
        if not exact_ok(got):
            discarded["inexact"] += 1
            continue
        try:
            coq_cases.append(coq_case(c, mode, got, rng, api))
            case_of.append(idx)
        except ValueError:
            discarded["inexact"] += 1
    run.sample({"case": cases[3][0], "mode": cases[3][1], "observed": results[3]} if len(cases) > 3 else {})
    run.coverage["input_distribution"] = dist | {"discarded": discarded, "known_finding_shapes_met": known_seen}

    # correspondence inside Coq
    files = {f"c09_{k:03d}": corr_file(chunk) for k, chunk in enumerate(common.chunks(coq_cases, 60))}
    res = common.coq_eval_many(AREA, files, timeout_s=600)
    mism = 0
    for k, nm in enumerate(sorted(files)):
        ok, out = res[nm]
        lists = common.parse_eval_list(out) if ok else None
        if not ok or not lists:
            run.broken_correspondence.append(f"correspondence shard {nm} did not evaluate: {out[-300:]}")
            continue
        for j in lists[-1]:
            mism += 1
            ci = case_of[k * 60 + j]
            c, mode, api = cases[ci]
            if len(run.broken_correspondence) < 4:
                run.broken_correspondence.append(
                    f"model/implementation disagree on case #{ci} {api} {mode}: {json.dumps(c)} impl={json.dumps(results[ci])[:600]}"
                )
    run.coverage["traces_validated_against_impl"] = len(coq_cases) - mism
    run.coverage["correspondence_mismatches"] = mism

    # protocol worker: placeholder axis length vs successful axis length, model vs real code
    _protocol_axes(run, thorough)

    # protocol-time-course worker: placeholder axis vs successful axis, real code vs model vs property
    _ptc_axes(run, thorough)

    # every dict-keyed entry point on a table with equal index labels: all rows, or a visible refusal
    _dup_entry_points(run)

    # result cache keyed by row label: steady-state scans with duplicate labels and a cache; the pure cache model vs parallelise
    _cached_scans(run, rng2)

    # schedule sweep, bit for bit
    _sweep(run, thorough, rng)

    # known findings
    for f in common.load_known_findings("C09"):
        try:
            if replay_known(f):
                run.known(f["id"], f["what_fails"])
        except Exception as e:  # noqa: BLE001
            run.note(f"known finding {f.get('id')} could not be replayed: {type(e).__name__}: {e}")
    if not proofs_ok:
        run.note("proof obligations broken; the generated cases and the schedule sweep were searched for a concrete failing input")


def _protocol_axes(run: Run, thorough: bool) -> None:
    """Real _protocol_worker: a failing run's placeholder must have the shape of a successful run."""
    import numpy as np

    from mxlpy import Model, make_protocol
    from mxlpy.scan import _protocol_worker

    from harness import c09_fns as F
    from harness.c09_integ import ExactEuler

    combos = [(n, t) for n in (1, 2, 3) for t in (1, 2, 4)] + ([(5, 3), (4, 8)] if thorough else [])
    lens = []
    for n, tpps in combos:
        proto = make_protocol([(float(2 * tpps), {"q": float(i)}) for i in range(n)])

        def mk(x0: float):
            m = Model()
            m.add_variable("x", x0)
            m.add_parameter("q", 1.0)
            m.add_reaction("v", fn=F.g_sq, args=["x"], stoichiometry={"x": 1.0})
            return m

        ok = _with_timeout(lambda: _protocol_worker(mk(0.0), proto, integrator=ExactEuler, y0=None, time_points_per_step=tpps))
        bad = _with_timeout(lambda: _protocol_worker(mk(100.0), proto, integrator=ExactEuler, y0=None, time_points_per_step=tpps))
        vo, vb = ok.variables, bad.variables
        run.count_case(("protocol-axis", n, tpps))
        if not bool(np.isnan(vb.to_numpy()).all()) or bool(np.isnan(vo.to_numpy()).any()):
            run.violation("protocol worker: expected one clean and one NaN result", {"kind": "protocol-axis", "n": n, "tpps": tpps})
            continue
        lens.append((n, tpps, len(vo), len(vb)))
        if vo.index.tolist() != vb.index.tolist():
            run.violation(
                f"protocol scan: a failing row's NaN placeholder has time axis of length {len(vb)} "
                f"({vb.index.tolist()[:6]}...), a successful row has {len(vo)} ({vo.index.tolist()[:6]}...) "
                f"[{n} protocol steps, {tpps} points per step]",
                {"kind": "protocol-axis", "n": n, "tpps": tpps},
            )
    text = (
        "From Coq Require Import List.\nFrom Scan Require Import ScanModel GenScanFacts ScanCorr.\nImport ListNotations.\n"
        "Definition obs : list (nat * nat * nat * nat) := "
        + clist(f"({n}, {t}, {a}, {b})" for n, t, a, b in lens)
        + "%nat.\n"
        "Eval vm_compute in filter_idx (fun o => match o with (n, t, a, b) => negb (Nat.eqb (axis_len_success n t) a && "
        "Nat.eqb (axis_len_placeholder gen_scan_facts n t) b) end) obs.\n"
    )
    text = text.replace("From Scan Require", "From MxlBase Require Import ListX.\nFrom Scan Require", 1)
    res = common.coq_eval_many(AREA, {"c09_axes": text}, timeout_s=300)
    ok, out = res["c09_axes"]
    lists = common.parse_eval_list(out) if ok else None
    if not ok or lists is None or not lists:
        run.broken_correspondence.append(f"protocol axis shard did not evaluate: {out[-300:]}")
    elif lists[-1]:
        run.broken_correspondence.append(f"protocol axis lengths: model and implementation disagree on {[lens[j] for j in lists[-1]]}")
    run.coverage["protocol_axis_lengths"] = lens


DUP_ENTRY_POINTS = ("scan.time_course", "scan.protocol", "scan.protocol_time_course", "mc.time_course", "mc.protocol",
                    "mc.protocol_time_course", "mc.scan_steady_state")


def _dup_entry_point_run(name: str) -> dict:
    """`name` on a table labelled 0, 1, 0 -> {"refused": msg} | {"blocks": n, "rows": 3} | {"raises": ...}"""
    import numpy as np
    import pandas as pd

    from mxlpy import Model, make_protocol, mc, scan

    from harness import c09_fns as F
    from harness.c09_integ import ExactEuler

    m = Model()
    m.add_variable("x", 0.0)
    m.add_parameter("q", 1.0)
    m.add_parameter("k", 1.0)
    m.add_reaction("v", fn=F.g_sub, args=["k", "x"], stoichiometry={"x": 1.0})
    tab = pd.DataFrame({"k": [1.0, 2.0, 3.0]}, index=[0, 1, 0])
    proto = make_protocol([(1.0, {"q": 1.0})])
    tps = np.array([0.0, 1.0])
    kw = {"integrator": ExactEuler}
    runs = {
        "scan.time_course": lambda: scan.time_course(m, to_scan=tab, time_points=tps, parallel=False, **kw),
        "scan.protocol": lambda: scan.protocol(m, to_scan=tab, protocol=proto, time_points_per_step=1, parallel=False, **kw),
        "scan.protocol_time_course": lambda: scan.protocol_time_course(m, to_scan=tab, protocol=proto, time_points=tps, parallel=False, **kw),
        "mc.time_course": lambda: mc.time_course(m, mc_to_scan=tab, time_points=tps, max_workers=2, **kw),
        "mc.protocol": lambda: mc.protocol(m, mc_to_scan=tab, protocol=proto, time_points_per_step=1, max_workers=2, **kw),
        "mc.protocol_time_course": lambda: mc.protocol_time_course(m, mc_to_scan=tab, protocol=proto, time_points=tps, max_workers=2, **kw),
        "mc.scan_steady_state": lambda: mc.scan_steady_state(m, to_scan=pd.DataFrame({"q": [1.0]}), mc_to_scan=tab, max_workers=2, **kw),
    }
    try:
        with contextlib.redirect_stderr(io.StringIO()):
            v = _with_timeout(lambda: runs[name]().variables, 120)
    except _Timeout:
        return {"raises": "Timeout"}
    except ValueError as e:
        if "duplicate index labels" in str(e):
            return {"refused": str(e)[:160]}
        return {"raises": f"ValueError: {e}"[:200]}
    except Exception as e:  # noqa: BLE001
        return {"raises": f"{type(e).__name__}: {e}"[:200]}
    blocks = len(v) if name == "mc.scan_steady_state" else len(v.groupby(level=0, sort=False))
    return {"blocks": int(blocks), "rows": 3}


def _dup_judge(name: str, got: dict) -> tuple[str | None, str | None]:
    if "refused" in got:
        return None, None
    if "raises" in got:
        return f"{name} on a table with equal index labels raised {got['raises']}", None
    if got["blocks"] != got["rows"]:
        if "duplicate-index-labels" in active_findings():
            return None, "duplicate-index-labels"
        return f"{name}: {got['blocks']} result blocks for {got['rows']} rows labelled 0, 1, 0: rows were silently lost", None
    return None, None


def _dup_entry_points(run: Run) -> None:
    outcome = {}
    for name in DUP_ENTRY_POINTS:
        got = _dup_entry_point_run(name)
        run.count_case(("dup-entry", name), nontrivial=True)
        viol, known = _dup_judge(name, got)
        outcome[name] = "refused" if "refused" in got else ("known-finding" if known else ("violation" if viol else "all rows"))
        if viol:
            run.violation(viol, {"kind": "dup-entry", "entry": name})
    run.coverage["duplicate_label_entry_points"] = outcome


PTC_COMBOS = [
    # (step durations, requested time points)
    ([2, 2], [1, 3, 5]),        # first point later than 0, last beyond the protocol
    ([2, 2], [0, 1, 4]),        # starts at 0, misses the step end 2
    ([2, 2], [0, 2, 4]),        # exactly the step ends
    ([3], [1, 2]),              # one step, ends before the protocol does
    ([1, 2, 3], [2, 4, 5, 6]),
    ([2, 1], [0, 1, 2, 3]),     # the requested points ARE the axis of a successful run
    ([4], [0, 4]),
]
PTC_COMBOS_THOROUGH = [([1, 1, 1, 1], [0, 3]), ([5, 2], [6, 7, 8, 9]), ([2, 3], [1, 2, 3, 4, 5]), ([1], [0, 1])]


def _ptc_worker_axes(durs: list[int], tps: list[int]) -> tuple[list, list]:
    """time axes of a successful and of a failing run of the real _protocol_time_course_worker"""
    import numpy as np

    from mxlpy import Model, make_protocol
    from mxlpy.scan import _protocol_time_course_worker

    from harness import c09_fns as F
    from harness.c09_integ import ExactEuler

    proto = make_protocol([(float(d), {"q": float(i)}) for i, d in enumerate(durs)])

    def mk(x0: float):
        m = Model()
        m.add_variable("x", x0)
        m.add_parameter("q", 1.0)
        m.add_reaction("v", fn=F.g_sq, args=["x"], stoichiometry={"x": 1.0})
        return m

    with contextlib.redirect_stderr(io.StringIO()):
        ok = _with_timeout(lambda: _protocol_time_course_worker(mk(0.0), proto, np.array(tps, dtype=float), integrator=ExactEuler, y0=None))
        bad = _with_timeout(lambda: _protocol_time_course_worker(mk(100.0), proto, np.array(tps, dtype=float), integrator=ExactEuler, y0=None))
        vo, vb = ok.variables, bad.variables
    if bool(np.isnan(vo.to_numpy()).any()) or not bool(np.isnan(vb.to_numpy()).all()):
        raise RuntimeError("expected one clean and one NaN result")
    return [_num(t) for t in vo.index.tolist()], [_num(t) for t in vb.index.tolist()]


def _ptc_expected_axis(durs: list[int], tps: list[int]) -> list[int]:
    """independent oracle: t=0, then every step end and every requested point in (0, end of protocol], ascending"""
    ends, t = [], 0
    for d in durs:
        t += d
        ends.append(t)
    return [0, *sorted({p for p in [*ends, *tps] if 0 < p <= ends[-1]})]


def _ptc_judge(durs: list[int], tps: list[int], ax_ok: list, ax_bad: list) -> tuple[str | None, str | None]:
    want = _ptc_expected_axis(durs, tps)
    if ax_ok != want:
        return f"protocol-time-course run over steps {durs} with points {tps}: time axis {ax_ok}, expected {want}", None
    if ax_bad != want:
        if ax_bad == list(tps) and "tc-placeholder-misses-t0" in active_findings():
            return None, "tc-placeholder-misses-t0"
        return (
            f"protocol-time-course scan, steps {durs}, points {tps}: a failing row's NaN placeholder has time axis {ax_bad}, "
            f"a successful row has {ax_ok}",
            None,
        )
    return None, None


def _ptc_axes(run: Run, thorough: bool) -> None:
    combos = PTC_COMBOS + (PTC_COMBOS_THOROUGH if thorough else [])
    obs = []
    met = 0
    for durs, tps in combos:
        try:
            ax_ok, ax_bad = _ptc_worker_axes(durs, tps)
        except Exception as e:  # noqa: BLE001
            run.violation(f"protocol-time-course worker, steps {durs}, points {tps}: {type(e).__name__}: {e}",
                          {"kind": "ptc-axis", "durs": durs, "tps": tps})
            continue
        run.count_case(("ptc-axis", tuple(durs), tuple(tps)), nontrivial=True)
        viol, known = _ptc_judge(durs, tps, ax_ok, ax_bad)
        if viol:
            run.violation(viol, {"kind": "ptc-axis", "durs": durs, "tps": tps})
        met += known is not None
        if all(isinstance(t, int) for t in ax_ok + ax_bad):
            obs.append((durs, tps, ax_ok, ax_bad))
    zl = lambda l: clist(map(zc, l))  # noqa: E731
    ends_of = lambda durs: [sum(durs[: i + 1]) for i in range(len(durs))]  # noqa: E731
    text = (
        "From Coq Require Import List ZArith.\nFrom MxlBase Require Import ListX.\n"
        "From Scan Require Import ScanModel GenScanFacts ScanCorr.\nImport ListNotations.\nOpen Scope Z_scope.\n"
        "Definition obs : list (list Z * list Z * list Z * list Z) := "
        + clist(f"({zl(ends_of(d))}, {zl(t)}, {zl(a)}, {zl(b)})" for d, t, a, b in obs)
        + ".\n"
        "Eval vm_compute in filter_idx (fun o => match o with (ends, tps, a, b) => "
        "negb (zlist_eqb (fst (ptc_axes gen_scan_facts ends tps)) a && zlist_eqb (snd (ptc_axes gen_scan_facts ends tps)) b) end) obs.\n"
    )
    res = common.coq_eval_many(AREA, {"c09_ptc": text}, timeout_s=300)
    ok, out = res["c09_ptc"]
    lists = common.parse_eval_list(out) if ok else None
    if not ok or lists is None or not lists:
        run.broken_correspondence.append(f"protocol-time-course axis shard did not evaluate: {out[-300:]}")
    elif lists[-1]:
        run.broken_correspondence.append(
            f"protocol-time-course axes: model and implementation disagree on {[obs[j] for j in lists[-1]]}"
        )
    run.coverage["ptc_axis_cases"] = len(obs)
    run.coverage["ptc_axis_known_finding_shapes_met"] = met


CACHED_ENTRIES = ("scan.steady_state seq", "scan.steady_state par1", "mc.steady_state par1")
CACHED_LABELS = ([0, 1, 2, 0, 1], [3, 3, 3], [4, 2, 9, 7, 5])


def _cached_scan_run(entry: str, labels: list[int], cached: bool, twice: bool = False) -> dict:
    """x' = k - x scanned over k = 1..n under the given row labels, with a fresh cache directory (or none);
    -> {"x": [...]} | {"refused": msg} | {"raises": ...}.  One worker process at most: deterministic."""
    import multiprocessing
    import shutil

    import pandas as pd

    from mxlpy import Model, mc, scan
    from mxlpy.parallel import Cache

    from harness import c09_fns as F
    from harness.c09_integ import ExactEuler

    def mk():
        m = Model()
        m.add_variable("x", 0.0)
        m.add_parameter("k", 1.0)
        m.add_reaction("v", fn=F.g_sub, args=["k", "x"], stoichiometry={"x": 1.0})
        return m

    tab = pd.DataFrame({"k": [float(i + 1) for i in range(len(labels))]}, index=list(labels))
    d = common.scratch_dir("c09cache")
    shutil.rmtree(d, ignore_errors=True)
    cache = Cache(tmp_dir=d) if cached else None
    orig = multiprocessing.cpu_count
    multiprocessing.cpu_count = lambda: 1

    def go():
        if entry == "scan.steady_state seq":
            return scan.steady_state(mk(), to_scan=tab, parallel=False, cache=cache, integrator=ExactEuler)
        if entry == "scan.steady_state par1":
            return scan.steady_state(mk(), to_scan=tab, parallel=True, cache=cache, integrator=ExactEuler)
        if entry == "mc.steady_state par1":
            return mc.steady_state(mk(), mc_to_scan=tab, max_workers=1, cache=cache, integrator=ExactEuler)
        raise ValueError(entry)

    try:
        with contextlib.redirect_stderr(io.StringIO()):
            res = _with_timeout(go, 120)
            if twice:  # a second run over the same directory: everything comes from disk
                res = _with_timeout(go, 120)
            xs = _with_timeout(lambda: res.variables["x"].tolist(), 120)
        return {"x": [_num(v) for v in xs]}
    except _Timeout:
        return {"raises": "Timeout"}
    except ValueError as e:
        if "duplicate index labels" in str(e):
            return {"refused": str(e)[:160]}
        return {"raises": f"ValueError: {e}"[:200]}
    except Exception as e:  # noqa: BLE001
        return {"raises": f"{type(e).__name__}: {e}"[:200]}
    finally:
        multiprocessing.cpu_count = orig
        shutil.rmtree(d, ignore_errors=True)


def _cached_judge(entry: str, labels: list[int], cached: bool, got: dict) -> tuple[str | None, str | None]:
    """independent oracle: the steady state of x' = k - x is x = k, so line i must show i + 1 -- with or without a cache"""
    dup = len(set(labels)) != len(labels)
    if "refused" in got:
        if cached and dup:
            return None, None  # the visible refusal of a table whose labels cannot name the cache files
        return f"{entry}: table with labels {labels} refused ({got['refused']}) although {'no cache is used' if not cached else 'the labels are pairwise different'}", None
    if "raises" in got:
        return f"{entry} with labels {labels}{' and a cache' if cached else ''} raised {got['raises']}", None
    want = [i + 1 for i in range(len(labels))]
    if got["x"] != want:
        if cached and dup and "cached-duplicate-labels" in active_findings():
            return None, "cached-duplicate-labels"
        return (
            f"{entry} over k = {want} under the row labels {labels}{' with a result cache' if cached else ''}: steady states x = {got['x']}, "
            f"separate runs give {want}" + (" (rows with equal labels share one cache file)" if cached and dup else ""),
            None,
        )
    return None, None


def _c09_cache_fn(x: int) -> int:
    return x * x + 1


def _cached_scans(run: Run, rng2) -> None:
    import shutil

    from mxlpy.parallel import Cache, parallelise

    outcome: dict[str, str] = {}
    n_viol = 0
    for entry in CACHED_ENTRIES:
        for labels in CACHED_LABELS:
            for cached, twice in ((True, False), (True, True), (False, False)):
                got = _cached_scan_run(entry, labels, cached, twice)
                run.count_case(("cached-scan", entry, tuple(labels), cached, twice), nontrivial=True)
                viol, known = _cached_judge(entry, labels, cached, got)
                outcome[f"{entry} {labels} cache={cached}{' x2' if twice else ''}"] = (
                    "refused" if "refused" in got else "known-finding" if known else "violation" if viol else "as independent runs"
                )
                if viol and n_viol < 3:
                    n_viol += 1
                    run.violation(viol, {"kind": "cached-scan", "entry": entry, "labels": labels, "cached": cached, "twice": twice})
    run.coverage["cached_scans"] = outcome
    # the pure cache model against the real parallelise (sequential, fresh directory, integer keys with repetitions)
    obs = []
    for _ in range(12):
        n = rng2.randint(1, 7)
        keys = [rng2.randint(0, 3) for _ in range(n)] if rng2.random() < 0.7 else rng2.sample(range(10), n)
        inputs = [(k, rng2.randint(-9, 9)) for k in keys]
        d = common.scratch_dir("c09cache")
        shutil.rmtree(d, ignore_errors=True)
        try:
            with contextlib.redirect_stderr(io.StringIO()):
                res = parallelise(_c09_cache_fn, inputs, cache=Cache(tmp_dir=d), parallel=False, disable_tqdm=True)
        except Exception as e:  # noqa: BLE001
            run.broken_correspondence.append(f"parallelise with a cache raised on {inputs}: {type(e).__name__}: {e}")
            continue
        finally:
            shutil.rmtree(d, ignore_errors=True)
        run.count_case(("cache-corr", tuple(inputs)))
        obs.append((inputs, [(int(k), int(v)) for k, v in res]))
    zp = lambda l: clist(f"({zc(a)}, {zc(b)})" for a, b in l)  # noqa: E731
    text = (
        "From Coq Require Import List ZArith.\nFrom Scan Require Import ScanY0 ScanCorr.\nImport ListNotations.\nOpen Scope Z_scope.\n"
        "Definition obs : list (list (Z * Z) * list (Z * Z)) := " + clist(f"({zp(i)}, {zp(o)})" for i, o in obs) + ".\n"
        "Eval vm_compute in cache_mismatches obs.\n"
    )
    res = common.coq_eval_many(AREA, {"c09_cache": text}, timeout_s=300)
    ok, out = res["c09_cache"]
    lists = common.parse_eval_list(out) if ok else None
    if not ok or lists is None or not lists:
        run.broken_correspondence.append(f"cache shard did not evaluate: {out[-300:]}")
    elif lists[-1]:
        run.broken_correspondence.append(f"result cache: model and parallelise disagree on {[obs[j] for j in lists[-1]]}")
    run.coverage["cache_model_cases"] = len(obs)


def _sweep(run: Run, thorough: bool, rng) -> None:
    kinds = ["steady_state", "time_course", "protocol", "protocol_time_course", "mc.steady_state", "mc.time_course",
             "mc.protocol", "mc.scan_steady_state"]
    tables = [
        {"data": {"x": [1.0, 2.0, 3.0]}},
        {"data": {"k": [1.0, 2.0, 3.0], "x": [3.0, 2.0, 1.0]}},
    ]
    if thorough:
        tables += [
            {"data": {"k": [float(1 + i % 4) for i in range(17)], "x": [float(1 + i % 3) for i in range(17)], "q": [1.0 + (i % 2) for i in range(17)]}},
            {"data": {"x": [2.0]}},
            {"data": {"p": [1.0, 3.0], "y": [1.0, 2.0]}},
        ]
    # steady-state scans are positional: tables glued with pd.concat (duplicate index labels) are legal; for the nested MC scan
    # the INNER table carries the duplicates (its outer container is keyed by label and tested)
    dup_tables = {
        "steady_state": {"data": {"k": [1.0, 2.0, 3.0, 3.0, 1.0], "x": [1.0, 2.0, 3.0, 1.0, 2.0]}, "index": [0, 1, 2, 0, 1]},
        "mc.steady_state": {"data": {"x": [1.0, 2.0, 3.0, 4.0]}, "index": [7, 7, 7, 7]},
        "mc.scan_steady_state": {"data": {"x": [1.0, 2.0]}, "inner_index": [0, 1, 0]},
    }
    n = 0
    n_warm = 0
    viol = 0
    for kind in kinds:
        for ti, tab in enumerate(tables + ([dup_tables[kind]] if kind in dup_tables else [])):
            is_dup = ti >= len(tables)
            for stale in (True, False) if (thorough or ti == 0) else (True,):
                for integ in ("euler", "scipy") if (thorough or kind in ("time_course", "steady_state")) and (ti <= 1 or is_dup) else ("euler",):
                    try:
                        indep = sweep_independent(kind, stale, tab, integ)
                    except Exception as e:  # noqa: BLE001
                        run.note(f"sweep: independent run failed for {kind}: {type(e).__name__}: {e}")
                        continue
                    if kind.startswith("mc."):
                        modes = [["par", 1], ["par", 3]] + ([["par", 2], ["par", 16]] if thorough else [])
                    else:
                        modes = [["seq"], ["par", 2]] + ([["par", 1], ["par", 3], ["par", 16]] if thorough else [])
                    # third round: the same scan with a model object that was used before (warm cache); tables over the initial
                    # value only (ti == 0) on the model whose parameter is assigned from it are the shape of seeded change C09-8
                    warms: list[str | None] = [None]
                    if stale and not is_dup and (ti == 0 or thorough):
                        warms.append("simulated-scipy" if integ == "scipy" else "simulated")
                    for mode in modes:
                        for warm in warms:
                            got = sweep_run(kind, stale, tab, mode, integ, warm)
                            n += 1
                            n_warm += warm is not None
                            run.count_case(("sweep", kind, ti, stale, integ, tuple(mode), warm))
                            bad = sweep_compare(kind, got, indep)
                            if bad and viol < 3:
                                viol += 1
                                run.violation(
                                    f"{kind} {mode} integrator={integ}{' on a model that was simulated before the scan' if warm else ''}: {bad}",
                                    {"kind": "sweep", "scan": kind, "stale_model": stale, "table": tab, "mode": mode, "integrator": integ,
                                     "warm": warm},
                                )
    run.coverage["schedule_sweep_runs"] = n
    run.coverage["schedule_sweep_runs_on_a_used_model"] = n_warm


def replay(rep: dict) -> int:
    common.quiet_impl_logging()
    r = rep["replay"]
    k = r.get("kind")
    if k == "scan-case":
        got = run_scan(r["case"], r["mode"], r.get("api", "scan"))
        viol, known = judge(r["case"], got)
        print("observed:", json.dumps(got)[:1500])
        print("oracle:", viol or ("known finding " + known if known else "property holds on this input"))
        return 1 if viol else 0
    if k == "sweep":
        indep = sweep_independent(r["scan"], r["stale_model"], r["table"], r["integrator"])
        got = sweep_run(r["scan"], r["stale_model"], r["table"], r["mode"], r["integrator"], r.get("warm"))
        bad = sweep_compare(r["scan"], got, indep)
        print("oracle:", bad or "property holds on this input")
        return 1 if bad else 0
    if k == "cached-scan":
        got = _cached_scan_run(r["entry"], r["labels"], r["cached"], r.get("twice", False))
        viol, known = _cached_judge(r["entry"], r["labels"], r["cached"], got)
        print("observed:", got)
        print("oracle:", viol or ("known finding " + known if known else "property holds on this input"))
        return 1 if viol else 0
    if k == "dup-entry":
        got = _dup_entry_point_run(r["entry"])
        viol, known = _dup_judge(r["entry"], got)
        print("observed:", got)
        print("oracle:", viol or ("known finding " + known if known else "property holds on this input"))
        return 1 if viol else 0
    if k == "ptc-axis":
        try:
            ax_ok, ax_bad = _ptc_worker_axes(r["durs"], r["tps"])
        except Exception as e:  # noqa: BLE001
            print("oracle:", type(e).__name__, e)
            return 1
        viol, known = _ptc_judge(r["durs"], r["tps"], ax_ok, ax_bad)
        print("observed: successful axis", ax_ok, "placeholder axis", ax_bad)
        print("oracle:", viol or ("known finding " + known if known else "property holds on this input"))
        return 1 if viol else 0
    if k == "protocol-axis":
        run = Run("C09", "replay", 0)
        _protocol_axes_single(run, r["n"], r["tpps"])
        for v in run.violations:
            print("oracle:", v.what)
        return 1 if run.violations else 0
    print("nothing to replay: ", rep.get("what"))
    return 1


def _protocol_axes_single(run: Run, n: int, tpps: int) -> None:
    from mxlpy import Model, make_protocol
    from mxlpy.scan import _protocol_worker

    from harness import c09_fns as F
    from harness.c09_integ import ExactEuler

    proto = make_protocol([(float(2 * tpps), {"q": float(i)}) for i in range(n)])

    def mk(x0: float):
        m = Model()
        m.add_variable("x", x0)
        m.add_parameter("q", 1.0)
        m.add_reaction("v", fn=F.g_sq, args=["x"], stoichiometry={"x": 1.0})
        return m

    ok = _protocol_worker(mk(0.0), proto, integrator=ExactEuler, y0=None, time_points_per_step=tpps)
    bad = _protocol_worker(mk(100.0), proto, integrator=ExactEuler, y0=None, time_points_per_step=tpps)
    if ok.variables.index.tolist() != bad.variables.index.tolist():
        run.violation(
            f"protocol scan: NaN placeholder has {len(bad.variables)} rows, a successful run {len(ok.variables)}",
            {"kind": "protocol-axis", "n": n, "tpps": tpps},
        )
