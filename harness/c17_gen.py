"""C17 helper: generator of abstract SBML documents (see harness/c17_sbml.py for the format)."""

from __future__ import annotations

import keyword
from fractions import Fraction

PLAIN_IDS = ["A", "B", "C", "D", "G", "X1", "X2", "s_1", "glc", "atp"]
PAR_IDS = ["k1", "k2", "k3", "vmax", "Km", "n_h", "alpha", "kf", "kr", "p0"]
AWKWARD_IDS = [
    "lambda", "def", "class", "None", "True", "if", "in", "is", "not", "E", "I", "pi", "S", "N", "Q", "O", "_x", "__y",
    "x_", "A_1", "gamma", "beta", "Symbol", "exp", "log", "sin", "sqrt", "print", "list", "id", "type", "t", "e", "oo",
    "nan", "inf", "im", "re", "zoo", "Float", "Piecewise", "init", "init_", "stoich", "_stoich_", "float", "self",
    "return", "import", "mxlpy", "fn", "args", "lambda_x", "v1_stoich", "init_q9", "amount", "conc",
]  # fmt: skip
COMP_IDS = ["c", "cyt", "ext", "V_c"]
FN_IDS = ["f", "g", "mm", "hill2", "MA"]
RXN_IDS = ["v1", "v2", "v3", "J0", "r_in", "r_out"]

DYADIC_SIZES = [(1, 2), (2, 1), (4, 1), (8, 1), (1, 1)]
SMALL = [(1, 2), (1, 1), (3, 2), (2, 1), (3, 1), (4, 1), (5, 1), (1, 4)]
STOICH = [(1, 1), (1, 1), (2, 1), (1, 2), (3, 1)]
STATE_VALUES = [Fraction(1, 2), Fraction(1), Fraction(3, 2), Fraction(2), Fraction(3), Fraction(4), Fraction(0), Fraction(5, 4)]


def num(p: int, q: int = 1) -> list:
    return ["num", p, q]


def sym(s: str) -> list:
    return ["sym", s]


def gen_expr(rng, leaves: list[str], depth: int, flavour: str, fns: list[dict], div_ok: list[str]) -> list:  # noqa: ANN001, PLR0911
    """A random expression over `leaves`; `flavour` in {"poly","pw","transc"}; `div_ok`: symbols that are
    safe exact denominators (constant compartments: powers of two)."""
    if depth <= 0 or rng.random() < 0.22:
        if leaves and rng.random() < 0.8:
            return sym(rng.choice(leaves))
        return num(*rng.choice(SMALL))
    r = rng.random()
    sub = lambda: gen_expr(rng, leaves, depth - 1, flavour, fns, div_ok)  # noqa: E731
    if r < 0.22:
        return ["add", sub(), sub()]
    if r < 0.36:
        return ["sub", sub(), sub()]
    if r < 0.62:
        return ["mul", sub(), sub()]
    if r < 0.67:
        return ["neg", sub()]
    if r < 0.73:
        return ["pow", sub(), rng.choice([2, 2, 3])]
    if r < 0.79:
        den = sym(rng.choice(div_ok)) if div_ok and rng.random() < 0.5 else num(rng.choice([2, 4, 8]))
        return ["div", sub(), den]
    if r < 0.88 and fns:
        f = rng.choice(fns)
        return ["call", f["id"], [sub() for _ in f["args"]]]
    if r < 0.94 and flavour in ("pw", "transc"):
        cond = lambda: gen_expr(rng, leaves, min(depth - 1, 1), "poly", fns, div_ok)  # noqa: E731
        return ["pw", sub(), [rng.choice(["lt", "le", "gt", "ge"]), cond(), cond()], sub()]
    if flavour == "transc":
        k = rng.choice(["exp", "ln", "sin", "cos", "sqrt", "abs", "divx"])
        a = sub()
        if k in ("ln", "sqrt"):
            return [k, ["add", num(1), ["mul", a, a]]]
        if k == "exp":
            return ["exp", ["neg", ["mul", a, a]]]
        if k == "divx":
            return ["div", sub(), ["add", num(1), ["mul", a, a]]]
        return [k, a]
    if flavour == "pw":
        return ["abs", sub()]
    return ["mul", sub(), sub()]


def gen_doc(rng, flavour: str = "poly", awkward: bool = False) -> dict:  # noqa: ANN001, C901, PLR0912, PLR0915
    used: set[str] = set()

    def fresh(pool: list[str], prefix: str, renamed_ok: bool = True) -> str:
        cands = [x for x in pool if x not in used]
        if awkward and rng.random() < 0.6:
            # renamed_ok=False: ids that pysbml renames (keywords, leading underscore) are not used for compartments --
            # pysbml 0.5.0 looks the species' compartment attribute up unrenamed and raises KeyError (external)
            ac = [x for x in AWKWARD_IDS if x not in used and (renamed_ok or (not keyword.iskeyword(x) and x[0].isalpha()))]
            if ac:
                cands = ac
        if not cands:
            i = 0
            while f"{prefix}{i}" in used:
                i += 1
            cands = [f"{prefix}{i}"]
        x = rng.choice(cands)
        used.add(x)
        return x

    comps = [{"id": fresh(COMP_IDS, "comp", False), "size": list(rng.choice(DYADIC_SIZES))} for _ in range(rng.randint(1, 2))]
    species = []
    for _ in range(rng.randint(2, 4)):
        kind = rng.choice(["conc", "conc", "conc", "amount", "amount", "boundary"])
        species.append({"id": fresh(PLAIN_IDS, "S"), "comp": rng.choice(comps)["id"], "init": list(rng.choice(SMALL)), "kind": kind})
    if all(s["kind"] == "boundary" for s in species):
        species[0]["kind"] = "conc"
    consts = [{"id": fresh(PAR_IDS, "p"), "value": list(rng.choice(SMALL))} for _ in range(rng.randint(1, 4))]

    # function definitions (may call earlier ones); bodies only over their own arguments
    fns: list[dict] = []
    for _ in range(rng.choice([0, 1, 1, 2])):
        # function ids stay plain: pysbml 0.5.0 raises KeyError on calls of function definitions whose id it
        # renames (Python keywords, __NN__ escapes) -- external, not generated
        fid = rng.choice([x for x in FN_IDS if x not in used] or [f"fn{len(used)}"])
        used.add(fid)
        n_args = rng.randint(1, 3)
        arg_pool = ["x", "y", "z", "S", "k", "lambda", "a_1"] if awkward else ["x", "y", "z", "s", "k"]
        args = rng.sample(arg_pool, n_args)
        body = gen_expr(rng, args, 2, "poly" if flavour == "poly" else flavour, list(fns), [])
        fns.append({"id": fid, "args": args, "math": body})

    comp_ids = [c["id"] for c in comps]
    # assignment rules on extra parameters: generated in dependency order, declared shuffled
    rules = []
    rule_pars = []
    leaves_dyn = [s["id"] for s in species] + [p["id"] for p in consts] + comp_ids
    for _ in range(rng.choice([0, 1, 1, 2, 3])):
        pid = fresh(PAR_IDS, "q")
        e = gen_expr(rng, leaves_dyn + [r["var"] for r in rules], 2, flavour, fns, comp_ids)
        rules.append({"var": pid, "math": e})
        rule_pars.append({"id": pid, "value": [0, 1]})
    declared_rules = list(rules)
    rng.shuffle(declared_rules)

    # initial assignments: on constants (over other constants without IA / species attribute values) and on
    # species (over constants); acyclic by construction
    inits = []
    ia_targets: set[str] = set()
    cand = [p["id"] for p in consts] + [s["id"] for s in species if s["kind"] != "boundary"]
    rng.shuffle(cand)
    for tgt in cand[: rng.choice([0, 0, 1, 1, 2])]:
        leaves = [p["id"] for p in consts if p["id"] != tgt and p["id"] not in ia_targets]
        if tgt in {p["id"] for p in consts}:
            leaves += [s["id"] for s in species if s["id"] not in ia_targets and s["kind"] != "boundary"][:1]
        if not leaves:
            continue
        inits.append({"sym": tgt, "math": gen_expr(rng, leaves, 2, "poly" if flavour == "poly" else "pw", fns, [])})
        ia_targets.add(tgt)

    reactions = []
    movable = [s["id"] for s in species]
    leaves_rate = leaves_dyn + [r["var"] for r in rules]
    for _ in range(rng.randint(1, 3)):
        rid = fresh(RXN_IDS, "r")
        k = rng.randint(1, min(3, len(movable)))
        parts = rng.sample(movable, k)
        reactants, products = [], []
        for sp in parts:
            (reactants if rng.random() < 0.5 else products).append([sp, list(rng.choice(STOICH))])
        if rng.random() < 0.15 and parts:
            # the same species on both sides (net coefficient)
            products.append([parts[0], list(rng.choice(STOICH))])
            reactants.append([parts[0], list(rng.choice(STOICH))])
        reactions.append({"id": rid, "reactants": reactants, "products": products, "math": gen_expr(rng, leaves_rate, 3, flavour, fns, comp_ids)})

    pars = consts + rule_pars
    rng.shuffle(pars)
    return {
        "flavour": flavour + ("+awkward" if awkward else ""),
        "compartments": comps,
        "species": species,
        "parameters": pars,
        "functions": fns,
        "rules": declared_rules,
        "inits": inits,
        "reactions": reactions,
    }


def gen_states(rng, doc: dict, n: int) -> list[dict[str, Fraction]]:  # noqa: ANN001
    out = []
    for _ in range(n):
        out.append({s["id"]: rng.choice(STATE_VALUES) for s in doc["species"] if s["kind"] != "boundary"})
    return out


STEMS = [
    "model", "Model", "my model", "my-model", "My_Model", "a.b", "x (1)", "x-1", "x 1", "glycolysis_v2", "__a__", "-lead", "tail-",
    "UPPER lower", "dots.and-dashes", "two  spaces", "a--b", "m#1", "m1", "100%", "e+f", "q=1", "[brackets]", "_", "-",
]  # fmt: skip


def gen_stem(rng) -> str:  # noqa: ANN001
    if rng.random() < 0.5:
        return rng.choice(STEMS)
    alphabet = "abcXYZ019_- .()#+"
    return "".join(rng.choice(alphabet) for _ in range(rng.randint(1, 10)))
