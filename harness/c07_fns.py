"""Function table of the C07 check (a REAL module file: fn_to_sympy reads the source).

ids 0..10 are harness/fnlib.py's polynomial functions (same ids), 11..15 conditionals in return
position and a division by a constant, 16..18 functions that fn_to_sympy refuses (before and after
the proposed C06 repairs), 19..27 functions with LOCAL ASSIGNMENTS whose names are reassigned
inside a branch and read after it (TRANSLATABLE is an explicit set: ids stay stable), 28..37 functions
that fn_to_sympy must refuse BY ARITY (a call relying on a default value, a keyword-only parameter, *args),
38..42 translatable functions around the module-level FLOAT constants c_half / c_gain: one reads them as
globals, the others have a PARAMETER or a LOCAL of the same name (which shadows the global in Python).  coq/codegen/CgInst.v (fsemQ / translatesQ) mirrors this table: keep ids stable.
Every function is exact on small dyadic rationals in binary64."""

from __future__ import annotations

from harness.fnlib import (
    f_add,
    f_id,
    f_lin,
    f_ma2,
    f_mul,
    f_neg,
    f_poly2,
    f_sq,
    f_sub,
    f_sum3,
    f_two,
)


def g_max2(a, b):
    if a > b:
        return a
    return b


def g_abs(a):
    return a if a > 0 else -a


def g_relu(a, b):
    return a * b if a > 0 else 0


def g_half(a):
    return a / 2


def g_clamp(a, lo, hi):
    if a < lo:
        return lo
    elif a > hi:
        return hi
    else:
        return a


def u_subscript(a):
    return [a, a][0]


def u_boolop(a, b):
    return a if (a > 0 and b > 0) else b


def u_lambda(a):
    return (lambda z: z)(a)

# ---- local assignments and branch-local reassignment (ids 19..27, translatable) -------------
# fn_to_sympy translates an `if` by translating [branch body + the statements after the if] once
# per path, each path on its OWN copy of the symbol table; these functions read, after a branch,
# a name that only one path reassigns -- the if-body, the else-body, or the statements after the if
# (float literals: no integer literal reaches Rust)


def h_cap(a, cap):
    r = a * 2.0
    if r > cap:
        r = cap
    return r


def h_default(a, b):
    f = 1.0
    if a > b:
        f = b
    return a * f


def h_nested(a, b, c):
    r = a
    if a > b:
        if a > c:
            r = c
        r = r + b
    return r


def h_swap(a, b):
    lo, hi = a, b
    if lo > hi:
        lo, hi = hi, lo
    return hi - lo * 2.0


def h_elif(a, b):
    r = b
    if a > 1.0:
        r = a + b
    elif a < -1.0:
        s = a * b
        r = s - b
    elif a < 0.0:
        pass
    return r * 2.0


def h_step(a):
    r = a
    if a > 1.0:
        r = 1.0
    if a < -1.0:
        r = -1.0
    return r - a * 0.5


def h_else_reads(a, b, c):
    r = a + b
    if r > c:
        r = c
        s = r
    else:
        s = r * 2.0
    return s - a


def h_else_assigns(a, b):
    r = a
    if a > b:
        s = r
    else:
        r = b
        s = r + a
    return s + r * 2.0


def h_after(a, b):
    r = a
    s = b
    if a > b:
        s = r * 2.0
    r = r + s
    return r


# ---- untranslatable BY ARITY (ids 28..37) -----------------------------------------------------
# fn_to_sympy binds a function's positional parameter names (ast `args.args`) to the call's
# arguments with zip(..., strict=True): it has no notion of default values, keyword-only parameters
# or *args.  A call that relies on any of them must be REFUSED (generation raises): an unsupplied
# parameter left behind in the expression is a bare symbol that reads whatever model component has
# that name -- the helpers' defaulted parameters are therefore called like model names (n0011) or
# like a parameter of the calling function (g).  The helpers k_* are not table entries (found by
# fn_to_sympy through the module); Python evaluates every function here without complaint.


def k_scale(s, n0011=2.0):
    return s * n0011


def u_default_helper(a):
    return k_scale(a)


def k_gain(s, g=2.0):
    return s * g


def u_default_inner(a, g):
    return k_gain(a) - g


def k_lin(s, b=1.0, n0011=0.5):
    return s * b + n0011


def u_default_mid(a, c):
    return k_lin(a, c)


def u_default_top(a, n0011=2.0):  # as a computed coefficient over ONE argument (Model checks the arity of rates/derived)
    return a * n0011


def u_kwonly(a, *, n0011=2.0):
    return a * n0011


def k_kw(s, *, n0011=2.0):
    return s * n0011


def u_kwhelper(a):
    return k_kw(a)


def u_star(a, *rest):
    return a * 2.0


def k_star(s, *rest):
    return s * 2.0


def u_starhelper(a, b):
    return k_star(a, b)


# EMPTY argument lists: every parameter has a default and the call passes nothing
def k_two(n0011=2.0):
    return n0011 * 3.0


def u_empty_helper(a):
    return a * k_two()


def u_empty_top(n0011=2.0):  # as a computed coefficient over NO argument
    return n0011 * 3.0


# ---- module-level float constants and names that SHADOW them (ids 38..42, translatable) ---------
# fn_to_sympy's _handle_name looks a name up in the function's own symbol table (parameters and
# locals) FIRST and only then among the float constants of the defining module, which it inlines
# with their value.  That is Python's own scoping: a parameter / local called like a module
# constant shadows it.  (seeded change C07-8 inverted the precedence.)  m_const reads the constants
# as globals -- their values must be inlined; the others bind one of the two names themselves while
# still reading the OTHER one as a global.
c_half = 0.5
c_gain = 4.0


def m_const(a):
    return a * c_half + c_gain


def m_param(a, c_half):  # a PARAMETER called like the constant (the model passes its own component)
    return a * c_half + c_gain


def m_local(a, b):  # a LOCAL called like the constant
    c_half = a + b
    return c_half * a - c_gain


def m_rebind(a, c_gain):  # a parameter called like the constant, reassigned from the OTHER constant
    r = a * c_gain
    c_gain = r + c_half
    return c_gain * 2.0


def k_shadow(s, c_gain):  # helper (not a table entry): its PARAMETER shadows, c_half is the global
    return s * c_gain + c_half


def m_helper(a, b):  # the shadowing happens inside a helper; the caller reads the global
    return k_shadow(a, b) - c_gain


# scope correspondence only (harness/c07_scope.py; never part of a model)
def k_unbound(a):  # CPython: UnboundLocalError -- c_half is local THROUGHOUT; fn_to_sympy reads the constant
    r = a * c_half
    c_half = r + 1.0
    return c_half


def k_nameerr(a):  # a name defined nowhere: NameError in CPython, KeyError out of fn_to_sympy
    return a * c_missing  # noqa: F821


def k_localconst(a):  # a local called like one constant, computed from the other
    c_gain = c_half * a
    return c_gain + a


FNS = [
    f_id, f_neg, f_add, f_sub, f_mul, f_lin, f_sq, f_poly2, f_two, f_ma2, f_sum3,
    g_max2, g_abs, g_relu, g_half, g_clamp,
    u_subscript, u_boolop, u_lambda,
    h_cap, h_default, h_nested, h_swap, h_elif, h_step, h_else_reads, h_else_assigns, h_after,
    u_default_helper, u_default_inner, u_default_mid, u_default_top, u_kwonly, u_kwhelper, u_star, u_starhelper,
    u_empty_helper, u_empty_top,
    m_const, m_param, m_local, m_rebind, m_helper,
]  # fmt: skip
# number of arguments the MODEL passes (for 28..37 not the number of parameters)
ARITY = [1, 1, 2, 2, 2, 3, 1, 2, 0, 3, 3, 2, 1, 2, 1, 3, 1, 2, 1, 2, 2, 3, 2, 2, 1, 3, 2, 2,
         1, 2, 2, 1, 1, 1, 2, 2, 1, 0,
         1, 2, 2, 2, 2]
# ids are positions in FNS and never change; new functions are appended
TRANSLATABLE = frozenset(range(16)) | frozenset(range(19, 28)) | frozenset(range(38, 43))
# around the module's float constants (a global read, parameters / locals shadowing it)
MODULE_CONSTANTS = frozenset(range(38, 43))
# calls a helper: outside the straight-line scope model (coq/codegen/NameScope.v); oracle + fsemQ only
SCOPE_CALLS_HELPER = frozenset({42})
CONDITIONAL = {11, 12, 13, 15, 19, 20, 21, 22, 23, 24, 25, 26, 27}
LOCAL_ASSIGNMENT = {19, 20, 21, 22, 23, 24, 25, 26, 27}
# refused because the call relies on a default value / a keyword-only parameter / *args
BY_ARITY_REFUSED = frozenset(range(28, 38))
# Model itself rejects these as the function of a rate or of a derived quantity (ArityMismatchError):
# usable as a computed coefficient only
COEF_ONLY = frozenset({31, 37})
# refused by a KeyError out of fn_to_sympy's global-name lookup (a keyword-only parameter is no
# entry of the symbol table): for a derived quantity / a coefficient the KeyError itself leaves
# generate_model_code_*, for a reaction it is turned into the ValueError
KEYERROR_REFUSED = frozenset({32, 33})
# EMPTY argument list: fn_to_sympy skips the binding altogether when the call passes no argument
# (`if model_args is not None and len(model_args)`), so the defaulted parameter stays behind as a
# bare symbol -- recorded finding defaulted-parameters-no-arguments, repaired by
# fixes/C07-empty-argument-list-strict.diff (harness/c07.py reads which form the tree has)
EMPTY_CALL = frozenset({36, 37})
# refused only because the call passes MORE arguments than the callee has positional parameters; the
# callee takes them as *args and ignores them (a translation dropping the surplus would be faithful)
SURPLUS_ONLY = frozenset({34, 35})
BY_ARITY: dict[int, list[int]] = {}
for _i, _a in enumerate(ARITY):
    # the random generator draws from ids < 38 (its stream predates the later ids, which the
    # function-table sweep, the corpus and the scope correspondence cover)
    if _i in TRANSLATABLE and _i < 38:
        BY_ARITY.setdefault(_a, []).append(_i)
UNTRANSLATABLE_BY_ARITY = {1: [16, 18, 28, 32, 33], 2: [17, 29, 30, 34, 35]}
UNTRANSLATABLE_COEF_BY_ARITY = {1: [16, 18, 28, 31, 32, 33], 2: [17, 29, 30, 34, 35]}


def translates(fid: int) -> bool:
    return fid in TRANSLATABLE


def fsem(fid: int, args: list):
    """Reference meaning over exact Fractions (float literals in a function may turn the result
    into a float; the inputs are small dyadic rationals, so that float is exact)."""
    from fractions import Fraction

    return Fraction(FNS[fid](*args))
