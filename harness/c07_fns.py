"""Function table of the C07 check (a REAL module file: fn_to_sympy reads the source).

ids 0..10 are harness/fnlib.py's polynomial functions (same ids), 11..15 conditionals in return
position and a division by a constant, 16..18 functions that fn_to_sympy refuses (before and after
the proposed C06 repairs), 19..27 functions with LOCAL ASSIGNMENTS whose names are reassigned
inside a branch and read after it (TRANSLATABLE is an explicit set: ids stay stable).  coq/codegen/CgInst.v (fsemQ / translatesQ) mirrors this table: keep ids stable.
Every function is exact on small dyadic rationals in binary64."""

from __future__ import annotations

from harness.fnlib import (
    f_add,
    f_id,
    f_lin,
    f_ma2,
    f_mul,
    f_neg,
    f_poly2,
    f_sq,
    f_sub,
    f_sum3,
    f_two,
)


def g_max2(a, b):
    if a > b:
        return a
    return b


def g_abs(a):
    return a if a > 0 else -a


def g_relu(a, b):
    return a * b if a > 0 else 0


def g_half(a):
    return a / 2


def g_clamp(a, lo, hi):
    if a < lo:
        return lo
    elif a > hi:
        return hi
    else:
        return a


def u_subscript(a):
    return [a, a][0]


def u_boolop(a, b):
    return a if (a > 0 and b > 0) else b


def u_lambda(a):
    return (lambda z: z)(a)

# ---- local assignments and branch-local reassignment (ids 19..27, translatable) -------------
# fn_to_sympy translates an `if` by translating [branch body + the statements after the if] once
# per path, each path on its OWN copy of the symbol table; these functions read, after a branch,
# a name that only one path reassigns -- the if-body, the else-body, or the statements after the if
# (float literals: no integer literal reaches Rust)


def h_cap(a, cap):
    r = a * 2.0
    if r > cap:
        r = cap
    return r


def h_default(a, b):
    f = 1.0
    if a > b:
        f = b
    return a * f


def h_nested(a, b, c):
    r = a
    if a > b:
        if a > c:
            r = c
        r = r + b
    return r


def h_swap(a, b):
    lo, hi = a, b
    if lo > hi:
        lo, hi = hi, lo
    return hi - lo * 2.0


def h_elif(a, b):
    r = b
    if a > 1.0:
        r = a + b
    elif a < -1.0:
        s = a * b
        r = s - b
    elif a < 0.0:
        pass
    return r * 2.0


def h_step(a):
    r = a
    if a > 1.0:
        r = 1.0
    if a < -1.0:
        r = -1.0
    return r - a * 0.5


def h_else_reads(a, b, c):
    r = a + b
    if r > c:
        r = c
        s = r
    else:
        s = r * 2.0
    return s - a


def h_else_assigns(a, b):
    r = a
    if a > b:
        s = r
    else:
        r = b
        s = r + a
    return s + r * 2.0


def h_after(a, b):
    r = a
    s = b
    if a > b:
        s = r * 2.0
    r = r + s
    return r


FNS = [
    f_id, f_neg, f_add, f_sub, f_mul, f_lin, f_sq, f_poly2, f_two, f_ma2, f_sum3,
    g_max2, g_abs, g_relu, g_half, g_clamp,
    u_subscript, u_boolop, u_lambda,
    h_cap, h_default, h_nested, h_swap, h_elif, h_step, h_else_reads, h_else_assigns, h_after,
]  # fmt: skip
ARITY = [1, 1, 2, 2, 2, 3, 1, 2, 0, 3, 3, 2, 1, 2, 1, 3, 1, 2, 1, 2, 2, 3, 2, 2, 1, 3, 2, 2]
# ids are positions in FNS and never change; new functions are appended
TRANSLATABLE = frozenset(range(16)) | frozenset(range(19, 28))
CONDITIONAL = {11, 12, 13, 15, 19, 20, 21, 22, 23, 24, 25, 26, 27}
LOCAL_ASSIGNMENT = {19, 20, 21, 22, 23, 24, 25, 26, 27}
BY_ARITY: dict[int, list[int]] = {}
for _i, _a in enumerate(ARITY):
    if _i in TRANSLATABLE:
        BY_ARITY.setdefault(_a, []).append(_i)
UNTRANSLATABLE_BY_ARITY = {1: [16, 18], 2: [17]}


def translates(fid: int) -> bool:
    return fid in TRANSLATABLE


def fsem(fid: int, args: list):
    """Reference meaning over exact Fractions (float literals in a function may turn the result
    into a float; the inputs are small dyadic rationals, so that float is exact)."""
    from fractions import Fraction

    return Fraction(FNS[fid](*args))
