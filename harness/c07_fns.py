"""Function table of the C07 check (a REAL module file: fn_to_sympy reads the source).

ids 0..10 are harness/fnlib.py's polynomial functions (same ids), 11..15 conditionals and a
division by a constant, 16.. functions that fn_to_sympy refuses (before and after the proposed C06
repairs).  coq/codegen/CgInst.v (fsemQ / translatesQ) mirrors this table: keep ids stable.
Every function is exact on small dyadic rationals in binary64."""

from __future__ import annotations

from harness.fnlib import (
    f_add,
    f_id,
    f_lin,
    f_ma2,
    f_mul,
    f_neg,
    f_poly2,
    f_sq,
    f_sub,
    f_sum3,
    f_two,
)


def g_max2(a, b):
    if a > b:
        return a
    return b


def g_abs(a):
    return a if a > 0 else -a


def g_relu(a, b):
    return a * b if a > 0 else 0


def g_half(a):
    return a / 2


def g_clamp(a, lo, hi):
    if a < lo:
        return lo
    elif a > hi:
        return hi
    else:
        return a


def u_subscript(a):
    return [a, a][0]


def u_boolop(a, b):
    return a if (a > 0 and b > 0) else b


def u_lambda(a):
    return (lambda z: z)(a)


FNS = [
    f_id, f_neg, f_add, f_sub, f_mul, f_lin, f_sq, f_poly2, f_two, f_ma2, f_sum3,
    g_max2, g_abs, g_relu, g_half, g_clamp,
    u_subscript, u_boolop, u_lambda,
]  # fmt: skip
ARITY = [1, 1, 2, 2, 2, 3, 1, 2, 0, 3, 3, 2, 1, 2, 1, 3, 1, 2, 1]
N_TRANSLATABLE = 16
CONDITIONAL = {11, 12, 13, 15}
BY_ARITY: dict[int, list[int]] = {}
for _i, _a in enumerate(ARITY):
    if _i < N_TRANSLATABLE:
        BY_ARITY.setdefault(_a, []).append(_i)
UNTRANSLATABLE_BY_ARITY = {1: [16, 18], 2: [17]}


def translates(fid: int) -> bool:
    return fid < N_TRANSLATABLE


def fsem(fid: int, args: list):
    """Reference meaning over exact Fractions."""
    return FNS[fid](*args)
