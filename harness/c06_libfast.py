"""C06 corpus helper: the "fast" library -- bound at MODULE level in c06_corpus.py."""

from harness import c06_constsfast as consts  # noqa: F401


def scale(x):
    return 2.0 * x
