#!/bin/bash
# C08 mutation self-tests (design/C08.md): every mutation is applied to a scratch copy of /repo by tools/mutate.sh,
# on top of fixes/C08-log10-base.diff (skipped silently once that fix is in /repo).  Usage: bash harness/c08_mutations.sh
FIX='patch -p1 -s -N < /verif/fixes/C08-log10-base.diff >/dev/null 2>&1; true'
# optional arguments: the mutations to run (e.g. `bash harness/c08_mutations.sh M8 M17`); default all
ONLY=" $* "
want() { [ "$ONLY" = "  " ] || case "$ONLY" in *" $1 "*) true ;; *) false ;; esac; }
run() { want "${1%% *}" || return 0; echo "=================== $1"; shift; /verif/tools/mutate.sh C08 "$FIX; $*
echo applied" 2>&1 | grep -v "^WARNING\|^Closed\|^KNOWN" | grep "^\[C08\]\|VIOLATION\|exit=\|failed\|applied\|FAILED" | cut -c1-330; }
run "M1 reverse piecewise child order (7adfc9a)" "patch -p1 -R < /verif/fixes/C08-piecewise-child-order.diff"
run "M2 reverse chained comparison (e2724ba)" "patch -p1 -R < /verif/fixes/C08-chained-comparison.diff"
# M3 / M4: the reverse patches stopped applying when 3f12a61 / bbf7724 changed their context lines; same edits by hand
run "M3 reverse computed stoichiometry sign (0cf2119): a computed coefficient is written as a reactant" "python3 - <<'PY'
p='src/mxlpy/sbml/_export.py'; s=open(p).read()
a='                    sref = sbml_rxn.createProduct()\n                    sref.setId('
assert s.count(a)==1
s=s.replace(a, a.replace('createProduct','createReactant')); open(p,'w').write(s)
PY"
run "M4 reverse initial assignment setSymbol (22ac673): setVariable" "sed -i 's/ar.setSymbol(/ar.setVariable(/' src/mxlpy/sbml/_export.py"

# M5 overlaps the log10 fix (in /repo since b7459c2): take that one out first
FIX=true run "M5 reverse unknown calls / arity / keywords (f62d241, with b7459c2 reversed first)" "patch -p1 -R -s < /verif/fixes/C08-log10-base.diff && patch -p1 -R -s < /verif/fixes/C08-call-unknown-or-arity.diff"
E=src/mxlpy/sbml/_export.py
run "M7 table: sqrt -> AST_FUNCTION_LN" "sed -i 's/\"sqrt\": libsbml.AST_FUNCTION_ROOT/\"sqrt\": libsbml.AST_FUNCTION_LN/' $E"
run "M8 binop children swapped" "python3 - <<'PY'
p='$E'; s=open(p).read()
s=s.replace('    sbml_node = libsbml.ASTNode(op)\n    sbml_node.addChild(left)\n    sbml_node.addChild(right)','    sbml_node = libsbml.ASTNode(op)\n    sbml_node.addChild(right)\n    sbml_node.addChild(left)'); open(p,'w').write(s)
PY"
run "M9 setStoichiometry(factor) instead of abs(factor)" "sed -i 's/sref.setStoichiometry(abs(factor))/sref.setStoichiometry(factor)/' $E"
run "M10 Lt -> AST_RELATIONAL_LEQ" "python3 - <<'PY'
p='$E'; s=open(p).read()
s=s.replace('        case ast.Lt():\n            return libsbml.AST_RELATIONAL_LT','        case ast.Lt():\n            return libsbml.AST_RELATIONAL_LEQ'); open(p,'w').write(s)
PY"
run "M11 IdentifierReplacer does not rename" "sed -i 's/id=self.mapping.get(node.id, node.id),/id=node.id,/' $E"
run "M12 kinetic law arguments reversed" "sed -i -e 's/setMath(_sbmlify_fn(rxn.fn, rxn.args))/setMath(_sbmlify_fn(rxn.fn, rxn.args[::-1]))/' -e 's/setMath(_sbmlify_fn(rxn.fn, rxn.args, ids))/setMath(_sbmlify_fn(rxn.fn, rxn.args[::-1], ids))/' $E"
run "M13 reactant iff factor <= 0 -> > 0 (sign test inverted)" "sed -i 's/if factor < 0$/if factor > 0/' $E"
run "M14 arity check dropped for unary table" "python3 - <<'PY'
p='$E'; s=open(p).read()
s=s.replace('if (typ := UNARY.get(attr)) is not None and len(node.args) == 1:','if (typ := UNARY.get(attr)) is not None:'); open(p,'w').write(s)
PY"

# ---- deepening pass (2026-10-02) ----
I=src/mxlpy/sbml/_import.py
run "M15 one renaming pass per (parameter, model name) pair (= seeded/C08-1)" "patch -p1 -s < /verif/seeded/C08-1/patch.diff"
run "M16 read() reuses sys.modules[<stem>] (= seeded/C08-3)" "patch -p1 -s < /verif/seeded/C08-3/patch.diff"
run "M17 read() memoises the transformed document per path" "python3 - <<'PY'
p='$I'; s=open(p).read()
s=s.replace('    model = pysbml.load_and_transform_model(file)\n    out_name','    model = _TRANSFORMED.setdefault(str(file), None) or _TRANSFORMED.__setitem__(str(file), pysbml.load_and_transform_model(file)) or _TRANSFORMED[str(file)]\n    out_name')
s=s.replace('def read(file: Path) -> Model:','_TRANSFORMED: dict = {}\n\n\ndef read(file: Path) -> Model:'); open(p,'w').write(s)
PY"
run "M18 IdentifierReplacer looks a renamed name up again (chains a->b->c collapse)" "sed -i 's/id=self.mapping.get(node.id, node.id),/id=self.mapping.get(self.mapping.get(node.id, node.id), self.mapping.get(node.id, node.id)),/' $E"

# ---- closing pass (2026-10-02) ----
run "M19 _handle_body converts only the last statement (= seeded/C08-4)" "patch -p1 -s < /verif/seeded/C08-4/patch.diff"
run "M20 RE_TO_SBML = Unicode-aware \\W (= seeded/C08-5)" "patch -p1 -s < /verif/seeded/C08-5/patch.diff"
run "M21 remainder moved from UNARY to BINARY (= seeded/C08-6)" "patch -p1 -s < /verif/seeded/C08-6/patch.diff"
run "M22 an assignment statement is exported as its value (rebinding silently dropped)" "python3 - <<'PY'
p='$E'; s=open(p).read()
s=s.replace('        case ast.UnaryOp():\n            return _convert_unaryop(node)','        case ast.Assign():\n            return _convert_node(node.value)\n        case ast.UnaryOp():\n            return _convert_unaryop(node)'); open(p,'w').write(s)
PY"
run "M23 the escaped class forgets the upper-case range boundary ([^0-9_a-zA-Z] -> [^0-9_a-zA-z])" "sed -i 's/\[^0-9_a-zA-Z\]/[^0-9_a-zA-z]/' $E"
