#!/bin/bash
# C08 mutation self-tests (design/C08.md): every mutation is applied to a scratch copy of /repo by tools/mutate.sh,
# on top of fixes/C08-log10-base.diff (skipped silently once that fix is in /repo).  Usage: bash harness/c08_mutations.sh
FIX='patch -p1 -s -N < /verif/fixes/C08-log10-base.diff >/dev/null 2>&1; true'
run() { echo "=================== $1"; shift; /verif/tools/mutate.sh C08 "$FIX; $* ; echo applied" 2>&1 | grep -v "^WARNING\|^Closed\|^KNOWN" | grep "^\[C08\]\|VIOLATION\|exit=\|failed\|applied\|FAILED\|rej" | cut -c1-330; }
run "M1 reverse piecewise child order (7adfc9a)" "patch -p1 -R < /verif/fixes/C08-piecewise-child-order.diff"
run "M2 reverse chained comparison (e2724ba)" "patch -p1 -R < /verif/fixes/C08-chained-comparison.diff"
run "M3 reverse computed stoichiometry sign (0cf2119)" "patch -p1 -R < /verif/fixes/C08-computed-stoichiometry-sign.diff"
run "M4 reverse initial assignment setSymbol (22ac673)" "patch -p1 -R < /verif/fixes/C08-initial-assignment-symbol.diff"

# M5 overlaps the log10 fix: run it on a plain copy of /repo
/verif/tools/mutate.sh C08 "patch -p1 -R < /verif/fixes/C08-call-unknown-or-arity.diff ; echo applied" 2>&1 | grep "^\[C08\]\|VIOLATION" | cut -c1-330
E=src/mxlpy/sbml/_export.py
run "M7 table: sqrt -> AST_FUNCTION_LN" "sed -i 's/\"sqrt\": libsbml.AST_FUNCTION_ROOT/\"sqrt\": libsbml.AST_FUNCTION_LN/' $E"
run "M8 binop children swapped" "python3 - <<'PY'
p='$E'; s=open(p).read()
s=s.replace('    sbml_node = libsbml.ASTNode(op)\n    sbml_node.addChild(left)\n    sbml_node.addChild(right)','    sbml_node = libsbml.ASTNode(op)\n    sbml_node.addChild(right)\n    sbml_node.addChild(left)'); open(p,'w').write(s)
PY"
run "M9 setStoichiometry(factor) instead of abs(factor)" "sed -i 's/sref.setStoichiometry(abs(factor))/sref.setStoichiometry(factor)/' $E"
run "M10 Lt -> AST_RELATIONAL_LEQ" "python3 - <<'PY'
p='$E'; s=open(p).read()
s=s.replace('        case ast.Lt():\n            return libsbml.AST_RELATIONAL_LT','        case ast.Lt():\n            return libsbml.AST_RELATIONAL_LEQ'); open(p,'w').write(s)
PY"
run "M11 IdentifierReplacer does not rename" "sed -i 's/id=self.mapping.get(node.id, node.id),/id=node.id,/' $E"
run "M12 kinetic law arguments reversed" "sed -i 's/setMath(_sbmlify_fn(rxn.fn, rxn.args))/setMath(_sbmlify_fn(rxn.fn, rxn.args[::-1]))/' $E"
run "M13 reactant iff factor <= 0 -> > 0 (sign test inverted)" "sed -i 's/if factor < 0$/if factor > 0/' $E"
run "M14 arity check dropped for unary table" "python3 - <<'PY'
p='$E'; s=open(p).read()
s=s.replace('if (typ := UNARY.get(attr)) is not None and len(node.args) == 1:','if (typ := UNARY.get(attr)) is not None:'); open(p,'w').write(s)
PY"
