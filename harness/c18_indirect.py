"""C18, 4th pass -- parameters that act INDIRECTLY (closing seeded C18-7, C18-8, C18-9).

The networks of harness/c18.py use plain parameters and plain initial values only.  Here a scanned parameter may reach
a rate law / the steady state through

  * a derived parameter (``add_derived`` whose arguments are all parameters:  kr = kf / keq,  vmax = kcat * e_tot),
  * an initial-assignment parameter (``add_parameter(name, InitialAssignment(...))``:  k1 := kcat * e_tot),
  * the initial value of a variable given by an InitialAssignment (A(0) := a_tot) in a moiety-conserving cycle,
  * a parameter-dependent stoichiometric coefficient (A -> n B with ``Derived(args=["n"])``).

Everything is a monomial (integer exponents, possibly negative) of the base parameters, so

  * the flux as a function of one base parameter p is  c * p^m  with m = the TOTAL exponent through all computed names
    (``expo``): scaled elasticity = m, unscaled = m * flux / p; the truncation error of the central difference is known in
    closed form (``trunc``) and is the oracle's tolerance (+ 1e-6 rounding allowance);
  * the steady state of the generated families (chain with yields, conserved cycle) is a rational function of the base
    parameters, written out here (``steady_state``); its sensitivity is obtained from that closed form with exact rational
    arithmetic (central difference with relative step 1e-9 in Fractions: relative error ~1e-18), compared at 5e-2 like the
    other response-coefficient oracles;
  * the model content every steady-state run of the SEQUENTIAL execution sees is predicted exactly (parameter values:
    the same float expression; evaluated initial values: 1e-12): the assignment-defined initial values must FOLLOW the
    perturbed parameter in every worker, not only in the first one.

Shares no code with the Coq model.  The exact (dyadic) half of the elasticity stream also goes through the in-Coq
comparison against ``par_elast / var_elast gen_mca_facts (ifluxes comp net)`` (coq/mca/McaIndirect.v).
"""

from __future__ import annotations

import copy
from fractions import Fraction
from typing import Any

# ---------------------------------------------------------------------------------------
# networks
# ---------------------------------------------------------------------------------------
# net = {"pars": {k: value}, "comp": [[name, "ia"|"der", num, den]], "vars": {x: value}, "ia_vars": {x: monomial},
#        "rxns": [monomial, ...], "stoich": {i: {x: number | ["der", monomial]}}, ...}      monomial = [[arg, n], ...]


def normalise(net: dict) -> dict:
    """JSON round trip: tuples -> lists, int keys -> strings."""
    n = dict(net)
    n["rxns"] = [[(a, int(k)) for a, k in fs] for fs in net["rxns"]]
    n["comp"] = [[nm, kind, [(a, int(k)) for a, k in num], [(a, int(k)) for a, k in den]] for nm, kind, num, den in net["comp"]]
    n["ia_vars"] = {x: [(a, int(k)) for a, k in mono] for x, mono in net.get("ia_vars", {}).items()}
    if "stoich" in net:
        n["stoich"] = {int(i): {x: (c if not isinstance(c, list) else ["der", [(a, int(k)) for a, k in c[1]]]) for x, c in st.items()}
                       for i, st in net["stoich"].items()}
    if "yields" in net:
        n["yields"] = {int(i): c for i, c in net["yields"].items()}
    return n


def build_imodel(net: dict):
    from mxlpy import Derived, InitialAssignment, Model

    from harness.c18_fns import PowerLaw, PowerQuot

    m = Model()
    m.add_parameters(dict(net["pars"]))
    for name, kind, num, den in net["comp"]:
        fn = PowerQuot([n for _, n in num], [n for _, n in den])
        args = [a for a, _ in num] + [a for a, _ in den]
        if kind == "ia":
            m.add_parameter(name, InitialAssignment(fn=fn, args=args))
        else:
            m.add_derived(name, fn=fn, args=args)
    ia_vars = net.get("ia_vars", {})
    for x, v in net["vars"].items():
        if x in ia_vars:
            mono = ia_vars[x]
            m.add_variable(x, InitialAssignment(fn=PowerLaw([n for _, n in mono]), args=[a for a, _ in mono]))
        else:
            m.add_variable(x, v)
    vs = list(net["vars"])
    for i, fs in enumerate(net["rxns"]):
        st = net.get("stoich", {}).get(i) or {vs[i % len(vs)]: 1.0}
        st2 = {}
        for x, c in st.items():
            if isinstance(c, (list, tuple)):
                mono = c[1]
                st2[x] = Derived(fn=PowerLaw([n for _, n in mono]), args=[a for a, _ in mono])
            else:
                st2[x] = c
        m.add_reaction(f"v{i}", fn=PowerLaw([n for _, n in fs]), args=[a for a, _ in fs], stoichiometry=st2)
    return m


# ---------------------------------------------------------------------------------------
# exact evaluation (Fractions)
# ---------------------------------------------------------------------------------------


def _F(x) -> Fraction:
    from harness import common

    return common.to_fraction(x)


def mono_value(mono, env: dict[str, Fraction]) -> Fraction:
    v = Fraction(1)
    for a, n in mono:
        v *= env[a] ** n
    return v


def eval_names(net: dict, base: dict[str, Fraction]) -> dict[str, Fraction]:
    """base parameters + every computed parameter (initial-assignment parameters, derived parameters)."""
    env = dict(base)
    for name, _kind, num, den in net["comp"]:
        env[name] = mono_value(num, env) / mono_value(den, env)
    return env


def eval_inits(net: dict, env: dict[str, Fraction], y0: dict | None = None) -> dict[str, Fraction]:
    ia_vars = net.get("ia_vars", {})
    out = {}
    for x, v in net["vars"].items():
        out[x] = mono_value(ia_vars[x], env) if x in ia_vars else _F(v)
    for k, v in (y0 or {}).items():
        if k in out:
            out[k] = _F(v)
    return out


def expo(net: dict, name: str, p: str) -> int:
    """exponent of the base parameter p in the value of `name` (a base parameter or a computed parameter)."""
    if name == p:
        return 1
    for nm, _kind, num, den in net["comp"]:
        if nm == name:
            return sum(n * expo(net, a, p) for a, n in num) - sum(n * expo(net, a, p) for a, n in den)
    return 0


def trunc(m: int, d: Fraction) -> Fraction:
    """| ((1+d)^m - (1-d)^m) / (2d) - m |  -- the truncation error of the central difference of p^m, in units of p^(m-1)."""
    return abs(((1 + d) ** m - (1 - d) ** m) / (2 * d) - m)


def _is_b64(fr: Fraction) -> bool:
    try:
        return Fraction(float(fr)) == fr
    except OverflowError:
        return False


def _all_values_b64(net: dict, base: dict[str, Fraction], variables: dict[str, Fraction]) -> tuple[bool, list[Fraction]]:
    """every quantity the implementation computes at one evaluation point is exact in binary64; returns the fluxes."""
    env = dict(base)
    ok = all(_is_b64(v) for v in env.values())
    for name, _kind, num, den in net["comp"]:
        u, w = mono_value(num, env), mono_value(den, env)
        env[name] = u / w
        ok = ok and _is_b64(u) and _is_b64(w) and _is_b64(env[name])
    full = env | variables
    fl = [mono_value(fs, full) for fs in net["rxns"]]
    return ok and all(_is_b64(v) for v in fl), fl


# ---------------------------------------------------------------------------------------
# elasticities
# ---------------------------------------------------------------------------------------


def ielast_oracle(case: dict, res: dict) -> tuple[str | None, dict]:
    from harness import c18 as base_mod

    stats = {"cells": 0, "indirect_cells": 0, "exact_ok": True}
    net = case["net"]
    kind = case["kind"]
    bad = base_mod.untouched(res["before"], res["after"])
    if bad:
        return f"{kind}_elasticities left the model changed: {bad}", stats
    if case["variables"] is not None and res["variables_arg_after"] != case["variables"]:
        return f"{kind}_elasticities modified the caller's `variables` dict", stats
    if res["out"][0] != "Ok":
        return f"{kind}_elasticities raised {res['out'][0]} on a well-formed network with computed parameters", stats
    _, table, index = res["out"]
    names_ok = list(net["vars"]) if kind == "var" else list(net["pars"])
    scan = case["to_scan"] if case["to_scan"] is not None else names_ok
    if [c for c, _ in table] != list(dict.fromkeys(scan)) or index != [f"v{i}" for i in range(len(net["rxns"]))]:
        return f"result axes wrong: columns {[c for c, _ in table]} index {index}", stats
    d = Fraction(1, 10000) if case["d"] is None else _F(case["d"])
    base = {k: _F(v) for k, v in net["pars"].items()}
    env = eval_names(net, base)
    variables = {k: _F(v) for k, v in case["variables"].items()} if case["variables"] is not None else eval_inits(net, env)
    full = env | variables
    ok0, _ = _all_values_b64(net, base, variables)
    stats["exact_ok"] = ok0
    for col, cells in table:
        old = full[col]
        if kind == "par":
            up_ok, fu = _all_values_b64(net, base | {col: old * (1 + d)}, variables)
            lo_ok, fl = _all_values_b64(net, base | {col: old * (1 - d)}, variables)
        else:
            up_ok, fu = _all_values_b64(net, base, variables | {col: old * (1 + d)})
            lo_ok, fl = _all_values_b64(net, base, variables | {col: old * (1 - d)})
        if not (up_ok and lo_ok and _is_b64(old * (1 + d)) and _is_b64(old * (1 - d)) and _is_b64(2 * d * old)):
            stats["exact_ok"] = False
        for r, fs in enumerate(net["rxns"]):
            got = cells[r]
            flux = mono_value(fs, full)
            if kind == "par":
                m = sum(n * expo(net, a, col) for a, n in fs if a not in variables)
                direct = sum(n for a, n in fs if a == col)
            else:
                m = sum(n for a, n in fs if a == col)
                direct = m
            stats["cells"] += 1
            if m != direct:
                stats["indirect_cells"] += 1
            exact = Fraction(m) if case["normalized"] else m * flux / old
            scale = Fraction(1) if case["normalized"] else abs(flux / old)
            if got is None:
                return f"{kind} elasticity d v{r}/d {col} is NaN/inf at a non-zero state (value {float(old)}, flux {float(flux)})", stats
            tol = (trunc(m, d) + Fraction(1, 10**6) * max(1, abs(m))) * scale
            if abs(_F(got) - exact) > tol:
                via = "" if m == direct else f" (direct kinetic order {direct}, the rest through computed parameters {[c[0] for c in net['comp']]})"
                what = f"the total kinetic order {m}{via}" if case["normalized"] else f"the partial derivative {float(exact)}{via}"
                return (f"{kind} elasticity of v{r} w.r.t. {col} is {got}, expected {what} "
                        f"(|diff| {float(abs(_F(got) - exact)):.3g} > {float(tol):.3g}; displacement {float(d)})"), stats
            q = (fu[r] - fl[r]) / (2 * d * old)
            parts = [fu[r] - fl[r], q]
            if case["normalized"]:
                parts += [old / flux, q * (old / flux)]
            if not all(_is_b64(p) for p in parts):
                stats["exact_ok"] = False
    return None, stats


_DY = [0.5, 1.0, 2.0, 4.0, 3.0, 1.5]
_POW2 = [0.5, 1.0, 2.0, 4.0, -1.0, -2.0, 0.25]
_DYADIC_D = [2.0**-10, 2.0**-7, 2.0**-4]


def _gen_comp(rng, ps: list[str], n_ia: int, n_der: int, allow_div: bool = True) -> list:
    comp: list = []
    for j in range(n_ia):
        args = rng.sample(ps, min(len(ps), rng.randint(1, 2)))
        comp.append([f"a{j}", "ia", [(a, rng.choice([1, 1, 1, 2])) for a in args], []])
    for j in range(n_der):
        pool = ps + [c[0] for c in comp]
        args = rng.sample(pool, min(len(pool), rng.randint(1, 3)))
        num, den = [], []
        for i, a in enumerate(args):
            (den if (allow_div and i > 0 and rng.random() < 0.45) else num).append((a, rng.choice([1, 1, 1, 2])))
        comp.append([f"q{j}", "der", num, den])
    return comp


def gen_ielast_case(rng, exact: bool) -> dict:
    kind = "par" if rng.random() < 0.8 else "var"
    normalized = rng.random() < 0.5
    nv, npar = rng.randint(1, 3), rng.randint(2, 4)
    vs = [f"x{i}" for i in range(nv)]
    ps = [f"k{i}" for i in range(npar)]
    n_ia = rng.choice([0, 0, 1, 1, 2])
    n_der = rng.choice([1, 1, 2, 3]) if n_ia == 0 or rng.random() < 0.7 else 0
    comp = _gen_comp(rng, ps, n_ia, n_der)
    cnames = [c[0] for c in comp]
    if exact:
        d: float | None = rng.choice(_DYADIC_D)

        def val() -> float:
            return rng.choice(_POW2)
    else:
        d = None if rng.random() < 0.7 else rng.choice([1e-3, 1e-5, 2.0**-10])

        def val() -> float:
            return round(rng.uniform(0.2, 3.0), 3) * rng.choice([1, 1, 1, -1])

    rxns = []
    for i in range(rng.randint(1, 4)):
        # most reactions read a computed parameter; some read plain parameters only
        names = [rng.choice(cnames if (cnames and (i == 0 or rng.random() < 0.7)) else ps)]
        names += [rng.choice(vs + vs + ps + cnames) for _ in range(rng.randint(0, 2))]
        fs, total = [], 0
        for a in names:
            n = min(rng.choice([1, 1, 1, 2, 0]), 3 - total)
            total += n
            fs.append((a, n))
        rxns.append(fs)
    ia_vars = {}
    if rng.random() < 0.4:
        x = rng.choice(vs)
        ia_vars[x] = [(rng.choice(ps + [c[0] for c in comp if c[1] == "ia"]), 1)]
    net = {"pars": {p: val() for p in ps}, "comp": comp, "vars": {v: val() for v in vs}, "ia_vars": ia_vars, "rxns": rxns}
    names = vs if kind == "var" else ps
    to_scan = None
    if kind == "par" and n_ia > 0:
        to_scan = list(ps)  # an assignment-defined parameter is not an independent parameter: not scanned
        if rng.random() < 0.4:
            to_scan = rng.sample(ps, rng.randint(1, len(ps)))
    elif rng.random() < 0.35:
        to_scan = rng.sample(names, rng.randint(1, len(names)))
    variables = None
    if rng.random() < 0.45:
        variables = {v: val() for v in vs}
    return {"kind": kind, "net": net, "to_scan": to_scan, "variables": variables, "time": rng.choice([0, 0, 1.5]),
            "normalized": normalized, "d": d, "indirect": True}


def _m(*fs):
    return [tuple(f) for f in fs]


# fixed cases first: monomial versions of the networks in which the seeded changes C18-7 show
IELAST_CORPUS = [
    # v0 = kr * x1 with kr = k0 / k1 (derived), v1 = vmax * x1 with vmax = k2 * k3 (derived), v2 = k0 * x0 (plain)
    {"kind": "par", "net": {"pars": {"k0": 3.0, "k1": 4.0, "k2": 5.0, "k3": 0.25},
                            "comp": [["q0", "der", _m(("k0", 1)), _m(("k1", 1))], ["q1", "der", _m(("k2", 1), ("k3", 1)), []]],
                            "vars": {"x0": 2.0, "x1": 0.5}, "ia_vars": {},
                            "rxns": [_m(("q0", 1), ("x1", 1)), _m(("q1", 1), ("x1", 1)), _m(("k0", 1), ("x0", 1))]},
     "to_scan": None, "variables": {"x0": 2.0, "x1": 0.5}, "time": 0, "normalized": True, "d": None, "indirect": True},
    # the same unscaled, and a parameter given by an initial assignment a0 := k2 * k3
    {"kind": "par", "net": {"pars": {"k0": 3.0, "k1": 4.0, "k2": 5.0, "k3": 0.25},
                            "comp": [["a0", "ia", _m(("k2", 1), ("k3", 1)), []], ["q0", "der", _m(("k0", 1), ("a0", 1)), _m(("k1", 2))]],
                            "vars": {"x0": 2.0, "x1": 0.5}, "ia_vars": {},
                            "rxns": [_m(("q0", 1), ("x1", 1)), _m(("a0", 1), ("x1", 2)), _m(("k0", 1), ("x0", 1), ("q0", 1))]},
     "to_scan": ["k3", "k1", "k0", "k2"], "variables": None, "time": 0, "normalized": False, "d": None, "indirect": True},
]


# ---------------------------------------------------------------------------------------
# response coefficients: families with a closed-form steady state
# ---------------------------------------------------------------------------------------


def steady_state(net: dict, base: dict[str, Fraction], y0: dict | None) -> dict[str, Fraction]:
    """{x_i: ..., v_j: ...} of the generated families, from the written-out balance equations."""
    env = eval_names(net, base)
    rates = [env[r] for r in net["rates"]]
    out: dict[str, Fraction] = {}
    if net["family"] == "icycle":
        # v0 = c0 x0 (x0 -> x1), v1 = c1 x1 (x1 -> x0); total T = x0(0) + x1(0), assignments evaluated, y0 applied
        init = eval_inits(net, env, y0)
        T = init["x0"] + init["x1"]
        c0, c1 = rates
        out["x0"], out["x1"] = T * c1 / (c0 + c1), T * c0 / (c0 + c1)
        out["v0"] = out["v1"] = T * c0 * c1 / (c0 + c1)
        return out
    # ichain:  v0 = c0: -> x0;  v_i = c_i x_(i-1): x_(i-1) -> y_i x_i  (the last one drains);  dx_i/dt = y_i v_i - v_(i+1)
    n = len(rates) - 1
    out["v0"] = rates[0]
    prev_flux = rates[0]
    for i in range(n):
        y = Fraction(1)
        if i > 0:
            c = net["yields"][i]
            y = mono_value(c[1], env) if isinstance(c, (list, tuple)) else _F(c)
        out[f"x{i}"] = y * prev_flux / rates[i + 1]
        out[f"v{i + 1}"] = rates[i + 1] * out[f"x{i}"]
        prev_flux = out[f"v{i + 1}"]
    return out


_H = Fraction(1, 10**9)


def sensitivity(net: dict, base: dict[str, Fraction], y0: dict | None, row: str, p: str, normalized: bool) -> Fraction:
    """d row / d p (optionally * p / row) of the closed form; exact rational central difference, relative step 1e-9."""
    k = base[p]
    up = steady_state(net, base | {p: k * (1 + _H)}, y0)[row]
    lo = steady_state(net, base | {p: k * (1 - _H)}, y0)[row]
    der = (up - lo) / (2 * _H * k)
    if not normalized:
        return der
    return der * k / steady_state(net, base, y0)[row]


def _rate_expr(rng, fresh, comp: list, tag: str):
    """a rate 'constant': a plain parameter, an initial-assignment parameter or a derived parameter (monomial / quotient
    of fresh base parameters).  Returns the name the reaction reads."""
    r = rng.random()
    if r < 0.35:
        return fresh()
    a, b = fresh(), fresh()
    if r < 0.65:
        name = f"a{sum(1 for c in comp if c[1] == 'ia')}"
        comp.append([name, "ia", [(a, 1), (b, 1)], []])
        return name
    name = f"q{sum(1 for c in comp if c[1] == 'der')}"
    if rng.random() < 0.5:
        comp.append([name, "der", [(a, 1), (b, 1)], []])
    else:
        comp.append([name, "der", [(a, 1)], [(b, 1)]])
    return name


def gen_iresp_case(rng, exact_d: bool) -> dict:
    pars: dict[str, float] = {}

    def fresh() -> str:
        name = f"k{len(pars)}"
        pars[name] = rng.choice(_DY)
        return name

    comp: list = []
    family = "icycle" if rng.random() < 0.45 else "ichain"
    if family == "icycle":
        rates = [_rate_expr(rng, fresh, comp, "c0"), _rate_expr(rng, fresh, comp, "c1")]
        tot = fresh()  # the parameter an initial value is assigned from
        ia_vars = {}
        r = rng.random()
        if r < 0.8:
            ia_vars[rng.choice(["x0", "x1"])] = [(tot, 1)]
        elif r < 0.9:
            ia_vars["x0"] = [(tot, 1)]
            ia_vars["x1"] = [(tot, 1), (rng.choice(list(pars)), 1)]
        net = {"pars": pars, "comp": comp, "vars": {"x0": rng.choice(_DY), "x1": rng.choice(_DY)}, "ia_vars": ia_vars,
               "rxns": [[(rates[0], 1), ("x0", 1)], [(rates[1], 1), ("x1", 1)]],
               "stoich": {0: {"x0": -1.0, "x1": 1.0}, 1: {"x1": -1.0, "x0": 1.0}}, "family": family, "rates": rates}
        vs = ["x0", "x1"]
    else:
        n = rng.randint(1, 2)
        rates = [_rate_expr(rng, fresh, comp, f"c{i}") for i in range(n + 1)]
        vs = [f"x{i}" for i in range(n)]
        stoich: dict[int, dict] = {0: {"x0": 1.0}}
        yields: dict[int, Any] = {}
        for i in range(n):
            st: dict[str, Any] = {f"x{i}": -1.0}
            if i + 1 < n:
                r = rng.random()
                if r < 0.55:
                    yields[i + 1] = ["der", [(fresh(), 1)]]   # A -> n B, n a parameter used ONLY as stoichiometry
                elif r < 0.75:
                    yields[i + 1] = 2.0
                else:
                    yields[i + 1] = 1.0
                st[f"x{i + 1}"] = yields[i + 1]
            stoich[i + 1] = st
        ia_vars = {}
        if rng.random() < 0.4:
            ia_vars[rng.choice(vs)] = [(rng.choice(list(pars)), 1)]
        net = {"pars": pars, "comp": comp, "vars": {v: rng.choice(_DY) for v in vs}, "ia_vars": ia_vars,
               "rxns": [[(rates[0], 1)]] + [[(rates[i + 1], 1), (f"x{i}", 1)] for i in range(n)],
               "stoich": stoich, "family": family, "rates": rates, "yields": yields}
    if rng.random() < 0.35:
        fresh()  # a parameter nothing depends on: all its coefficients are 0
    ps = list(pars)
    to_scan = list(ps)
    rng.shuffle(to_scan)
    if rng.random() < 0.3:
        to_scan = to_scan[: rng.randint(1, len(to_scan))]
    y0 = None
    if rng.random() < 0.65:
        y0 = {v: rng.choice([0.5, 1.0, 2.0, 5.0]) for v in rng.sample(vs, rng.randint(1, len(vs)))}
        if family == "icycle" and len(y0) == 2 and rng.random() < 0.7:
            y0.pop(rng.choice(list(y0)))
    d = (rng.choice(_DYADIC_D[:2]) if exact_d else (None if rng.random() < 0.7 else 1e-3))
    return {"net": net, "to_scan": to_scan, "y0": y0, "normalized": rng.random() < 0.6, "d": d, "indirect": True}


IRESP_CORPUS = [
    # conserved cycle, x0(0) := k2, the caller overrides only x1; k2 scanned LAST (seeded C18-8)
    {"net": {"pars": {"k0": 1.0, "k1": 3.0, "k2": 2.0}, "comp": [], "vars": {"x0": 1.0, "x1": 0.0}, "ia_vars": {"x0": [("k2", 1)]},
             "rxns": [[("k0", 1), ("x0", 1)], [("k1", 1), ("x1", 1)]], "stoich": {0: {"x0": -1.0, "x1": 1.0}, 1: {"x1": -1.0, "x0": 1.0}},
             "family": "icycle", "rates": ["k0", "k1"]},
     "to_scan": ["k0", "k1", "k2"], "y0": {"x1": 0.5}, "normalized": True, "d": None, "indirect": True},
    # -> x0 -> n x1 ->  with the yield n = k3 used only as a stoichiometric coefficient; k4 unused (seeded C18-9 a)
    {"net": {"pars": {"k0": 2.0, "k1": 4.0, "k2": 0.5, "k3": 3.0, "k4": 1.0}, "comp": [], "vars": {"x0": 1.0, "x1": 1.0}, "ia_vars": {},
             "rxns": [[("k0", 1)], [("k1", 1), ("x0", 1)], [("k2", 1), ("x1", 1)]],
             "stoich": {0: {"x0": 1.0}, 1: {"x0": -1.0, "x1": ["der", [("k3", 1)]]}, 2: {"x1": -1.0}},
             "family": "ichain", "rates": ["k0", "k1", "k2"], "yields": {1: ["der", [("k3", 1)]]}},
     "to_scan": ["k0", "k1", "k2", "k3", "k4"], "y0": None, "normalized": True, "d": None, "indirect": True},
    # -> x0 ->  with k1 := kcat * e_tot given by an initial assignment (seeded C18-9 b), unscaled
    {"net": {"pars": {"k0": 2.0, "k1": 8.0, "k2": 0.5, "k3": 1.0}, "comp": [["a0", "ia", [("k1", 1), ("k2", 1)], []]], "vars": {"x0": 1.0}, "ia_vars": {},
             "rxns": [[("k0", 1)], [("a0", 1), ("x0", 1)]], "stoich": {0: {"x0": 1.0}, 1: {"x0": -1.0}},
             "family": "ichain", "rates": ["k0", "a0"], "yields": {}},
     "to_scan": ["k0", "k1", "k2", "k3"], "y0": None, "normalized": False, "d": None, "indirect": True},
]


def expected_trace(case: dict) -> list[dict]:
    """what every steady-state run of the sequential execution must see: per scanned parameter the two displaced values
    and (normalised) the original one; the evaluated initial values FOLLOW the perturbed parameter, y0 applied."""
    net = case["net"]
    d = 1e-4 if case["d"] is None else float(case["d"])
    out = []
    for p in case["to_scan"]:
        old = float(net["pars"][p])
        points = [old * (1 + d), old * (1 - d)] + ([old] if case["normalized"] else [])
        for val in points:
            pars = {k: float(v) for k, v in net["pars"].items()} | {p: val}
            env = eval_names(net, {k: _F(v) for k, v in pars.items()})
            out.append({"pars": pars, "inits": eval_inits(net, env, case["y0"])})
    return out


def iresp_oracle(case: dict, seq: dict, par: dict | None) -> tuple[str | None, dict]:
    from harness import c18 as base_mod

    stats = {"cells": 0, "nan_cells": 0, "indirect_cells": 0, "trace_points": 0}
    net = case["net"]
    for mode, res in (("sequential", seq), ("parallel", par)):
        if res is None:
            continue
        bad = base_mod.untouched(res["before"], res["after"])
        if bad:
            return f"response_coefficients ({mode}) left the model changed: {bad}", stats
    if seq["out"][0] != "Ok":
        return f"response_coefficients (sequential) raised {seq['out'][0]} on a well-formed network", stats
    if par is not None:
        if par["out"][0] != "Ok":
            return f"response_coefficients (parallel) raised {par['out'][0]} although the sequential run succeeds", stats
        if not (base_mod._tables_close(seq["out"][1], par["out"][1], rtol=1e-6, atol=1e-9)
                and base_mod._tables_close(seq["out"][2], par["out"][2], rtol=1e-6, atol=1e-9)):
            return "response_coefficients: sequential and parallel execution return different coefficients", stats
    scan = case["to_scan"]
    _, ctab, ftab, cidx, fidx = seq["out"]
    if [c for c, _ in ctab] != list(dict.fromkeys(scan)) or [c for c, _ in ftab] != list(dict.fromkeys(scan)) \
            or cidx != list(net["vars"]) or fidx != [f"v{i}" for i in range(len(net["rxns"]))]:
        return f"result axes wrong: columns {[c for c, _ in ctab]} / {[c for c, _ in ftab]} rows {cidx} / {fidx}", stats
    base = {k: _F(v) for k, v in net["pars"].items()}
    for tab, rows in ((ctab, cidx), (ftab, fidx)):
        for p, cells_ in tab:
            direct = any(a == p for fs in net["rxns"] for a, _ in fs)
            for r, got in zip(rows, cells_):
                stats["cells"] += 1
                if not direct:
                    stats["indirect_cells"] += 1
                if got is None:
                    stats["nan_cells"] += 1
                    continue
                exp = float(sensitivity(net, base, case["y0"], r, p, case["normalized"]))
                if abs(got - exp) > 5e-2 * max(1.0, abs(exp)):
                    how = "" if direct else " (the parameter acts only through a computed parameter / an assigned initial value / a stoichiometric coefficient)"
                    return (f"response coefficient of {r} w.r.t. {p} is {got}, analytic steady-state sensitivity is {exp}{how}"), stats
    # the model content at every steady-state run of the sequential execution
    if seq.get("trace"):
        exp_tr = expected_trace(case)
        # (a routine that needs fewer / other runs is judged by its coefficients above, not by the number of runs)
        for j, (got, exp) in enumerate(zip(seq["trace"], exp_tr) if len(seq["trace"]) == len(exp_tr) else []):
            stats["trace_points"] += 1
            gp = dict(got["pars"])
            if gp != exp["pars"]:
                return f"steady-state run {j} of the sequential execution saw parameters {gp}, expected {exp['pars']}", stats
            gi = dict(got["inits"])
            for x, v in exp["inits"].items():
                if x not in gi or abs(gi[x] - float(v)) > 1e-12 * max(1.0, abs(float(v))):
                    return (f"steady-state run {j} of the sequential execution started from {x}(0) = {gi.get(x)}, but with the "
                            f"parameters of that run the (assigned) initial value is {float(v)} "
                            f"(parameters {gp}, y0 {case['y0']})"), stats
    return None, stats


# ---------------------------------------------------------------------------------------
# Gallina printers (names a<i> = 300+i, q<i> = 400+i are added to c18.code_of)
# ---------------------------------------------------------------------------------------


def c_comp(net: dict) -> str:
    from harness import common
    from harness import c18 as base_mod

    def mono(fs):
        return common.clist(f"({common.cn(base_mod.code_of(a))}, {common.cnat(n)})" for a, n in fs)

    return common.clist(f"({common.cn(base_mod.code_of(nm))}, {mono(num)}, {mono(den)})" for nm, _k, num, den in net["comp"])


def coq_ielast_case(case: dict, res: dict) -> str:
    from harness import c18 as base_mod
    from harness.common import cbool, copt, cq

    net = case["net"]
    scan = case["to_scan"] if case["to_scan"] is not None else (list(net["vars"]) if case["kind"] == "var" else list(net["pars"]))
    variables = copt(base_mod.c_alist(case["variables"].items())) if case["variables"] is not None else "None"
    exp = copt(base_mod.c_table(res["out"][1])) if res["out"][0] == "Ok" else "None"
    return (f"(({c_comp(net)}, {base_mod.c_net(net)}, {base_mod.c_state(res['before'])}, {variables}, {base_mod.c_names(scan)}), "
            f"({cq(_F(case['d']))}, {cbool(case['normalized'])}), ({exp}, {base_mod.c_state(res['after'])}))")


def corr_file(var_cases: list[str], par_cases: list[str]) -> str:
    def lst(xs):
        return "[\n  " + ";\n  ".join(xs) + "\n]" if xs else "[]"

    return (
        "From Coq Require Import QArith List NArith Bool.\nFrom MxlBase Require Import ListX.\n"
        "From Mca Require Import Mca GenMcaFacts McaIndirect.\nImport ListNotations.\nOpen Scope Q_scope.\n"
        "Definition icase := (list cpar * list plrxn * mstate * option alist * list name * (Q * bool) * (option (list (name * list cell)) * mstate))%type.\n"
        f"Definition var_cases : list icase := {lst(var_cases)}.\n"
        f"Definition par_cases : list icase := {lst(par_cases)}.\n"
        "Definition var_ok (c : icase) : bool := match c with (cps, net, st, vs, scan, (d, nrm), (exp, st_after)) =>\n"
        "  state_eqb st st_after &&\n"
        "  match var_elast gen_mca_facts (ifluxes cps net) d nrm vs scan st, exp with\n"
        "  | Some t, Some e => table_eqb t e | None, None => true | _, _ => false end end.\n"
        "Definition par_ok (c : icase) : bool := match c with (cps, net, st, vs, scan, (d, nrm), (exp, st_after)) =>\n"
        "  match par_elast gen_mca_facts (ifluxes cps net) d nrm vs scan st, exp with\n"
        "  | Some (st', t), Some e => table_eqb t e && state_eqb st' st_after | None, None => true | _, _ => false end end.\n"
        "Eval vm_compute in filter_idx (fun c => negb (var_ok c)) var_cases.\n"
        "Eval vm_compute in filter_idx (fun c => negb (par_ok c)) par_cases.\n"
    )


def deep(case: dict) -> dict:
    return copy.deepcopy(case)
