"""C06 corpus helper: the "slow" library -- imported LOCALLY by the witnesses of c06_corpus.py."""

from harness import c06_constsslow as consts  # noqa: F401


def scale(x):
    return 3.0 * x
