"""Function library shared by the correspondence checks (a REAL module file, so that
inspect.getsource works for fn_to_sympy / SBML export).  All functions are polynomial with small
integer coefficients: on small integer inputs every intermediate is exactly representable in
binary64, so implementation output can be compared EXACTLY with the Z-valued Gallina model
(coq/core/FnLib.v gives the same table as `fsem`).  Keep the two tables in sync: ids are the
positions in FNS."""

from __future__ import annotations


def f_id(a):
    return a


def f_neg(a):
    return -a


def f_add(a, b):
    return a + b


def f_sub(a, b):
    return a - b


def f_mul(a, b):
    return a * b


def f_lin(a, b, c):
    return a * b + c


def f_sq(a):
    return a * a


def f_poly2(a, b):
    return a * a - 3 * b + 1


def f_two():
    return 2


def f_ma2(s1, s2, k):
    return k * s1 * s2


def f_sum3(a, b, c):
    return a + b + c


# (python function, arity) by id; FnLib.v mirrors this table
FNS = [f_id, f_neg, f_add, f_sub, f_mul, f_lin, f_sq, f_poly2, f_two, f_ma2, f_sum3]
ARITY = [1, 1, 2, 2, 2, 3, 1, 2, 0, 3, 3]
BY_ARITY: dict[int, list[int]] = {}
for _i, _a in enumerate(ARITY):
    BY_ARITY.setdefault(_a, []).append(_i)


def fsem(fid: int, args: list[int]) -> int:
    """Reference meaning over exact integers (used by oracles)."""
    return FNS[fid](*args)


# ---- multi-output functions for MockSurrogate (FnLib.v: fsemN) ---------------------------


def m_one(a):
    return (a,)


def m_pair(a, b):
    return (a + b, a * b)


def m_triple(a):
    return (a, 2 * a, a * a)


def m_pair2(a, b):
    return (a - b, b)


MULTI = [m_one, m_pair, m_triple, m_pair2]
MULTI_ARITY = [1, 2, 1, 2]
MULTI_OUT = [1, 2, 3, 2]


def fsemN(fid: int, args: list[int]) -> list[int]:
    return list(MULTI[fid](*args))
