"""C17 -- several documents read in ONE interpreter session, in a process of their own.

The file stem of a document becomes the name of the generated module (file in ~/.cache/mxlpy and key in sys.modules).
Whatever that name is, the document must be imported like any other one and every document read before or after it in
the session must keep reproducing its own equations.  A session that goes wrong can damage the interpreter it runs in
(sys.modules), so harness/c17.py starts this driver as a subprocess per session.

usage: python -m harness.c17_session <input.json>      input {"steps": [{"stem", "doc", "states"}, ...]}
       -> one line `C17SESSION {"problems": [...], "modules_replaced": [...], "per_step": [...]}`
Each document is judged by harness.c17.judge (the independent reading of the document) right after it was read and
again after every later read.
"""

from __future__ import annotations

import json
import sys
from fractions import Fraction
from pathlib import Path

# modules whose sys.modules entry a read must leave alone: what the generated module imports, what mxlpy needs, and the
# standard modules whose names the stems of harness/c17_close3.py spell
WATCH = [
    "math", "scipy", "mxlpy", "sympy", "numpy", "pandas", "os", "sys", "re", "json", "typing", "warnings", "inspect", "pathlib",
    "importlib", "collections", "functools", "types", "abc", "keyword", "fractions", "random", "operator", "itertools", "dataclasses",
    "copy", "time", "string", "io", "enum", "cmath", "decimal",
]  # fmt: skip


def evaluate(m, states: list[dict[str, float]]) -> dict:  # noqa: ANN001
    """what harness.c17.judge looks at, for a model that is already built"""
    from harness import c17_impl as I  # noqa: E741, N812

    out: dict = {"obs": None, "extra": None}
    try:
        ic = dict(m.get_initial_conditions())
        per = []
        for st in states:
            args = m.get_args(variables=dict(st), time=0.0).to_dict()
            rhs = m.get_right_hand_side(variables=dict(st), time=0.0).to_dict()
            per.append((args, rhs))
        out["obs"] = ("Val", ic, per)
    except BaseException as e:  # noqa: BLE001
        out["obs"] = (I.classify(e), f"{type(e).__name__}: {e}"[:300])
        return out
    try:
        out["extra"] = I.extra_observations(m, states)
    except BaseException as e:  # noqa: BLE001
        out["extra_error"] = f"{type(e).__name__}: {e}"[:300]
    return out


def run_session(steps: list[dict], root: Path) -> dict:
    import importlib

    for name in WATCH:
        try:
            importlib.import_module(name)
        except Exception:  # noqa: BLE001, S110
            pass
    from harness import c17
    from harness import c17_impl as I  # noqa: E741, N812
    from harness import c17_sbml as S  # noqa: N812

    before = {name: sys.modules.get(name) for name in WATCH}
    problems: list[str] = []
    per_step: list[dict] = []
    live: list[tuple[str, dict, list, object]] = []
    for n, step in enumerate(steps):
        stem, doc = step["stem"], step["doc"]
        states = [{k: Fraction(v[0], v[1]) for k, v in st.items()} for st in step["states"]]
        p = root / f"s{n:02d}" / f"{stem}.xml"
        S.write_sbml(doc, p)
        res = I.run_read(p, c17.impl_states(states))
        probs = c17.judge(doc, res, states)
        per_step.append({"stem": stem, "outcome": res["obs"][0], "problems": probs[:4]})
        problems += [f"step {n} ({stem}.xml): {x}" for x in probs[:3]]
        # every document read earlier in the session, again
        for k, (stem0, doc0, states0, m0) in enumerate(live):
            again = c17.judge(doc0, evaluate(m0, c17.impl_states(states0)), states0)
            problems += [f"step {k} ({stem0}.xml) judged again after reading {stem}.xml: {x}" for x in again[:2]]
        if res.get("model") is not None:
            live.append((stem, doc, states, res["model"]))
        if len(problems) > 12:
            break
    replaced = sorted(name for name in WATCH if sys.modules.get(name) is not before[name])
    return {"problems": problems[:12], "modules_replaced": replaced, "per_step": per_step}


def main() -> int:
    import os
    import shutil
    import tempfile

    inp = json.loads(Path(sys.argv[1]).read_text())
    dumps, out_stream = json.dumps, sys.stdout
    root = Path(tempfile.mkdtemp(prefix="sess_", dir=os.environ.get("C17_SESSION_ROOT") or None))
    try:
        res = run_session(inp["steps"], root)
    except BaseException as e:  # noqa: BLE001
        res = {"problems": [f"the session driver itself failed: {type(e).__name__}: {e}"[:300]], "modules_replaced": [], "per_step": []}
    finally:
        shutil.rmtree(root, ignore_errors=True)
    out_stream.write("C17SESSION " + dumps(res) + "\n")
    out_stream.flush()
    return 0


if __name__ == "__main__":
    sys.exit(main())
