"""Mutation self-test of the C04 / C14 checks (development tool, not part of a registered command).

Does what tools/mutate.sh does -- copy /repo to /var/tmp, mutate, run ./check against the copy through
MXLPY_VERIF_REPO, delete the copy, regenerate the Gen files for /repo -- for a whole table of semantic
mutations of the anchored mechanism, and additionally records the REAL exit code of ./check and re-runs the first
replay file against the same mutated copy (`./check <ID> --replay <file>` must exit 1 there).

The base of every mutant is /repo plus every fixes/C04-*.diff that is not applied to /repo yet (so that the
only difference to a green tree is the mutation).  The reversal of each fix (`patch -R`) is part of the table.

usage:  cd /verif && /venv/bin/python -m harness.c04_mutations [ids...] [--tier quick]   (log: work/c04_mut.log)
"""

from __future__ import annotations

import json
import os
import re
import shutil
import subprocess
import sys
import time
from pathlib import Path

VERIF = Path("/verif")
REPO = Path("/repo")
SIM = "src/mxlpy/simulator.py"
INT = "src/mxlpy/integrators/int_scipy.py"
INIT = "src/mxlpy/__init__.py"
RES = "src/mxlpy/simulation.py"
FIXES = ["C04-timeshift.diff", "C04-override-twice.diff", "C04-override-time.diff"]

# id, properties to run, description, edits [(file, old, new, count)] or ("patch -R", diff)
MUTATIONS: list[tuple[str, list[str], str, list]] = [
    ("R1", ["C04"], "reverse fixes/C04-timeshift.diff (refusal test / filter in the mixed frame again)", [("patch -R", "C04-timeshift.diff")]),
    ("R2", ["C04"], "reverse fixes/C04-override-twice.diff (second override forgets the first)", [("patch -R", "C04-override-twice.diff")]),
    ("R3", ["C04", "C14"], "reverse fixes/C04-override-time.diff (model sees the shifted time after an override)", [("patch -R", "C04-override-time.diff")]),
    ("M1", ["C04"], "simulate: refusal `t_end <= prior_t_end` -> `<` (continuation to the time already reached accepted)",
     [(SIM, "        if t_end <= prior_t_end:", "        if t_end < prior_t_end:", 1)]),
    ("M2", ["C04"], "_handle_simulation_results: the shift back to absolute time dropped",
     [(SIM, "                if self._time_shift is not None:\n                    time += self._time_shift\n", "", 1)]),
    ("M3", ["C04", "C14"], "simulate: skipfirst=True -> False (the junction point is stored twice)",
     [(SIM, "self.integrator.integrate(t_end=t_end, steps=steps), skipfirst=True", "self.integrator.integrate(t_end=t_end, steps=steps), skipfirst=False", 1)]),
    ("M4", ["C04", "C14"], "Scipy.integrate_time_course: `self.y0 = y[-1]` dropped (every continuation restarts from a stale state)",
     [(INT, "            self.t0 = t[-1]\n            self.y0 = y[-1]\n", "            self.t0 = t[-1]\n", 1)]),
    ("M5", ["C04"], "Scipy.integrate: `steps + 1` -> `steps` (one grid point short)",
     [(INT, "steps = 100 if steps is None else steps + 1", "steps = 100 if steps is None else steps", 1)]),
    ("M6", ["C04"], "update_variables: `self._time_shift = t_last` dropped (stale shift after a second override)",
     [(SIM, "        self._time_shift = t_last\n", "", 1)]),
    ("M7", ["C04"], "simulate_time_course: refusal compares the FIRST point (`time_points[0] <= prior_t_end`)",
     [(SIM, "        if time_points[-1] <= prior_t_end:", "        if time_points[0] <= prior_t_end:", 1)]),
    ("M8", ["C04"], "clear_results: `_time_shift = None` dropped (a cleared simulator keeps the old shift)",
     [(SIM, "        self.simulation_parameters = None\n        self._time_shift = None\n", "        self.simulation_parameters = None\n", 1)]),
    ("M9", ["C14", "C04"], "simulate_protocol: `t_start + t_end.total_seconds()` -> `t_end.total_seconds()` (a continued protocol is not shifted)",
     [(SIM, "self.simulate(t_start + t_end.total_seconds(), steps=time_points_per_step)", "self.simulate(t_end.total_seconds(), steps=time_points_per_step)", 1)]),
    ("M10", ["C14"], "simulate_protocol_time_course: window `full_time_points > t_start` -> `>=` (boundary requested twice)",
     [(SIM, "(full_time_points > t_start) & (full_time_points <= t_end)", "(full_time_points >= t_start) & (full_time_points <= t_end)", 1)]),
    ("M11", ["C14"], "simulate_protocol_time_course: parameters applied AFTER the step's simulation (off by one step)",
     [(SIM, """            self.model.update_parameters(pars.to_dict())

            self.simulate_time_course(
                time_points=full_time_points[
                    (full_time_points > t_start) & (full_time_points <= t_end)
                ]
            )
""", """            self.simulate_time_course(
                time_points=full_time_points[
                    (full_time_points > t_start) & (full_time_points <= t_end)
                ]
            )
            self.model.update_parameters(pars.to_dict())
""", 1)]),
    ("M12", ["C14"], "make_protocol: step ends not cumulative (`t0 = Timedelta(step)` instead of `+=`)",
     [(INIT, "        t0 += pd.Timedelta(seconds=step)", "        t0 = pd.Timedelta(seconds=step)", 1)]),
    ("M13", ["C14"], "simulate_protocol_time_course: time_points_as_relative ignored",
     [(SIM, "        if time_points_as_relative:\n            time_points += t_start\n", "", 1)]),
    ("M14", ["C04"], "_handle_simulation_results: every segment records the FIRST segment's parameter dict (stale raw_parameters)",
     [(SIM, "                self.simulation_parameters.append(self.model.get_parameter_values())",
       "                self.simulation_parameters.append(\n                    self.simulation_parameters[0] if self.simulation_parameters else self.model.get_parameter_values()\n                )", 1)]),
    # --- added in the deepening pass (caller-owned arrays; refined steady-state guard)
    ("M15", ["C04"], "simulate_time_course: np.array -> np.asarray (the caller's ndarray is shifted in place after an override)",
     [(SIM, "        time_points = np.array(time_points, dtype=float)\n\n        # Check if end is actually larger",
       "        time_points = np.asarray(time_points, dtype=float)\n\n        # Check if end is actually larger", 1)]),
    ("M16", ["C04"], "simulate_to_steady_state: skipfirst=False -> True (the steady-state row is dropped when results exist)",
     [(SIM, "                rel_norm=rel_norm,\n            ),\n            skipfirst=False,", "                rel_norm=rel_norm,\n            ),\n            skipfirst=True,", 1)]),
    # --- added in the second deepening pass (steady-state stamp; views of get_result() read between calls)
    ("S4", ["C04"], "seeded/C04-4: _handle_simulation_results shifts back to absolute time only in the `elif skipfirst:` branch "
                    "(a steady-state row after an override is stamped in the restarted integrator's relative time)",
     [("patch", "/verif/seeded/C04-4/patch.diff")]),
    ("V1", ["C04"], "re-based seeded/C04-6 on the current tree: the final `update_parameters(raw_parameters[-1])` of "
                    "Simulation._get_fluxes_by_sign dropped (since b146866 nothing before it moves the model away from the last segment)",
     [(RES, "        self.model.update_parameters(self.raw_parameters[-1])\n        if concatenated:", "        if concatenated:", 1)]),
    ("V2", ["C04"], "seeded/C04-6 as it was confirmed: simulation.py of /repo commit c568b8a + seeded/C04-6/patch.diff transplanted "
                    "(get_producers/get_consumers start at the FIRST segment's parameters and no longer restore the last)",
     [("cmd", "git -C /repo show c568b8a:src/mxlpy/simulation.py > src/mxlpy/simulation.py && patch -p1 -s < /verif/seeded/C04-6/patch.diff")]),
    ("V3", ["C04"], "Simulation._compute_args leaves the shared model at the FIRST segment's parameters",
     [(RES, "                )\n            )\n        return self.raw_args\n",
       "                )\n            )\n        self.model.update_parameters(self.raw_parameters[0])\n        return self.raw_args\n", 1)]),
    ("V4", ["C04"], "Simulation.get_right_hand_side walks the segments LAST to FIRST (answers unchanged, the model is left at the first segment's parameters)",
     [(RES, "                for args, p in zip(args_by_simulation, self.raw_parameters, strict=True)\n            ],",
       "                for args, p in reversed(list(zip(args_by_simulation, self.raw_parameters, strict=True)))\n            ][::-1],", 1)]),
    # --- added with the family gen_late_switch (C14: dense sampling right after a switch, late in absolute time)
    ("T1", ["C14", "C04"], "seeded/C14-4 (= C04-2): Scipy.integrate_time_course prepends t0 unless np.isclose(time_points[0], t0) "
                           "(rtol 1e-5: at t >= ~800 a sample 2^-7 after a switch is taken for the switch itself)",
     [("patch", "/verif/seeded/C14-4/patch.diff")]),
    ("T2", ["C14"], "Scipy.integrate_time_course: ABSOLUTE tolerance, `abs(time_points[0] - self.t0) > 1e-4` (independent of the absolute "
                    "time; only samples closer than 1e-4 to a switch are lost)",
     [(INT, "        if time_points[0] != self.t0:", "        if abs(time_points[0] - self.t0) > 1e-4:", 1)]),
    # --- added in the closing pass for seeded/C04-8 (a failed run, clear_results, a fresh run)
    ("S8", ["C04"], "seeded/C04-8: __init__ / clear_results share a helper _drop_results() that leaves _errors alone "
                    "(clear_results no longer forgets a recorded failure: the cleared simulator stays inert)",
     [("patch", "/verif/seeded/C04-8/patch.diff")]),
    ("F1", ["C04"], "clear_results: `self._errors = []` dropped (the one-line form of seeded/C04-8)",
     [(SIM, "        self._time_shift = None\n        self._errors = []\n        self._initialise_integrator()", "        self._time_shift = None\n        self._initialise_integrator()", 1)]),
    ("F2", ["C04"], "clear_results: `self._initialise_integrator()` dropped (the cleared simulator goes on from the old integrator state)",
     [(SIM, "        self._time_shift = None\n        self._errors = []\n        self._initialise_integrator()", "        self._time_shift = None\n        self._errors = []", 1)]),
    ("T3", ["C14"], "Scipy.integrate_time_course: math.isclose with rel_tol=1e-7 (`not math.isclose(time_points[0], self.t0, rel_tol=1e-7)`)",
     [(INT, "        if time_points[0] != self.t0:", "        if not __import__('math').isclose(time_points[0], self.t0, rel_tol=1e-7):", 1)]),
    # the protocol TABLE (closing pass for seeded/C14-8): how a step's values get into its row
    ("K1", ["C14"], "seeded/C14-8: make_protocol builds rows from list(pars.values()) under the first step's key order (recognised: RowsPositional)",
     [("patch", "/verif/seeded/C14-8/patch.diff")]),
    ("K2", ["C14"], "make_protocol: every step re-keyed by the first step's key order (`dict(zip(steps[0][1], pars.values()))`; unrecognised shape)",
     [(INIT, "        data[t0] = pars\n", "        data[t0] = dict(zip(steps[0][1], pars.values()))\n", 1)]),
    ("K3", ["C14"], "make_protocol: the table's columns sorted and the rows relabelled with the first step's key order "
     "(`protocol = protocol[sorted(protocol.columns)]; protocol.columns = list(steps[0][1])`)",
     [(INIT, "    protocol.index.name = \"Timedelta\"\n",
       "    protocol.index.name = \"Timedelta\"\n    protocol = protocol[sorted(protocol.columns)]\n    protocol.columns = list(steps[0][1])\n", 1)]),
]


def sh(cmd: list[str] | str, **kw) -> subprocess.CompletedProcess:  # noqa: ANN003
    return subprocess.run(cmd, shell=isinstance(cmd, str), capture_output=True, text=True, **kw)  # noqa: S603


def make_copy(dst: Path) -> None:
    shutil.rmtree(dst, ignore_errors=True)
    dst.mkdir(parents=True)
    sh(["rsync", "-a", "--exclude", ".git", "--exclude", "docs", "--exclude", "publication-figures", "--exclude", "tests", f"{REPO}/", f"{dst}/"])
    for fx in FIXES:  # bring the copy to the fully repaired state
        d = VERIF / "fixes" / fx
        if sh(f"patch -p1 -s --dry-run -R < {d}", cwd=dst).returncode != 0:  # not applied yet
            r = sh(f"patch -p1 -s < {d}", cwd=dst)
            if r.returncode != 0:
                raise SystemExit(f"cannot apply {fx}: {r.stdout}{r.stderr}")


def mutate(dst: Path, edits: list) -> None:
    for e in edits:
        if e[0] == "patch -R":
            r = sh(f"patch -p1 -s -R < {VERIF / 'fixes' / e[1]}", cwd=dst)
            if r.returncode != 0:
                raise SystemExit(f"patch -R {e[1]} failed: {r.stdout}{r.stderr}")
            continue
        if e[0] == "patch":
            r = sh(f"patch -p1 -s < {e[1]}", cwd=dst)
            if r.returncode != 0:
                raise SystemExit(f"patch {e[1]} failed: {r.stdout}{r.stderr}")
            continue
        if e[0] == "cmd":
            r = sh(e[1], cwd=dst)
            if r.returncode != 0:
                raise SystemExit(f"{e[1]} failed: {r.stdout}{r.stderr}")
            continue
        f, old, new, count = e
        p = dst / f
        s = p.read_text()
        if s.count(old) != count:
            raise SystemExit(f"mutation anchor occurs {s.count(old)} times in {f}: {old!r}")
        p.write_text(s.replace(old, new))


def run_one(mid: str, props: list[str], what: str, edits: list, tier: str, log) -> list[dict]:  # noqa: ANN001
    dst = Path(f"/var/tmp/mxlpy-C04-mut-{os.getpid()}")
    make_copy(dst)
    out = []
    try:
        mutate(dst, edits)
        env = dict(os.environ, MXLPY_VERIF_REPO=str(dst))
        for prop in props:
            t0 = time.time()
            r = sh([str(VERIF / "check"), prop, "--tier", tier], cwd=VERIF, env=env)
            txt = r.stdout + r.stderr
            viol = [l for l in txt.splitlines() if l.startswith("VIOLATION")]
            msgs = [l for l in txt.splitlines() if l.startswith(f"[{prop}] {prop}:")]
            summ = [l for l in txt.splitlines() if l.startswith(f"[{prop}] tier=")]
            rep_exit = None
            concrete = bool(viol) and not viol[0].endswith("no-failing-input-found")
            if concrete:
                m = re.search(r"replay=(\S+)", viol[0])
                rr = sh([str(VERIF / "check"), prop, "--replay", m.group(1)], cwd=VERIF, env=env)
                rep_exit = rr.returncode
            ev = json.loads((VERIF / "evidence" / f"{prop}.json").read_text())
            rec = {"id": mid, "prop": prop, "what": what, "exit": r.returncode, "violations": len(viol), "concrete": concrete,
                   "replay_exit": rep_exit, "first": (msgs[0][:400] if msgs else (viol[0] if viol else "")),
                   "broken_obligations": len((ev.get("coverage", {}) or {}).get("broken_obligations", []) or []),
                   "broken_correspondence": len((ev.get("coverage", {}) or {}).get("broken_correspondence", []) or []),
                   "mismatches": (ev.get("coverage", {}) or {}).get("correspondence_mismatches"),
                   "summary": summ[-1] if summ else "", "wall": round(time.time() - t0, 1)}
            out.append(rec)
            log.write(json.dumps(rec) + "\n")
            log.flush()
            print(json.dumps(rec)[:900], flush=True)
    finally:
        shutil.rmtree(dst, ignore_errors=True)
    return out


def main() -> None:
    args = [a for a in sys.argv[1:] if not a.startswith("--")]
    tier = "quick"
    if "--tier" in sys.argv:
        tier = sys.argv[sys.argv.index("--tier") + 1]
        args = [a for a in args if a != tier]
    (VERIF / "work").mkdir(exist_ok=True)
    with (VERIF / "work" / "c04_mut.log").open("a") as log:
        for mid, props, what, edits in MUTATIONS:
            if args and mid not in args:
                continue
            run_one(mid, props, what, edits, tier, log)
    # Gen file of THIS area back to /repo's facts (not `./check --regen`: that rewrites every area's Gen files and can
    # race with other engineers' runs against scratch copies)
    sh([sys.executable, "-c", "from harness import c04; c04.gen()"], cwd=VERIF,
       env=dict(os.environ, MXLPY_VERIF_REPO=str(REPO), PYTHONPATH=f"{REPO}/src:{VERIF}"))


if __name__ == "__main__":
    main()
