#!/bin/bash
# harness/c05_mutations.sh <C05|C16> <mutation name>...   (development tool, not a registered command)
# Like tools/mutate.sh with harness/c05_mutations.py, but several mutations in a row and WITHOUT the final
# `./check --regen` (which rewrites every area's Gen files while other engineers' checks run): only the label
# area's facts are regenerated from /repo at the end.  Never run while another C05/C16 check is running.
PROP="$1"; shift
mkdir -p /verif/work/c05mut
for N in "$@"; do
  D=/var/tmp/mxlpy-C05-mut-$$; rm -rf "$D"; mkdir -p "$D"
  rsync -a --exclude .git --exclude docs --exclude publication-figures /repo/ "$D/"
  (cd "$D" && MUTNAME="$N" python3 /verif/harness/c05_mutations.py) || { echo "$N: mutation script failed"; rm -rf "$D"; continue; }
  LOG=/verif/work/c05mut/$PROP-$N.log
  MXLPY_VERIF_REPO="$D" /verif/check "$PROP" --tier quick > "$LOG" 2>&1; RC=$?
  echo "== $N exit=$RC"
  grep -E "^\[$PROP\] (LabelMapper|LinearLabelMapper|model/implementation)|^VIOLATION|obligations=" "$LOG" | cut -c1-330 | head -5
  R=$(grep -m1 -oE "replay=[^ ]+" "$LOG" | cut -d= -f2)
  if [ -n "$R" ] && [ -f "$R" ]; then
    cp "$R" /verif/work/c05mut/$PROP-$N.replay.json
    MXLPY_VERIF_REPO="$D" /verif/check "$PROP" --replay /verif/work/c05mut/$PROP-$N.replay.json > /verif/work/c05mut/$PROP-$N.replay.log 2>&1; echo "   replay on the mutated copy: exit=$?"
    MXLPY_VERIF_REPO=/repo /verif/check "$PROP" --replay /verif/work/c05mut/$PROP-$N.replay.json > /verif/work/c05mut/$PROP-$N.replay0.log 2>&1; echo "   replay on /repo: exit=$?"
  fi
  rm -rf "$D"
done
(cd /verif && PYTHONPATH=/repo/src:/verif MXLPY_VERIF_REPO=/repo /venv/bin/python -c "from harness import c05_label as L; L.gen()" > /dev/null 2>&1)
