"""C06 corpus helper: the `consts` submodule of the "fast" library (see c06_corpus.py, local-import witnesses)."""

K = 2.0


def sat(x):
    return x / (2.0 + x)
