"""Rate/assignment functions for the C09 checks (a real module: picklable by reference, so the
same functions run in pebble's worker processes).  Polynomial with small coefficients: exact on
small integers in binary64.  coq/scan/ScanModel.v::fsem is the same table (ids = positions)."""

from __future__ import annotations


def g_id(a):
    return a


def g_add(a, b):
    return a + b


def g_sub(a, b):
    return a - b


def g_mul(a, b):
    return a * b


def g_lin(a, b, c):
    return a * b + c


def g_sq(a):
    return a * a


def g_two():
    return 2.0


def g_guard(a, b):
    """a, but raises ZeroDivisionError when b == 0 (Python floats)"""
    return a * (b / b)


def g_ma2(s1, s2, k):
    return k * s1 * s2


def g_neg(a):
    return -a


FNS = [g_id, g_add, g_sub, g_mul, g_lin, g_sq, g_two, g_guard, g_ma2, g_neg]
ARITY = [1, 2, 2, 2, 3, 1, 0, 2, 3, 1]
BY_ARITY: dict[int, list[int]] = {}
for _i, _a in enumerate(ARITY):
    BY_ARITY.setdefault(_a, []).append(_i)
