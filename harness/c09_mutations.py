"""Mutations for the C09 self-test:  MUTNAME=<name> tools/mutate.sh C09 harness/c09_mutations.py
(run with the scratch copy of /repo as working directory).  Names ending in `_fixed` first apply the two
proposed repairs (fixes/C09-tc-placeholder-start-point.diff, fixes/C09-duplicate-labels-refused.diff; both are in /repo by now)
and are meant to be run with the switches in `repaired` mode (tools/c09_switch.py tc|dups repaired).  `cache_fixed` and
`cache_check_only_scan_fixed` apply fixes/C09-cached-steady-state-unique-index.diff and need `tools/c09_switch.py cache repaired`
(flip back to `snapshot` afterwards while the diff is not applied to /repo)."""
import os
import subprocess
import sys
from pathlib import Path

name = os.environ.get("MUTNAME", "")


def sub(path: str, old: str, new: str, count: int = 1) -> None:
    p = Path(path)
    s = p.read_text()
    if s.count(old) != count:
        sys.exit(f"mutation {name}: expected {count} occurrence(s) of {old!r} in {path}, found {s.count(old)}")
    p.write_text(s.replace(old, new))


if name.endswith("_fixed"):
    for d in ("C09-tc-placeholder-start-point", "C09-duplicate-labels-refused"):
        # both are applied in /repo since fe02afa / eada00b: apply only where they still apply
        if subprocess.run(["patch", "-p1", "-s", "-N", "--dry-run", "-i", f"/verif/fixes/{d}.diff"], capture_output=True).returncode == 0:
            subprocess.run(["patch", "-p1", "-s", "-i", f"/verif/fixes/{d}.diff"], check=True)

if name == "reverse_dict":            # time-course results come back in reverse input order
    sub("src/mxlpy/scan.py", "    return TimeCourseScan(\n        to_scan=to_scan,\n        raw_results=dict(res),",
        "    return TimeCourseScan(\n        to_scan=to_scan,\n        raw_results=dict(reversed(res)),")
elif name == "pool_prepend":          # the pool's results are collected newest first
    sub("src/mxlpy/parallel.py", "                    results.append((key, value))", "                    results.insert(0, (key, value))")
elif name == "mc_wrong_index":        # mc.steady_state labels the rows with the table's index instead of its values
    sub("src/mxlpy/mc.py", "            pd.Index(mc_to_scan.iloc[:, 0])\n            if mc_to_scan.shape[1] == 1", "            mc_to_scan.index\n            if mc_to_scan.shape[1] == 1")
elif name == "ss_placeholder_two":    # steady-state placeholder with two rows
    sub("src/mxlpy/scan.py", "lambda: Simulation.default(model=model, time_points=np.array([0.0]))",
        "lambda: Simulation.default(model=model, time_points=np.array([0.0, 1.0]))")
elif name == "tc_start_gt1_fixed":    # the repaired worker prepends t0 only when the first point is later than 1
    sub("src/mxlpy/scan.py", "    if time_points[0] != 0.0:\n        time_points = np.insert(time_points, 0, 0.0)",
        "    if time_points[0] > 1.0:\n        time_points = np.insert(time_points, 0, 0.0)")
elif name == "ptc_keeps_beyond_fixed":  # the repaired ptc worker keeps points beyond the protocol
    sub("src/mxlpy/scan.py", "grid[(grid > 0.0) & (grid <= t_ends[-1])]", "grid[grid > 0.0]")
elif name == "mc_protocol_unchecked_fixed":  # one entry point forgets the index test
    sub("src/mxlpy/mc.py", "    _require_unique_index(mc_to_scan)\n\n    if y0 is not None:\n        model.update_variables(y0)\n\n    res = parallelise(\n        partial(\n            _update_parameters_and_initial_conditions,\n            fn=partial(\n                worker,\n                protocol=protocol,\n                integrator=integrator,\n                y0=None,\n                time_points_per_step",
        "    if y0 is not None:\n        model.update_variables(y0)\n\n    res = parallelise(\n        partial(\n            _update_parameters_and_initial_conditions,\n            fn=partial(\n                worker,\n                protocol=protocol,\n                integrator=integrator,\n                y0=None,\n                time_points_per_step")
elif name == "unique_check_inverted_fixed":  # the index test refuses the tables it should accept
    sub("src/mxlpy/scan.py", "    if not to_scan.index.is_unique:", "    if to_scan.index.is_unique and len(to_scan) > 3:")
elif name == "mc_y0_ignored":       # mc.time_course forgets to write y0 into the model
    sub("src/mxlpy/mc.py", "    _require_unique_index(mc_to_scan)\n\n    if y0 is not None:\n        model.update_variables(y0)\n\n    res = parallelise(\n        partial(\n            _update_parameters_and_initial_conditions,\n            fn=partial(\n                worker,\n                time_points=time_points,",
        "    _require_unique_index(mc_to_scan)\n\n    res = parallelise(\n        partial(\n            _update_parameters_and_initial_conditions,\n            fn=partial(\n                worker,\n                time_points=time_points,")
elif name == "ss_y0_also_to_worker":  # scan.steady_state writes y0 into the model AND hands it to the worker (y0 beats the row again)
    sub("src/mxlpy/scan.py", "                rel_norm=rel_norm,\n                integrator=integrator,\n                y0=None,",
        "                rel_norm=rel_norm,\n                integrator=integrator,\n                y0=y0,")
elif name == "ss_by_last_label":      # steady-state results re-ordered through a dict (first position, last value)
    sub("src/mxlpy/scan.py", "        raw_results=[i[1] for i in res],", "        raw_results=[dict(res)[k] for k, _ in res],")
elif name == "cache_fixed":           # only the proposed repair of the cached steady-state scans (run with `c09_switch.py cache repaired`)
    subprocess.run(["patch", "-p1", "-s", "-i", "/verif/fixes/C09-cached-steady-state-unique-index.diff"], check=True)
elif name == "cache_check_only_scan_fixed":  # the repair applied to scan.steady_state but not to mc.steady_state
    subprocess.run(["patch", "-p1", "-s", "-i", "/verif/fixes/C09-cached-steady-state-unique-index.diff"], check=True)
    sub("src/mxlpy/mc.py", "    if cache is not None:\n        _require_unique_index(mc_to_scan)\n\n", "")
elif name == "row_cache_put_back":   # third pass: the task keeps the copied cache across the row's updates (stale cache of a used model)
    sub("src/mxlpy/scan.py", "    pd = pars.to_dict()\n", "    pd = pars.to_dict()\n    kept = model._cache\n")
    sub("src/mxlpy/scan.py", "    return fn(model)\n", "    model._cache = kept\n    return fn(model)\n")
elif name == "update_variable_undecorated":  # Model.update_variable no longer drops the cache (a used model keeps a stale one)
    sub("src/mxlpy/model.py", "    @_invalidate_cache\n    def update_variable(", "    def update_variable(")
elif name == "batch_mutators_decorated":  # the batch mutators carry @_invalidate_cache themselves: property holds, must stay GREEN
    sub("src/mxlpy/model.py", "    def update_variables(", "    @_invalidate_cache\n    def update_variables(")
    sub("src/mxlpy/model.py", "    def update_parameters(", "    @_invalidate_cache\n    def update_parameters(")
elif name == "view_leaves_old_tree":  # simulation.py as it was before 4167248 (views leave the last segment's parameters): must stay GREEN
    diff = subprocess.run(["git", "-C", "/repo", "show", "4167248", "--", "src/mxlpy/simulation.py"], capture_output=True, text=True, check=True).stdout
    subprocess.run(["patch", "-p1", "-s", "-R"], input=diff, text=True, check=True)
elif name == "seed4_y0_to_worker":   # seeded change C09-4 re-based on 691be8b (its hunk for scan.steady_state no longer applies: the
    # cache test now stands between the docstring and the y0 statement): all other hunks from the stored patch, that one by hand
    subprocess.run(["patch", "-p1", "-s", "--force", "--no-backup-if-mismatch", "-r", "-", "-i", "/verif/seeded/C09-4/patch.diff"], check=False)
    sub("src/mxlpy/scan.py", "    if y0 is not None:\n        model.update_variables(y0)\n\n", "    # The caller's model is left untouched: `y0` is handed on to the worker\n")
elif name == "none_fixed":
    pass
else:
    sys.exit(f"unknown MUTNAME {name!r}")
print("applied", name)
