"""C10 -- result views are consistent functions of states and segment parameters.

Tie to the source:
  (1) facts regenerated from src/mxlpy/simulation.py and src/mxlpy/model.py into
      coq/simres/GenResFacts.v (shape of the per-row normalisation branch, the fill guard and the
      parameter re-application in _compute_args / get_right_hand_side, the bodies of
      get_producers/get_consumers/_select_data/_adjust_data/the thin view wrappers, and the Model
      methods the views go through) -- PropsC10.v pins them;
  (2) correspondence: multi-segment results are built through the REAL Simulator with an exact
      integer integrator passed via integrator= (and some Simulation objects are constructed directly
      with arbitrary integer states); random sequences of view reads (all view methods x flags x
      normalisation shapes, interleaved with model.update_parameter by the "user") are run on the
      implementation and on the Gallina model (vm_compute inside Coq), outputs compared exactly;
  (3) an independent oracle (fix-point resolver over exact integers/Fractions; shares nothing with the
      Coq model) judges the PROPERTY on every output of the implementation;
  (4) a second oracle-only stream (harness/c10_assign.py): parameters given by initial assignments whose
      definition changes between segments / among the reads.

State of the switches (tools/c10_switch.py prodcons|assign snapshot|repaired <commit>; design/C10.md):
  prodcons = repaired (/repo b146866: coq/simres/ExpectedFacts.v expects PKRows);
  assign   = snapshot: finding C10-assigned-parameter-snapshot stays recorded (its repair is deliberately not applied);
  the oracle excuses the shape of a finding only while it is recorded in known_findings.json.
Since /repo 4167248 the views put the shared model's parameter values back (regenerated fact rf_view = VKRestores, pinned);
the model follows VKRestores / VKLeavesLast, so `mpars` reads (model.get_parameter_values() between the reads) are part of
the correspondence.  Own case stream "c10-shared-time": results in which two segments report the same time point.
"""

from __future__ import annotations

import ast
import json
import signal
from fractions import Fraction
from typing import Any

from harness import common
from harness.common import Run, cbool, clist, cn, cz

AREA = "simres"
PROPS = "PropsC10.v"
CAP = 2**16  # every resolved value stays below this: all float intermediates are exact integers

# ---------------------------------------------------------------------------------------
# (1) fact extraction (fail-closed): normalised source of each anchored function is compared
#     with the shapes the model was written for
# ---------------------------------------------------------------------------------------


def _body_src(fn: ast.FunctionDef) -> str:
    body = [s for s in fn.body if not (isinstance(s, ast.Expr) and isinstance(s.value, ast.Constant))]
    return "\n".join(ast.unparse(s) for s in body)


def _find(tree_body, name: str) -> ast.FunctionDef | None:
    """last definition of `name` whose body is not an overload stub"""
    found = None
    for n in tree_body:
        if isinstance(n, ast.FunctionDef) and n.name == name:
            src = _body_src(n)
            if src.strip() != "...":
                found = n
    return found


def _decorators(fn: ast.FunctionDef) -> list[str]:
    return [ast.unparse(d) for d in fn.decorator_list]


_NORM_HEAD = """if isinstance(normalise, int | float):
    return [i / normalise for i in results]
if len(normalise) == len(results):
    return [(i.T / j).T for i, j in zip(results, normalise, strict=True)]
"""
_NORM_BUGGY = _NORM_HEAD + """results = []
start = 0
end = 0
for i in results:
    end += len(i)
    results.append(i / np.reshape(normalise[start:end], (len(i), 1)))
    start += end
return results"""
# accepted repairs: a fresh output list, the slice [start:end] with end = start + len(i), start = end
_NORM_FIXED = [
    _NORM_HEAD + """normalised = []
start = 0
for i in results:
    end = start + len(i)
    normalised.append(i / np.reshape(normalise[start:end], (len(i), 1)))
    start = end
return normalised""",
    _NORM_HEAD + """normalised = []
start = 0
end = 0
for i in results:
    end += len(i)
    normalised.append(i / np.reshape(normalise[start:end], (len(i), 1)))
    start = end
return normalised""",
]

# _compute_args, keyed (fill guard present, update_parameters(p) per segment, view kind).  "VKRestores" = the bodies
# since /repo 4167248 (remember the parameter values in force, try: the loop, finally: put them back);
# "VKLeavesLast" = the bodies before it (nothing is put back: the model stays at the last segment's parameters).
_GUARD = "if len(self.raw_args) > 0:\n    return self.raw_args\n"
_APPEND = "self.raw_args.append(self.model.get_args_time_course(variables=res, include_variables=True, include_parameters=True, include_derived_parameters=True, include_derived_variables=True, include_reactions=True, include_surrogate_variables=True, include_surrogate_fluxes=True, include_readouts=True))"
_COMPUTE_ARGS = {}
for _g in (True, False):
    for _r in (True, False):
        _upd = "self.model.update_parameters(p)\n" if _r else ""
        _COMPUTE_ARGS[(_g, _r, "VKLeavesLast")] = (
            (_GUARD if _g else "")
            + "for res, p in zip(self.raw_variables, self.raw_parameters, strict=True):\n"
            + "".join("    " + ln + "\n" for ln in (_upd + _APPEND).splitlines())
            + "return self.raw_args"
        )
        _COMPUTE_ARGS[(_g, _r, "VKRestores")] = (
            (_GUARD if _g else "")
            + "in_force = self._parameters_in_force()\ntry:\n"
            + "    for res, p in zip(self.raw_variables, self.raw_parameters, strict=True):\n"
            + "".join("        " + ln + "\n" for ln in (_upd + _APPEND).splitlines())
            + "finally:\n    self.model.update_parameters(in_force)\nreturn self.raw_args"
        )

# get_right_hand_side, keyed (update_parameters(p) per segment, view kind)
_RHS_CALL = {
    True: "self.model.update_parameters(p).get_right_hand_side_time_course(args=args)",
    False: "self.model.get_right_hand_side_time_course(args=args)",
}
_RHS = {}
for _r, _call in _RHS_CALL.items():
    _comp = f"[{_call} for args, p in zip(args_by_simulation, self.raw_parameters, strict=True)]"
    _RHS[(_r, "VKLeavesLast")] = (
        "args_by_simulation = self._compute_args()\n"
        f"return self._adjust_data({_comp}, normalise=normalise, concatenated=concatenated)"
    )
    _RHS[(_r, "VKRestores")] = (
        "args_by_simulation = self._compute_args()\nin_force = self._parameters_in_force()\n"
        f"try:\n    rhs = {_comp}\nfinally:\n    self.model.update_parameters(in_force)\n"
        "return self._adjust_data(rhs, normalise=normalise, concatenated=concatenated)"
    )
_IN_FORCE = "return {k: p.value for k, p in self.model.get_raw_parameters(as_copy=False).items()}"

_PRODUCERS = """self.model.update_parameters(self.raw_parameters[0])
names = [k for k, v in self.model.get_stoichiometries_of_variable(variable).items() if v > 0]
fluxes: list[pd.DataFrame] = [i.loc[:, names] for i in self.get_fluxes(normalise=normalise, concatenated=False)]
if scaled:
    fluxes = [i.copy() for i in fluxes]
    for v, p in zip(fluxes, self.raw_parameters, strict=True):
        self.model.update_parameters(p)
        stoichs = self.model.get_stoichiometries_of_variable(variable)
        for k in names:
            v.loc[:, k] *= stoichs[k]
self.model.update_parameters(self.raw_parameters[-1])
if concatenated:
    return pd.concat(fluxes, axis=0)
return fluxes"""
_CONSUMERS = _PRODUCERS.replace("if v > 0]", "if v < 0]").replace("*= stoichs[k]", "*= -stoichs[k]")

# the repaired bodies (fixes/C10-prodcons-per-segment.diff): fact PKRows
_PRODUCERS_ROWS = "return self._get_fluxes_by_sign(variable, sign=1, scaled=scaled, normalise=normalise, concatenated=concatenated)"
_CONSUMERS_ROWS = "return self._get_fluxes_by_sign(variable, sign=-1, scaled=scaled, normalise=normalise, concatenated=concatenated)"
_BY_SIGN_LAST = "self.model.update_parameters(self.raw_parameters[-1])\n"  # the old bodies' last statement before the answer
_BY_SIGN = """factors: dict[str, float | Derived] = {name: rxn.stoichiometry[variable] for name, rxn in self.model.get_raw_reactions(as_copy=False).items() if variable in rxn.stoichiometry}
for surrogate in self.model.get_raw_surrogates(as_copy=False).values():
    for name, stoichiometry in surrogate.stoichiometries.items():
        if variable in stoichiometry:
            factors[name] = stoichiometry[variable]
if len(factors) == 0:
    raise KeyError(variable)
coefficients = [pd.DataFrame([[sign * (f.fn(*(row[i] for i in f.args)) if isinstance(f, Derived) else f) for f in factors.values()] for row in (values.to_dict() | {'time': time} for time, values in args.iterrows())], index=args.index, columns=list(factors), dtype=float) for args in self._compute_args()]
names = [k for k in factors if any(((c[k] > 0).any() for c in coefficients))]
fluxes: list[pd.DataFrame] = [flux.loc[:, names].where(coef.loc[:, names] > 0) for flux, coef in zip(self.get_fluxes(normalise=normalise, concatenated=False), coefficients, strict=True)]
if scaled:
    fluxes = [flux * coef.loc[:, names] for flux, coef in zip(fluxes, coefficients, strict=True)]
self.model.update_parameters(self.raw_parameters[-1])
if concatenated:
    return pd.concat(fluxes, axis=0)
return fluxes"""

_SELECT = """names = self.model.get_arg_names(include_time=False, include_variables=include_variables, include_parameters=include_parameters, include_derived_parameters=include_derived_parameters, include_derived_variables=include_derived_variables, include_reactions=include_reactions, include_surrogate_variables=include_surrogate_variables, include_surrogate_fluxes=include_surrogate_fluxes, include_readouts=include_readouts)
return [i.loc[:, names] for i in dependent]"""
_ADJUST = """if normalise is not None:
    data = _normalise_split_results(data, normalise=normalise)
if concatenated:
    return pd.concat(data, axis=0)
return data"""

_VIEWS = {
    "variables": "return self.get_variables(include_derived_variables=True, include_surrogate_variables=True, include_readouts=True, concatenated=True, normalise=None)",
    "fluxes": "return self.get_fluxes(include_surrogates=True)",
    "get_args": "variables = self._select_data(self._compute_args(), include_variables=include_variables, include_parameters=include_parameters, include_derived_parameters=include_derived_parameters, include_derived_variables=include_derived_variables, include_reactions=include_reactions, include_surrogate_variables=include_surrogate_variables, include_surrogate_fluxes=include_surrogate_fluxes, include_readouts=include_readouts)\nreturn self._adjust_data(variables, normalise=normalise, concatenated=concatenated)",
    "get_variables": "if not (include_derived_variables or include_readouts or include_surrogate_variables):\n    return self._adjust_data(self.raw_variables, normalise=normalise, concatenated=concatenated)\nvariables = self._select_data(self._compute_args(), include_variables=True, include_derived_variables=include_derived_variables, include_surrogate_variables=include_surrogate_variables, include_readouts=include_readouts)\nreturn self._adjust_data(variables, normalise=normalise, concatenated=concatenated)",
    "get_fluxes": "fluxes = self._select_data(self._compute_args(), include_reactions=True, include_surrogate_fluxes=include_surrogates)\nreturn self._adjust_data(fluxes, normalise=normalise, concatenated=concatenated)",
    "get_combined": "return pd.concat((self.variables, self.fluxes), axis=1)",
    "get_new_y0": "return dict(self.get_variables(include_derived_variables=False, include_readouts=False, include_surrogate_variables=False).iloc[-1])",
}

_MODEL = {
    "update_parameter": "if name not in self._parameters:\n    msg = f'{name!r} not found in parameters'\n    raise KeyError(msg)\nparameter = self._parameters[name]\nif value is not None:\n    parameter.value = value\nif unit is not None:\n    parameter.unit = unit\nif source is not None:\n    parameter.source = source\nreturn self",
    "update_parameters": "for k, v in parameters.items():\n    if isinstance(v, Parameter):\n        self.update_parameter(k, value=v.value, unit=v.unit, source=v.source)\n    else:\n        self.update_parameter(k, v)\nreturn self",
    "get_parameter_values": "if (cache := self._cache) is None:\n    cache = self._create_cache()\nreturn dict(cache.base_parameter_values)",
    "get_arg_names": "names = []\nif include_time:\n    names.append('time')\nif include_variables:\n    names.extend(self.get_variable_names())\nif include_parameters:\n    names.extend(self.get_parameter_names())\nif include_derived_variables:\n    names.extend(self.get_derived_variable_names())\nif include_derived_parameters:\n    names.extend(self.get_derived_parameter_names())\nif include_reactions:\n    names.extend(self.get_reaction_names())\nif include_surrogate_variables:\n    names.extend(self.get_surrogate_output_names(include_fluxes=False))\nif include_surrogate_fluxes:\n    names.extend(self.get_surrogate_reaction_names())\nif include_readouts:\n    names.extend(self.get_readout_names())\nreturn names",
    "_get_args": "args = cache.all_parameter_values | variables | self._data\nargs['time'] = time\ncontainers = self._derived | self._reactions | self._surrogates\nfor name in cache.dyn_order:\n    containers[name].calculate_inpl(name, args)\nfor k in self._data:\n    args.pop(k)\nreturn cast(dict[str, float], args)",
    "_get_args_time_course": "if (cache := self._cache) is None:\n    cache = self._create_cache()\nargs_by_time = {}\nfor time, values in variables.iterrows():\n    args = self._get_args(variables=values.to_dict(), time=cast(float, time), cache=cache)\n    if include_readouts:\n        for name, ro in self._readouts.items():\n            ro.calculate_inpl(name, args)\n    args_by_time[time] = args\nreturn args_by_time",
    "_get_right_hand_side": "dxdt = pd.Series(np.zeros(len(var_names), dtype=float), index=var_names)\nfor k, stoc in cache.stoich_by_cpds.items():\n    for flux, n in stoc.items():\n        dxdt[k] += n * args[flux]\nfor k, sd in cache.dyn_stoich_by_cpds.items():\n    for flux, dv in sd.items():\n        n = dv.fn(*(args[i] for i in dv.args))\n        dxdt[k] += n * args[flux]\nreturn dxdt",
    "get_right_hand_side_time_course": "if (cache := self._cache) is None:\n    cache = self._create_cache()\nvar_names = self.get_variable_names()\nrhs_by_time = {}\nfor time, variables in args.iterrows():\n    rhs_by_time[time] = self._get_right_hand_side(args=variables.to_dict() | {'time': time}, var_names=var_names, cache=cache)\nreturn pd.DataFrame(rhs_by_time).T",
    "get_raw_reactions": "if as_copy:\n    return copy.deepcopy(self._reactions)\nreturn self._reactions",
    "get_raw_surrogates": "if as_copy:\n    return copy.deepcopy(self._surrogates)\nreturn self._surrogates",
    "get_raw_parameters": "if as_copy:\n    return copy.deepcopy(self._parameters)\nreturn self._parameters",
    "get_stoichiometries_of_variable": "if (cache := self._cache) is None:\n    cache = self._create_cache()\nargs = self.get_args(variables=variables, time=time)\nstoich = copy.deepcopy(cache.stoich_by_cpds[variable])\nfor rxn, derived in cache.dyn_stoich_by_cpds.get(variable, {}).items():\n    stoich[rxn] = float(derived.fn(*(args[i] for i in derived.args)))\nreturn stoich",
}


_UPD_PARS_VALIDATION = "self._check_known_names(parameters, self._parameters, ctx='parameters', unique=False)\n"


def _same(a: str, b: str) -> bool:
    try:
        return ast.unparse(ast.parse(a)) == ast.unparse(ast.parse(b))
    except SyntaxError:
        return False


def extract_facts() -> dict[str, str]:
    facts = {
        "norm_rows": "NRUnknown", "fill_guard": "false", "fill_reapply": "false", "rhs_reapply": "false",
        "prod": "PKUnknown", "select_adjust_shape": "false", "views_shape": "false", "model_shape": "false",
        "view": "VKUnknown",
    }
    try:
        sim = ast.parse((common.REPO / "src/mxlpy/simulation.py").read_text())
        mod = ast.parse((common.REPO / "src/mxlpy/model.py").read_text())
    except (OSError, SyntaxError):
        return facts
    cls = next((n for n in sim.body if isinstance(n, ast.ClassDef) and n.name == "Simulation"), None)
    mcls = next((n for n in mod.body if isinstance(n, ast.ClassDef) and n.name == "Model"), None)
    if cls is None or mcls is None:
        return facts
    nf = _find(sim.body, "_normalise_split_results")
    if nf is not None:
        src = _body_src(nf)
        if _same(src, _NORM_BUGGY):
            facts["norm_rows"] = "NRRebindEmpty"
        elif any(_same(src, s) for s in _NORM_FIXED):
            facts["norm_rows"] = "NRFixed"
    # which of the three bodies that touch the shared model's parameters put back what they found
    kinds: dict[str, str] = {}
    ca = _find(cls.body, "_compute_args")
    if ca is not None:
        for (guard, reapply, vk), shape in _COMPUTE_ARGS.items():
            if _same(_body_src(ca), shape):
                facts["fill_guard"], facts["fill_reapply"] = cbool(guard), cbool(reapply)
                kinds["_compute_args"] = vk
                if not (guard and reapply):
                    facts["fill_shape_note"] = "recognised variant"
    rh = _find(cls.body, "get_right_hand_side")
    if rh is not None:
        for (reapply, vk), shape in _RHS.items():
            if _same(_body_src(rh), shape):
                facts["rhs_reapply"] = cbool(reapply)
                facts["rhs_recognised"] = "true"
                kinds["get_right_hand_side"] = vk
    facts.setdefault("rhs_recognised", "false")
    gp, gc = _find(cls.body, "get_producers"), _find(cls.body, "get_consumers")
    if gp is not None and gc is not None:
        if _same(_body_src(gp), _PRODUCERS) and _same(_body_src(gc), _CONSUMERS):
            facts["prod"] = "PKFirst"
        else:
            bs = _find(cls.body, "_get_fluxes_by_sign")
            derived_imported = any(
                isinstance(n, ast.ImportFrom) and n.module == "mxlpy.types" and any(a.name == "Derived" and a.asname is None for a in n.names)
                for n in sim.body
            )
            if (bs is not None and derived_imported and _same(_body_src(gp), _PRODUCERS_ROWS) and _same(_body_src(gc), _CONSUMERS_ROWS)
                    and not bs.decorator_list and not gp.decorator_list and not gc.decorator_list):
                if _same(_body_src(bs), _BY_SIGN):
                    facts["prod"], kinds["_get_fluxes_by_sign"] = "PKRows", "VKLeavesLast"
                elif _same(_body_src(bs), _BY_SIGN.replace(_BY_SIGN_LAST, "")):
                    facts["prod"], kinds["_get_fluxes_by_sign"] = "PKRows", "VKRestores"
    if facts["prod"] == "PKFirst":
        kinds["_get_fluxes_by_sign"] = "VKLeavesLast"  # those bodies end with update_parameters(self.raw_parameters[-1])
    pif = _find(cls.body, "_parameters_in_force")
    # _get_fluxes_by_sign takes part only when its body was recognised (otherwise prod = PKUnknown: producers/consumers
    # answer "equal to nothing" anyway and the other views are governed by the two bodies above)
    need = {"_compute_args", "get_right_hand_side"} | ({"_get_fluxes_by_sign"} if facts["prod"] != "PKUnknown" else set())
    if set(kinds) == need and len(set(kinds.values())) == 1:
        vk = next(iter(kinds.values()))
        if vk == "VKLeavesLast" or (pif is not None and not pif.decorator_list and _same(_body_src(pif), _IN_FORCE)):
            facts["view"] = vk
    facts["view_bodies"] = " ".join(f"{k}={v}" for k, v in sorted(kinds.items()))
    sd, ad = _find(cls.body, "_select_data"), _find(cls.body, "_adjust_data")
    head_ok = nf is not None and _body_src(nf).startswith(ast.unparse(ast.parse(_NORM_HEAD)))
    facts["select_adjust_shape"] = cbool(
        sd is not None and ad is not None and _same(_body_src(sd), _SELECT) and _same(_body_src(ad), _ADJUST) and head_ok
    )
    ok = True
    for name, shape in _VIEWS.items():
        f = _find(cls.body, name)
        ok = ok and f is not None and _same(_body_src(f), shape)
        if name in ("variables", "fluxes"):
            ok = ok and f is not None and _decorators(f) == ["property"]
    # raw_args must default to an empty list (the fill guard tests its length)
    fld = [n for n in cls.body if isinstance(n, ast.AnnAssign) and ast.unparse(n.target) == "raw_args"]
    ok = ok and len(fld) == 1 and fld[0].value is not None and ast.unparse(fld[0].value) == "field(default_factory=list)"
    facts["views_shape"] = cbool(ok)
    ok = True
    for name, shape in _MODEL.items():
        f = _find(mcls.body, name)
        src = _body_src(f) if f is not None else ""
        if name == "update_parameters" and src.startswith(_UPD_PARS_VALIDATION):
            # since 037a1c8 the batch form validates all names first (C03's business); a Simulation only
            # re-applies the names of its own segment, which exist, so the prefix is a no-op here
            src = src[len(_UPD_PARS_VALIDATION):]
        ok = ok and f is not None and _same(src, shape)
    up = _find(mcls.body, "update_parameter")
    ok = ok and up is not None and _decorators(up) == ["_invalidate_cache"]
    inv = _find(mod.body, "_invalidate_cache")
    ok = ok and inv is not None and "self._cache = None" in ast.unparse(inv)
    facts["model_shape"] = cbool(ok)
    if facts["rhs_recognised"] == "false":
        facts["views_shape"] = "false"
    return facts


def gen() -> dict[str, str]:
    f = extract_facts()
    text = (
        "(* REGENERATED from src/mxlpy/simulation.py and src/mxlpy/model.py by harness/c10.py; do not edit.\n"
        "   An unrecognised shape yields NRUnknown / PKUnknown / VKUnknown / false, which breaks C10_facts_pinned. *)\n"
        "From SimRes Require Import ResModel.\n"
        f"Definition gen_res_facts : res_facts := mkResFacts {f['norm_rows']} {f['fill_guard']} {f['fill_reapply']} "
f"{f['rhs_reapply']} {f['prod']} {f['select_adjust_shape']} {f['views_shape']} {f['model_shape']} {f['view']}.\n"
    )
    common.write_if_changed(common.area_dir(AREA) / "GenResFacts.v", text)
    return f


# ---------------------------------------------------------------------------------------
# cases
# ---------------------------------------------------------------------------------------
# spec = {"vars": {name: int}, "pars": {name: int}, "comps": [[kind, name, fid, [args], stoich]] in
#         DECLARATION order (kind "d"|"r"; stoich = [[cpd, int] | [cpd, [fid, [args]]]]),
#         "ros": [[name, fid, [args]]]}
# result = {"mode": "sim", "script": [[{par: val}, n_steps], ...]} | {"mode": "direct", "segs": [[[t, [vals]]..]..], "pars": [{..}..]}
# ops = [["args", flags8, conc, norm] | ["vars", dv, ro, sv, conc, norm] | ["fluxes", surr, norm, conc] | ["pvars"] |
#        ["pfluxes"] | ["combined"] | ["rhs", norm, conc] | ["prod"|"cons", var, scaled, norm, conc] | ["y0"] |
#        ["upd", par, val] | ["mpars"]]           norm = None | ["s", [num, den]] | ["l", [[num, den], ...]]


def _fn_of_arity(rng, ar):
    from harness import fnlib

    return rng.choice([i for i in fnlib.BY_ARITY[ar] if i <= 10])


def gen_spec(rng) -> dict:
    nv, npar = rng.randint(1, 3), rng.randint(1, 3)
    vars_ = {f"x{i}": rng.randint(-3, 3) for i in range(nv)}
    pars = {f"p{i}": rng.randint(-3, 3) for i in range(npar)}
    ppool = list(pars)  # parameter-only names (parameters + derived parameters)
    pool = list(pars) + list(vars_) + ["time"]
    comps = []
    n = rng.randint(1, 6)
    have_rxn = False
    for i in range(n):
        kind = "r" if (i == n - 1 and not have_rxn) else rng.choice(["d", "d", "r", "r", "r"])
        ar = rng.choice([0, 1, 1, 2, 2, 2, 3])
        fid = _fn_of_arity(rng, ar)
        if kind == "d" and rng.random() < 0.4:
            args = [rng.choice(ppool) for _ in range(ar)]
            static = True
        else:
            args = [rng.choice(pool) for _ in range(ar)]
            static = all(a in ppool for a in args)
        name = f"{kind}{i}"
        st = []
        if kind == "r":
            have_rxn = True
            for cpd in rng.sample(list(vars_), rng.randint(1, min(2, nv))):
                u = rng.random()
                if u < 0.55:
                    st.append([cpd, rng.choice([-2, -1, -1, 1, 1, 2, 0])])
                else:
                    car = rng.choice([1, 1, 2])
                    cf = _fn_of_arity(rng, car)
                    cpool = ppool if u < 0.85 else pool
                    st.append([cpd, [cf, [rng.choice(cpool) for _ in range(car)]]])
        comps.append([kind, name, fid, args, st])
        pool.append(name)
        if kind == "d" and static:
            ppool.append(name)
    # declaration order: mostly dependency order, sometimes shuffled (the sorter restores an order)
    if rng.random() < 0.3:
        rng.shuffle(comps)
    ros = []
    rpool = list(pool)
    for j in range(rng.choice([0, 0, 1, 2])):
        ar = rng.choice([1, 2])
        ros.append([f"o{j}", _fn_of_arity(rng, ar), [rng.choice(rpool) for _ in range(ar)]])
        rpool.append(f"o{j}")
    return {"vars": vars_, "pars": pars, "comps": comps, "ros": ros}


def gen_result(rng, spec) -> dict:
    pars = dict(spec["pars"])
    nseg = rng.choice([1, 2, 2, 3, 3, 4])
    if rng.random() < 0.75:
        script = []
        for i in range(nseg):
            upd = {}
            if i > 0 or rng.random() < 0.3:
                for k in rng.sample(list(pars), rng.randint(1, len(pars))):
                    upd[k] = rng.randint(-3, 3)
            script.append([upd, rng.randint(1, 3)])
        return {"mode": "sim", "script": script}
    segs, ps, t = [], [], rng.choice([0, 0, 2])
    for i in range(nseg):
        for k in rng.sample(list(pars), rng.randint(0, len(pars))):
            pars[k] = rng.randint(-3, 3)
        rows = []
        for _ in range(rng.randint(1, 3)):
            rows.append([t, [rng.randint(-6, 6) for _ in spec["vars"]]])
            t += rng.choice([1, 1, 2])
        segs.append(rows)
        ps.append(dict(pars))
    return {"mode": "direct", "segs": segs, "pars": ps}


def gen_result_shared(rng, spec) -> dict:
    """results in which two segments report the SAME time point (own rng stream "c10-shared-time"):
    through the Simulator by runs to steady state (the search restarts at t0, so its single row repeats a time that an
    earlier segment reported), or constructed directly with a shared boundary point / a segment that restarts at an
    earlier reported time.  Times inside one segment stay distinct (Model.get_args_time_course keys its rows by time)."""
    pars = dict(spec["pars"])
    nseg = rng.choice([2, 2, 3, 3, 4])
    if rng.random() < 0.45:
        script, have_ss = [], False
        for i in range(nseg):
            upd = {}
            if i > 0 or rng.random() < 0.3:
                for k in rng.sample(list(pars), rng.randint(1, len(pars))):
                    upd[k] = rng.randint(-3, 3)
            ss = rng.random() < 0.5 or (i == nseg - 1 and not have_ss)
            have_ss = have_ss or ss
            script.append([upd, "ss" if ss else rng.randint(1, 3)])
        return {"mode": "sim", "script": script}
    segs, ps, t, seen, shared = [], [], rng.choice([0, 0, 2]), [], False
    for i in range(nseg):
        for k in rng.sample(list(pars), rng.randint(0, len(pars))):
            pars[k] = rng.randint(-3, 3)
        if i > 0:
            u = rng.random()
            if u < 0.6 or (i == nseg - 1 and not shared):
                t, shared = seen[-1], True  # the boundary point is reported by both segments
            elif u < 0.85:
                t, shared = rng.choice(seen), True  # restart at an earlier reported time
        rows = []
        for _ in range(rng.randint(1, 3)):
            rows.append([t, [rng.randint(-6, 6) for _ in spec["vars"]]])
            seen.append(t)
            t += rng.choice([1, 1, 2])
        segs.append(rows)
        ps.append(dict(pars))
    return {"mode": "direct", "segs": segs, "pars": ps}


def gen_norm(rng, seg_lens):
    u = rng.random()
    pw = [1, 2, 4, 8, -2, -4, Fraction(1, 2)]
    q = lambda: (lambda x: [x.numerator, x.denominator])(Fraction(rng.choice(pw)))  # noqa: E731
    if u < 0.4:
        return None
    if u < 0.55:
        return ["s", q()]
    if u < 0.7:
        return ["l", [q() for _ in seg_lens]]
    total = sum(seg_lens)
    if u < 0.93:
        return ["l", [q() for _ in range(total)]]
    if u < 0.97:
        return ["l", [q() for _ in range(total + rng.randint(1, 2))]]
    return ["l", [q() for _ in range(max(0, total - 1))]]


def gen_ops(rng, spec, seg_lens) -> list:
    ops = []
    b = lambda p=0.5: rng.random() < p  # noqa: E731
    vnames = list(spec["vars"])
    for _ in range(rng.randint(4, 9)):
        k = rng.choice(["args", "args", "vars", "fluxes", "pvars", "pfluxes", "combined", "rhs", "rhs", "prod", "cons",
                        "prod", "cons", "y0", "upd", "upd", "mpars"])
        nm = gen_norm(rng, seg_lens)
        if k == "args":
            ops.append(["args", [b(0.7), b(), b(), b(0.7), b(0.7), b(0.2), b(0.2), b()], b(), nm])
        elif k == "vars":
            ops.append(["vars", b(), b(), b(), b(), nm])
        elif k == "fluxes":
            ops.append(["fluxes", b(), nm, b()])
        elif k == "rhs":
            ops.append(["rhs", nm, b()])
        elif k in ("prod", "cons"):
            ops.append([k, rng.choice(vnames), b(), nm if b(0.4) else None, b()])
        elif k == "upd":
            ops.append(["upd", rng.choice(list(spec["pars"]) + (["zz"] if b(0.1) else [])), rng.randint(-3, 3)])
        else:
            ops.append([k])
    return ops


# ---------------------------------------------------------------------------------------
# implementation driver
# ---------------------------------------------------------------------------------------


class _Timeout(Exception):
    pass


def _alarm(signum, frame):  # noqa: ANN001, ARG001
    raise _Timeout


def _exact_integrator():
    import numpy as np
    from mxlpy.integrators.abstract import TimeCourse
    from mxlpy.types import Result

    class ExactInt:
        """explicit unit-step recurrence y' = wrap(y + rhs(t, y)) on integers: exact in binary64"""

        def __init__(self, rhs, y0, jacobian=None):  # noqa: ANN001, ARG002
            self.rhs, self.y0 = rhs, tuple(y0)
            self.reset()

        def reset(self):
            self.t, self.y = 0.0, np.array(self.y0, dtype=float)

        def integrate(self, *, t_end, steps=None):  # noqa: ANN001, ARG002
            ts, ys = [self.t], [self.y.copy()]
            while self.t < t_end:
                d = np.array(self.rhs(self.t, self.y), dtype=float)
                self.y = ((self.y + d + 9.0) % 19.0) - 9.0
                self.t += 1.0
                ts.append(self.t)
                ys.append(self.y.copy())
            return Result(TimeCourse(time=np.array(ts), values=np.array(ys)))

        def integrate_time_course(self, *, time_points):  # noqa: ANN001
            return self.integrate(t_end=float(time_points[-1]))

        def integrate_to_steady_state(self, *, tolerance, rel_norm):  # noqa: ANN001, ARG002
            """like the shipped integrators: restart at t0 from y0, probe t0+1, t0+2, ... and report the ONE time point
            at which the state stopped changing (here: at the latest the third probe)"""
            self.reset()
            for _ in range(3):
                y1 = self.y.copy()
                d = np.array(self.rhs(self.t, self.y), dtype=float)
                self.y = ((self.y + d + 9.0) % 19.0) - 9.0
                self.t += 1.0
                if np.array_equal(self.y, y1):
                    break
            return Result(TimeCourse(time=np.array([self.t]), values=np.array([self.y.copy()])))

    return ExactInt


def build_model(spec):
    from mxlpy import Derived, Model

    from harness import fnlib

    m = Model()
    m.add_variables(dict(spec["vars"]))
    m.add_parameters(dict(spec["pars"]))
    for kind, name, fid, args, st in spec["comps"]:
        if kind == "d":
            m.add_derived(name, fn=fnlib.FNS[fid], args=list(args))
        else:
            sto = {cpd: (c if isinstance(c, int) else Derived(fn=fnlib.FNS[c[0]], args=list(c[1]))) for cpd, c in st}
            m.add_reaction(name, fn=fnlib.FNS[fid], args=list(args), stoichiometry=sto)
    for name, fid, args in spec["ros"]:
        m.add_readout(name, fn=fnlib.FNS[fid], args=list(args))
    return m


def build_result(spec, result):
    """-> (model, Simulation)"""
    import pandas as pd
    from mxlpy import Simulator
    from mxlpy.simulation import Simulation

    m = build_model(spec)
    if result["mode"] == "sim":
        s = Simulator(m, integrator=_exact_integrator())
        t = 0
        for upd, n in result["script"]:
            if len(upd) == 1:
                k, v = next(iter(upd.items()))
                s.update_parameter(k, v)
            elif upd:
                s.update_parameters(dict(upd))
            if n == "ss":
                # a run to steady state reports ONE row, at the time at which the search (restarted at t0) stopped:
                # two such segments, or one after a time course, report a time point a second time
                s.simulate_to_steady_state()
                t = int(s.variables[-1].index[-1])
                continue
            t += n
            s.simulate(t)
        return m, s.get_result().unwrap_or_err()
    frames = [
        pd.DataFrame([[float(v) for v in vals] for _, vals in seg], index=[float(t) for t, _ in seg], columns=list(spec["vars"]))
        for seg in result["segs"]
    ]
    m.update_parameters(dict(result["pars"][-1]))
    return m, Simulation(model=m, raw_variables=frames, raw_parameters=[dict(p) for p in result["pars"]])


def _norm_arg(nm):
    if nm is None:
        return None
    if nm[0] == "s":
        return float(Fraction(*nm[1]))
    return [float(Fraction(*x)) for x in nm[1]]


def _canon_frame(df) -> dict:
    return {
        "idx": [common.to_fraction(t) for t in df.index.tolist()],
        "cols": [str(c) for c in df.columns.tolist()],
        "rows": [[common.to_fraction(x) for x in row] for row in df.to_numpy().tolist()],
    }


def _canon_mframe(df) -> dict:
    """a frame that may carry NaN cells (producers / consumers): NaN -> None"""
    import math

    return {
        "idx": [common.to_fraction(t) for t in df.index.tolist()],
        "cols": [str(c) for c in df.columns.tolist()],
        "rows": [[None if (isinstance(x, float) and math.isnan(x)) else common.to_fraction(x) for x in row] for row in df.to_numpy().tolist()],
    }


def _canon_masked(x) -> Any:
    import pandas as pd

    if isinstance(x, pd.DataFrame):
        return ["mframe", _canon_mframe(x)]
    if isinstance(x, list):
        return ["mframes", [_canon_mframe(f) for f in x]]
    return ["other", repr(type(x))]


def _canon(x) -> Any:
    import pandas as pd

    if isinstance(x, pd.DataFrame):
        return ["frame", _canon_frame(x)]
    if isinstance(x, list):
        return ["frames", [_canon_frame(f) for f in x]]
    if isinstance(x, dict):
        return ["dict", [[str(k), common.to_fraction(v)] for k, v in x.items()]]
    return ["other", repr(type(x))]


def run_op_impl(m, res, op) -> Any:
    k = op[0]
    try:
        if k == "args":
            f = op[1]
            return _canon(res.get_args(include_variables=f[0], include_parameters=f[1], include_derived_parameters=f[2],
                                       include_derived_variables=f[3], include_reactions=f[4], include_surrogate_variables=f[5],
                                       include_surrogate_fluxes=f[6], include_readouts=f[7], concatenated=op[2], normalise=_norm_arg(op[3])))
        if k == "vars":
            return _canon(res.get_variables(include_derived_variables=op[1], include_readouts=op[2], include_surrogate_variables=op[3],
                                            concatenated=op[4], normalise=_norm_arg(op[5])))
        if k == "fluxes":
            return _canon(res.get_fluxes(include_surrogates=op[1], normalise=_norm_arg(op[2]), concatenated=op[3]))
        if k == "pvars":
            return _canon(res.variables)
        if k == "pfluxes":
            return _canon(res.fluxes)
        if k == "combined":
            return _canon(res.get_combined())
        if k == "rhs":
            return _canon(res.get_right_hand_side(normalise=_norm_arg(op[1]), concatenated=op[2]))
        if k in ("prod", "cons"):
            fn = res.get_producers if k == "prod" else res.get_consumers
            return _canon_masked(fn(op[1], scaled=op[2], normalise=_norm_arg(op[3]), concatenated=op[4]))
        if k == "y0":
            return _canon(res.get_new_y0())
        if k == "upd":
            m.update_parameter(op[1], op[2])
            return ["unit"]
        if k == "mpars":
            return _canon(dict(m.get_parameter_values()))
    except _Timeout:
        raise
    except Exception as e:  # noqa: BLE001
        return ["err", {"ErrKey": "EKey", "ErrValue": "EValue"}.get(common.classify_exception(e), "IndexError" if isinstance(e, IndexError) else "other:" + type(e).__name__)]
    return ["other", k]


def run_case_impl(case) -> dict:
    """-> {"segs": [[[t, [vals]]]], "pars": [{..}], "order": [names], "outs": [...]} or {"error": ..}"""
    signal.signal(signal.SIGALRM, _alarm)
    signal.setitimer(signal.ITIMER_REAL, 20.0)
    try:
        try:
            m, res = build_result(case["spec"], case["result"])
            segs = [
                [[common.exact_int(t), [common.exact_int(v) for v in row]] for t, row in zip(df.index.tolist(), df.to_numpy().tolist())]
                for df in res.raw_variables
            ]
            pars = [{k: common.exact_int(v) for k, v in p.items()} for p in res.raw_parameters]
            cur = {k: common.exact_int(v) for k, v in m.get_parameter_values().items()}
            order = list(m._create_cache().order)  # noqa: SLF001 -- the sorter's result is an input of the model (C02)
        except _Timeout:
            return {"error": "timeout while building"}
        except Exception as e:  # noqa: BLE001
            return {"error": f"build: {type(e).__name__}: {e}"[:300]}
        outs = []
        try:
            for op in case["ops"]:
                try:
                    outs.append(run_op_impl(m, res, op))
                except ValueError as e:  # non-finite / non-integer canonicalisation
                    outs.append(["other", f"canon: {e}"[:100]])
        except _Timeout:
            return {"error": "timeout while reading views"}
        return {"segs": segs, "pars": pars, "cur": cur, "order": order, "outs": outs}
    finally:
        signal.setitimer(signal.ITIMER_REAL, 0)


# ---------------------------------------------------------------------------------------
# (3) independent oracle: the property itself, on exact integers / Fractions
# ---------------------------------------------------------------------------------------


class Discard(Exception):
    pass


def resolve(spec, pars: dict, state: dict, t: int) -> dict:
    """the model's values at (state, t) under `pars`: least fix point of the component equations"""
    from harness import fnlib

    env = dict(pars) | dict(state) | {"time": t}
    todo = [(n, fid, args) for _, n, fid, args, _ in spec["comps"]]
    while todo:
        rest = []
        for n, fid, args in todo:
            if all(a in env for a in args):
                env[n] = fnlib.fsem(fid, [env[a] for a in args])
            else:
                rest.append((n, fid, args))
        if len(rest) == len(todo):
            raise Discard("unresolvable")
        todo = rest
    todo = [(n, fid, args) for n, fid, args in spec["ros"]]
    for n, fid, args in todo:
        env[n] = fnlib.fsem(fid, [env[a] for a in args])
    if any(abs(v) >= CAP for v in env.values()):
        raise Discard("value cap")
    return env


def param_only(spec) -> set:
    """names whose value depends on parameters only (parameters + derived parameters)"""
    po = set(spec["pars"])
    changed = True
    while changed:
        changed = False
        for kind, n, _fid, args, _ in spec["comps"]:
            if kind == "d" and n not in po and all(a in po for a in args):
                po.add(n)
                changed = True
    return po


def coef_value(c, env) -> int:
    from harness import fnlib

    if isinstance(c, int):
        return c
    v = fnlib.fsem(c[0], [env[a] for a in c[1]])
    if abs(v) >= CAP:
        raise Discard("coef cap")
    return v


def columns_for(spec, kinds: dict) -> list[str]:
    po = param_only(spec)
    ders = [n for k, n, *_ in spec["comps"] if k == "d"]
    cols = []
    if kinds.get("var"):
        cols += list(spec["vars"])
    if kinds.get("par"):
        cols += list(spec["pars"])
    if kinds.get("dvar"):
        cols += [n for n in ders if n not in po]
    if kinds.get("dpar"):
        cols += [n for n in ders if n in po]
    if kinds.get("rxn"):
        cols += [n for k, n, *_ in spec["comps"] if k == "r"]
    if kinds.get("ro"):
        cols += [n for n, *_ in spec["ros"]]
    return cols


def _factor(nm, seg_lens, i, k):
    """normalisation factor for row k of segment i; 'err' when the argument is too short"""
    if nm is None:
        return Fraction(1)
    if nm[0] == "s":
        return Fraction(*nm[1])
    fs = [Fraction(*x) for x in nm[1]]
    if len(fs) == len(seg_lens):
        return fs[i]
    j = sum(seg_lens[:i]) + k
    return fs[j] if j < len(fs) else "err"


def expected_frames(cols, cellfn, segs, nm):
    """per-segment frames of a view; cellfn(i, k, col) -> exact value"""
    seg_lens = [len(s) for s in segs]
    out = []
    for i, seg in enumerate(segs):
        rows = []
        for k, (_t, _vals) in enumerate(seg):
            f = _factor(nm, seg_lens, i, k)
            if f == "err":
                return "err"
            rows.append([(None if (v := cellfn(i, k, c)) is None else Fraction(v) / f) for c in cols])
        out.append({"idx": [Fraction(t) for t, _ in seg], "cols": list(cols), "rows": rows})
    return out


def stack(frames):
    return {"idx": [t for f in frames for t in f["idx"]], "cols": frames[0]["cols"], "rows": [r for f in frames for r in f["rows"]]}


PRODCONS_FINDING = "C10-prodcons-coefficient-frame"


def oracle_case(case, obs, full_prodcons: bool = False) -> tuple[list[tuple[int, str]], dict]:
    """-> ([(op index, what is wrong)], stats).  Judges every output against the property.

    full_prodcons=True: producers/consumers are judged against the property's rule (coefficient on every
    reported row, NaN where a listed flux has the other sign).  False (only while the finding
    C10-prodcons-coefficient-frame is recorded): reads inside the finding's guard are skipped, the others
    are judged against the rule on which old and new bodies agree (constant sign, parameter-only coefficients)."""
    spec, ops = case["spec"], case["ops"]
    segs, pars = obs["segs"], obs["pars"]
    vnames = list(spec["vars"])
    envs = [[resolve(spec, pars[i], dict(zip(vnames, vals)), t) for t, vals in seg] for i, seg in enumerate(segs)]
    init_envs = [resolve(spec, p, spec["vars"], 0) for p in pars]
    rxns = [(n, st) for k, n, _f, _a, st in spec["comps"] if k == "r"]
    po = param_only(spec)
    bad: list[tuple[int, str]] = []
    stats = {"prodcons_outside_guard": 0, "prodcons_full_rule": 0, "checked": 0, "error_outputs_accepted": 0}

    def rhs_cell(i, k, var):
        e = envs[i][k]
        return sum(coef_value(c, e) * e[rn] for rn, st in rxns for cpd, c in st if cpd == var)

    def judge(j, got, exp_frames, conc, masked=False):
        stats["checked"] += 1
        if exp_frames == "err":
            if got[0] != "err":
                bad.append((j, f"normalisation argument shorter than the rows was accepted: {got[0]}"))
            else:
                stats["error_outputs_accepted"] += 1
            return
        pre = "m" if masked else ""
        exp = [pre + "frame", stack(exp_frames)] if conc else [pre + "frames", exp_frames]
        if got != exp:
            bad.append((j, _describe_diff(got, exp)))

    seen: dict[str, Any] = {}
    for j, (op, got) in enumerate(zip(ops, obs["outs"])):
        k = op[0]
        key = json.dumps(op)
        if k not in ("upd", "mpars"):
            if key in seen and seen[key] != got:
                bad.append((j, "the same view read twice gave different answers"))
            seen[key] = got
        if k == "args":
            f = op[1]
            cols = columns_for(spec, {"var": f[0], "par": f[1], "dpar": f[2], "dvar": f[3], "rxn": f[4], "ro": f[7]})
            judge(j, got, expected_frames(cols, lambda i, r, c: envs[i][r][c], segs, op[3]), op[2])
        elif k == "vars":
            cols = columns_for(spec, {"var": True, "dvar": op[1], "ro": op[2]})
            judge(j, got, expected_frames(cols, lambda i, r, c: envs[i][r][c], segs, op[5]), op[4])
        elif k in ("fluxes", "pfluxes"):
            cols = columns_for(spec, {"rxn": True})
            judge(j, got, expected_frames(cols, lambda i, r, c: envs[i][r][c], segs, op[2] if k == "fluxes" else None), op[3] if k == "fluxes" else True)
        elif k == "pvars":
            cols = columns_for(spec, {"var": True, "dvar": True, "ro": True})
            judge(j, got, expected_frames(cols, lambda i, r, c: envs[i][r][c], segs, None), True)
        elif k == "combined":
            cols = columns_for(spec, {"var": True, "dvar": True, "ro": True}) + columns_for(spec, {"rxn": True})
            judge(j, got, expected_frames(cols, lambda i, r, c: envs[i][r][c], segs, None), True)
        elif k == "rhs":
            judge(j, got, expected_frames(vnames, rhs_cell, segs, op[1]), op[2])
        elif k in ("prod", "cons"):
            var, scaled, nm, conc = op[1], op[2], op[3], op[4]
            entries = [(rn, c) for rn, st in rxns for cpd, c in st if cpd == var]
            if not entries:
                stats["error_outputs_accepted"] += 1  # no claim for a variable without reactions
                continue
            want = 1 if k == "prod" else -1
            if full_prodcons:
                # the property: the coefficient under the row's segment's parameters at the row's state and time
                rc = [[{rn: want * coef_value(c, e) for rn, c in entries} for e in envs[i]] for i in range(len(segs))]
                cols = [rn for rn, _ in entries if any(row[rn] > 0 for seg in rc for row in seg)]
                cell = lambda i, r, c: None if rc[i][r][c] <= 0 else envs[i][r][c] * (rc[i][r][c] if scaled else 1)  # noqa: E731
                stats["prodcons_full_rule"] += 1
                judge(j, got, expected_frames(cols, cell, segs, nm), conc, masked=True)
                continue
            state_dep = any(not isinstance(c, int) and not all(a in po for a in c[1]) for _, c in entries)
            coefs = [{rn: coef_value(c, init_envs[i]) for rn, c in entries} for i in range(len(segs))]
            sgn = lambda v: (v > 0) - (v < 0)  # noqa: E731
            sign_const = all(sgn(coefs[i][rn]) == sgn(coefs[0][rn]) for i in range(len(segs)) for rn, _ in entries)
            if state_dep or not sign_const:
                stats["prodcons_outside_guard"] += 1  # known finding C10-prodcons-coefficient-frame
                continue
            cols = [rn for rn, _ in entries if sgn(coefs[0][rn]) == want]
            cell = lambda i, r, c: envs[i][r][c] * (abs(coefs[i][c]) if scaled else 1)  # noqa: E731
            judge(j, got, expected_frames(cols, cell, segs, nm), conc, masked=True)
        elif k == "y0":
            stats["checked"] += 1
            exp = ["dict", [[v, Fraction(x)] for v, x in zip(vnames, segs[-1][-1][1])]]
            if got != exp:
                bad.append((j, f"get_new_y0 is not the last state: {got} vs {exp}"))
        elif k == "upd":
            if (op[1] in spec["pars"]) != (got == ["unit"]):
                bad.append((j, f"model.update_parameter({op[1]!r}) -> {got}"))
    return bad, stats


def _describe_diff(got, exp) -> str:
    if got[0] != exp[0]:
        return f"expected a {exp[0]}, got {got[0]} {str(got[1])[:80]}"
    gf = got[1] if got[0] in ("frames", "mframes") else [got[1]]
    ef = exp[1] if exp[0] in ("frames", "mframes") else [exp[1]]
    if len(gf) != len(ef):
        return f"{len(gf)} frames instead of {len(ef)}"
    for s, (a, b) in enumerate(zip(gf, ef)):
        if a["cols"] != b["cols"]:
            return f"frame {s}: columns {a['cols']} instead of {b['cols']}"
        if a["idx"] != b["idx"]:
            return f"frame {s}: index {[str(x) for x in a['idx']]} instead of {[str(x) for x in b['idx']]}"
        for r, (ra, rb) in enumerate(zip(a["rows"], b["rows"])):
            for c, (x, y) in enumerate(zip(ra, rb)):
                if x != y:
                    return (f"frame {s} row {r} (t={a['idx'][r]}) column {a['cols'][c]}: reported {'NaN' if x is None else x}, "
                            f"the model's value is {'NaN (not a flux of this sign here)' if y is None else y}")
        if len(a["rows"]) != len(b["rows"]):
            return f"frame {s}: {len(a['rows'])} rows instead of {len(b['rows'])}"
    return "outputs differ"


# ---------------------------------------------------------------------------------------
# (2) correspondence: Gallina literals
# ---------------------------------------------------------------------------------------


def name_ids(spec) -> dict[str, int]:
    ids = {"time": 0, "zz": 999}
    for i, n in enumerate(spec["vars"]):
        ids[n] = 1 + i
    for i, n in enumerate(spec["pars"]):
        ids[n] = 20 + i
    for _k, n, *_ in spec["comps"]:
        ids[n] = 40 + int(n[1:]) + (30 if n[0] == "r" else 0)
    for n, *_ in spec["ros"]:
        ids[n] = 100 + int(n[1:])
    return ids


def _cq(x) -> str:
    x = Fraction(x)
    return f"({x.numerator} # {x.denominator})"


def _cenv(d: dict, ids) -> str:
    return clist(f"({cn(ids[k])}, {cz(v)})" for k, v in d.items())


def _cnorm(nm) -> str:
    if nm is None:
        return "NNone"
    if nm[0] == "s":
        return f"(NScalar {_cq(Fraction(*nm[1]))})"
    return f"(NList {clist(_cq(Fraction(*x)) for x in nm[1])})"


def _cframe(f, ids) -> str:
    return (
        f"(mkFrame {clist(cz(common.exact_int(t)) for t in f['idx'])} {clist(cn(ids[c]) for c in f['cols'])} "
        f"{clist(clist(_cq(x) for x in row) for row in f['rows'])})"
    )


PROD_KIND = "PKFirst"  # set by check(): the regenerated fact decides which constructor the model answers with


def _cmframe(f, ids) -> str:
    cell = lambda x: "None" if x is None else f"(Some {_cq(x)})"  # noqa: E731
    return (
        f"(mkFrame {clist(cz(common.exact_int(t)) for t in f['idx'])} {clist(cn(ids[c]) for c in f['cols'])} "
        f"{clist(clist(cell(x) for x in row) for row in f['rows'])})"
    )


def _unmask(f):
    """a masked frame without NaN as a plain frame (the snapshot's bodies never mask); None if it has NaN"""
    if any(x is None for row in f["rows"] for x in row):
        return None
    return f


def _cout(o, ids) -> str:
    k = o[0]
    if k in ("mframe", "mframes"):
        fs = [o[1]] if k == "mframe" else o[1]
        if PROD_KIND == "PKFirst":
            plain = [_unmask(f) for f in fs]
            if any(f is None for f in plain):
                return "VOther"
            return f"VFrame {_cframe(plain[0], ids)}" if k == "mframe" else f"VFrames {clist(_cframe(f, ids) for f in plain)}"
        return f"VMFrame {_cmframe(fs[0], ids)}" if k == "mframe" else f"VMFrames {clist(_cmframe(f, ids) for f in fs)}"
    if k == "frame":
        return f"VFrame {_cframe(o[1], ids)}"
    if k == "frames":
        return f"VFrames {clist(_cframe(f, ids) for f in o[1])}"
    if k == "dict":
        return f"VDict {clist(f'({cn(ids[n])}, {_cq(v)})' for n, v in o[1])}"
    if k == "unit":
        return "VUnit"
    if k == "err" and o[1] in ("EKey", "EValue"):
        return f"VErr {o[1]}"
    if k == "err" and o[1] == "IndexError":
        return "VErr EIndex"
    return "VOther"


def _cop(op, ids) -> str:
    k = op[0]
    if k == "args":
        return f"OArgs (mkFlags {' '.join(cbool(x) for x in op[1])}) {cbool(op[2])} {_cnorm(op[3])}"
    if k == "vars":
        return f"OVars {cbool(op[1])} {cbool(op[2])} {cbool(op[3])} {cbool(op[4])} {_cnorm(op[5])}"
    if k == "fluxes":
        return f"OFluxes {cbool(op[1])} {_cnorm(op[2])} {cbool(op[3])}"
    if k == "rhs":
        return f"ORhs {_cnorm(op[1])} {cbool(op[2])}"
    if k in ("prod", "cons"):
        return f"{'OProducers' if k == 'prod' else 'OConsumers'} {cn(ids[op[1]])} {cbool(op[2])} {_cnorm(op[3])} {cbool(op[4])}"
    if k == "upd":
        return f"OUserUpd {cn(ids[op[1]])} {cz(op[2])}"
    return {"pvars": "OPropVariables", "pfluxes": "OPropFluxes", "combined": "OCombined", "y0": "ONewY0", "mpars": "OModelPars"}[k]


def coq_model(spec, order, ids) -> str:
    call = lambda fid, args: f"(mkCall {cn(fid)} {clist(cn(ids[a]) for a in args)})"  # noqa: E731
    coef = lambda c: f"CStat {cz(c)}" if isinstance(c, int) else f"CDyn {cn(c[0])} {clist(cn(ids[a]) for a in c[1])}"  # noqa: E731
    ders = clist(f"({cn(ids[n])}, {call(fid, args)})" for k, n, fid, args, _ in spec["comps"] if k == "d")
    rxns = clist(
        f"({cn(ids[n])}, mkRxn {call(fid, args)} {clist(f'({cn(ids[c])}, {coef(v)})' for c, v in st)})"
        for k, n, fid, args, st in spec["comps"] if k == "r"
    )
    ros = clist(f"({cn(ids[n])}, {call(fid, args)})" for n, fid, args in spec["ros"])
    return f"(mkModel {_cenv(spec['vars'], ids)} {ders} {rxns} {ros} {clist(cn(ids[n]) for n in order)})"


def coq_case(case, obs) -> str:
    ids = name_ids(case["spec"])
    segs = clist(clist(f"({cz(t)}, {clist(cz(v) for v in vals)})" for t, vals in seg) for seg in obs["segs"])
    pars = clist(_cenv(p, ids) for p in obs["pars"])
    return (
        f"({coq_model(case['spec'], obs['order'], ids)},\n   mkRes {segs} {pars},\n   {_cenv(obs['cur'], ids)},\n"
        f"   {clist(_cop(o, ids) for o in case['ops'])},\n   {clist(_cout(o, ids) for o in obs['outs'])})"
    )


def corr_file(cases: list[str]) -> str:
    defs = "\n".join(f"Definition case_{i} : case := {c}." for i, c in enumerate(cases))
    return (
        "From Coq Require Import QArith.\nFrom MxlBase Require Import ListX.\nFrom SimRes Require Import ResModel ResFn GenResFacts ResNv.\n"
        "Local Open Scope Z_scope.\n"
        "Definition case := (model * simres * env * list op * list out)%type.\n"
        + defs
        + "\nDefinition cases : list case := "
        + clist(f"case_{i}" for i in range(len(cases)))
        + ".\n"
        "Definition agree (c : case) : bool := match c with (m, r, cur, ops, outs) =>\n"
        "  (* wf_namesb: the name hypothesis of the N*v theorems holds for this model (C10_wf_names_checked) *)\n"
        "  wf_namesb m (List.map fst cur) && list_eqb out_eqb (run_ops fsemZ gen_res_facts m r ops (mkSt cur [])) outs end.\n"
        "Definition mismatches := filter_idx (fun c => negb (agree c)) cases.\n"
        "Eval vm_compute in mismatches.\n"
    )


# ---------------------------------------------------------------------------------------
# fixed cases: minimised past failures and the witnesses of the recorded defects
# ---------------------------------------------------------------------------------------

_SPEC2 = {
    "vars": {"x0": 1, "x1": 2},
    "pars": {"p0": 2, "p1": 1},
    "comps": [
        ["d", "d0", 2, ["p0", "p1"], []],
        ["d", "d1", 4, ["x0", "p0"], []],
        ["r", "r2", 4, ["x0", "d0"], [["x0", -1], ["x1", [0, ["p1"]]]]],
        ["r", "r3", 0, ["d1"], [["x1", 1], ["x0", 1]]],
    ],
    "ros": [["o0", 2, ["x0", "r2"]]],
}
CORPUS = [
    # per-row normalisation (defect #11 of DESIGN section 9): 3 segments, 6 rows, 6 factors
    {"kind": "corpus:per-row-normalise", "spec": _SPEC2,
     "result": {"mode": "sim", "script": [[{}, 2], [{"p0": 3}, 2], [{"p1": -1}, 1]]},
     "ops": [["fluxes", True, ["l", [[1, 1], [2, 1], [4, 1], [8, 1], [1, 1], [2, 1]]], True],
             ["args", [True, True, True, True, True, False, False, True], False, ["l", [[1, 1], [2, 1], [4, 1], [8, 1], [1, 1], [2, 1]]]],
             ["rhs", ["l", [[2, 1], [2, 1], [4, 1], [4, 1], [8, 1], [8, 1]]], True]]},
    # user edits the parameter after the run; every view must still use the segment's parameters
    {"kind": "corpus:user-edit", "spec": _SPEC2,
     "result": {"mode": "sim", "script": [[{}, 2], [{"p0": 3, "p1": 2}, 2]]},
     "ops": [["upd", "p0", -3], ["rhs", None, True], ["mpars"], ["upd", "p1", 3], ["pfluxes"], ["args", [True] * 8, True, None],
             ["rhs", None, False], ["prod", "x1", True, None, True], ["cons", "x0", True, ["s", [2, 1]], False], ["y0"], ["combined"]]},
]
CORPUS += [
    # seeded/C10-5: two segments report the same time point; a concatenated view must still be ALL rows, stacked in order
    {"kind": "corpus:shared-boundary-time", "spec": _SPEC2,
     "result": {"mode": "direct", "segs": [[[0, [1, 2]], [1, [2, 3]], [2, [3, 1]]], [[2, [3, 1]], [3, [0, 2]]], [[1, [2, 2]]]],
                "pars": [{"p0": 2, "p1": 1}, {"p0": 3, "p1": 1}, {"p0": 3, "p1": -1}]},
     "ops": [["pvars"], ["vars", False, False, False, True, None], ["fluxes", True, ["s", [2, 1]], True], ["rhs", None, True],
             ["args", [True] * 8, True, ["l", [[1, 1], [2, 1], [4, 1], [8, 1], [1, 1], [2, 1]]]], ["combined"], ["y0"],
             ["prod", "x1", True, None, True], ["cons", "x0", False, None, True], ["pfluxes"], ["rhs", None, False]]},
    # the same through the Simulator: time course, parameter change, run to steady state (twice)
    {"kind": "corpus:steady-state-twice", "spec": _SPEC2,
     "result": {"mode": "sim", "script": [[{}, 3], [{"p0": 3}, "ss"], [{"p1": -1}, "ss"]]},
     "ops": [["pvars"], ["pfluxes"], ["rhs", None, True], ["combined"], ["args", [True] * 8, True, None], ["y0"],
             ["cons", "x0", True, None, True], ["rhs", ["l", [[1, 1], [2, 1], [4, 1], [8, 1], [2, 1], [4, 1]]], True]]},
]
# witness of the known finding (producers/consumers decide the sign once, under segment 0)
FINDING_WITNESS = {
    "kind": "finding:prodcons-sign",
    "spec": {"vars": {"x0": 1}, "pars": {"p0": 1}, "comps": [["r", "r0", 0, ["x0"], [["x0", [0, ["p0"]]]]]], "ros": []},
    "result": {"mode": "sim", "script": [[{}, 1], [{"p0": -1}, 1]]},
    "ops": [["prod", "x0", False, None, False], ["cons", "x0", False, None, False]],
}


def finding_still_fails(case=FINDING_WITNESS) -> tuple[bool, str]:
    """segment 1 runs under p0=-1: r0 consumes x0 there, yet it is listed as a producer and not as a consumer"""
    obs = run_case_impl(case)
    if "error" in obs:
        return False, obs["error"]
    prod, cons = obs["outs"][0], obs["outs"][1]
    try:
        seg1 = prod[1][1]
        fails = prod[0] == "mframes" and "r0" in seg1["cols"] and seg1["rows"][0][seg1["cols"].index("r0")] is not None
    except Exception:  # noqa: BLE001
        fails = False
    return fails, f"producers(x0) segment 1 = {prod[1][1] if prod[0] == 'mframes' else prod}; coefficient of r0 there is p0=-1 (consumers: {cons[0]})"


# ---------------------------------------------------------------------------------------
# the check
# ---------------------------------------------------------------------------------------


def _seg_lens(result) -> list[int]:
    if result["mode"] == "sim":
        return [1 if n == "ss" else n + (1 if i == 0 else 0) for i, (_u, n) in enumerate(result["script"])]
    return [len(s) for s in result["segs"]]


def make_case(rng) -> dict:
    spec = gen_spec(rng)
    result = gen_result(rng, spec)
    return {"kind": result["mode"], "spec": spec, "result": result, "ops": gen_ops(rng, spec, _seg_lens(result))}


def make_shared_case(rng) -> dict:
    """a result with a time point reported by two segments, read (also) through concatenated views"""
    spec = gen_spec(rng)
    result = gen_result_shared(rng, spec)
    seg_lens = _seg_lens(result)
    ops = gen_ops(rng, spec, seg_lens)
    nm = gen_norm(rng, seg_lens)
    v = rng.choice(list(spec["vars"]))
    ops.insert(rng.randint(0, len(ops)), rng.choice([
        ["pvars"], ["pfluxes"], ["combined"], ["y0"], ["rhs", nm, True], ["fluxes", True, nm, True], ["vars", False, False, False, True, nm],
        ["args", [True] * 8, True, nm], ["vars", True, True, False, True, None], ["prod", v, True, None, True], ["cons", v, False, None, True],
    ]))
    return {"kind": "shared-time:" + result["mode"], "spec": spec, "result": result, "ops": ops}


def shares_a_time_point(segs) -> bool:
    seen: set = set()
    for seg in segs:
        ts = {t for t, _ in seg}
        if ts & seen:
            return True
        seen |= ts
    return False


def _is_concatenated(op) -> bool:
    k = op[0]
    return k in ("pvars", "pfluxes", "combined", "y0") or (k == "args" and op[2]) or (k == "vars" and op[4]) or (
        k == "fluxes" and op[3]) or (k == "rhs" and op[2]) or (k in ("prod", "cons") and op[4])


def expected_prod() -> str:
    """the switch coq/simres/ExpectedFacts.v (tools/c10_switch.py)"""
    import re

    try:
        m = re.search(r"Definition C10_expected_prod : prod_kind := (\w+)\.", (common.area_dir(AREA) / "ExpectedFacts.v").read_text())
    except OSError:
        return "missing"
    return m.group(1) if m else "unreadable"


def recorded_findings() -> dict:
    return {f.get("id"): f for f in common.load_known_findings("C10")}


def check(run: Run) -> None:
    global PROD_KIND  # noqa: PLW0603
    from harness import c10_assign

    thorough = run.tier == "thorough"
    facts = gen()
    run.coverage["gen_facts"] = facts
    PROD_KIND = facts["prod"]
    recorded = recorded_findings()
    full_prodcons = PRODCONS_FINDING not in recorded
    run.coverage["mode"] = {
        "expected_prod (switch coq/simres/ExpectedFacts.v)": expected_prod(),
        "regenerated prod": facts["prod"],
        "oracle judges producers/consumers by": "the property's per-row rule" if full_prodcons else
        "the rule shared by old and new bodies; reads inside the guard of the recorded finding are skipped",
        "assignment-defined parameters": "all cases judged" if c10_assign.FINDING not in recorded else
        "cases inside the guard of the recorded finding are excused",
    }
    run.rule = (
        "random models (1-3 variables, 1-3 parameters, derived parameters/variables, reactions with numeric, parameter-computed "
        "and state-computed coefficients, readouts; 30% declared out of dependency order), results of 1-4 segments built through "
        "the real Simulator with an exact integer integrator and parameter changes between segments (75%) or constructed directly "
        "with arbitrary integer states (25%), then 4-9 reads drawn from all view methods x flags x {no, scalar, per-segment, per-row, "
        "too long, too short} normalisation, interleaved with model.update_parameter; a case is non-trivial if it has >= 2 segments "
        "or a computed coefficient; distinct by content.  Own stream 'c10-shared-time' (70 quick / 360 thorough cases, same pipeline: "
        "oracle + Coq correspondence): results in which two segments report the SAME time point -- through the Simulator by runs to "
        "steady state after a time course / after another run to steady state (the exact integrator restarts at t0 like the shipped "
        "ones and reports one row), or constructed directly with a shared boundary point or a segment restarting at an earlier "
        "reported time -- each read at least once through a concatenated view.  Second stream (oracle only, harness/c10_assign.py): models in which some "
        "parameters are given by an initial assignment over other parameters, the definition (number / assignment) changing between "
        "segments and by user edits among the reads in 60% of the cases"
    )
    proofs_ok = run.check_proofs(AREA, PROPS)
    if run.broken_obligations and all(b.startswith("coqchk rejected") for b in run.broken_obligations):
        # thorough tier only: the independent checker re-reads every .vo of the area; a second process compiling in
        # coq/simres at the same moment (another `./check C10`, a --regen) hands it a half-written file (seen once:
        # "Type error" on files that coqc had just accepted and that coqchk accepts when run alone).  A genuine
        # rejection is deterministic: re-run the checker once on the quiescent files and keep that verdict.
        import time

        first = list(run.broken_obligations)
        run.broken_obligations.clear()
        time.sleep(3)
        run._coqchk(AREA, PROPS)  # noqa: SLF001
        proofs_ok = not run.broken_obligations
        run.note(f"coqchk was re-run once after: {first[0][:200]} -> {'accepted' if proofs_ok else 'rejected again'}")
    run.assumptions += [
        "Coq 8.16.1 kernel + vm_compute; Print Assumptions of every theorem is recorded in trusted_base",
        "fact extractor harness/c10.py::extract_facts (fail-closed comparison of normalised ASTs of the anchored functions)",
        "modelled, not verified: pandas frames as (index, columns, rows) with .loc/concat/division semantics; dicts as insertion-ordered "
        "association lists; CPython evaluation of rate functions as an arbitrary fsem (theorems) / harness/fnlib.py table (runs)",
        "the evaluation order cache.order is an input of the model (sorting is property C02); the model cache is a pure function of the "
        "model content (invalidation is property C03; update_parameter's decorator is pinned by rf_model_shape)",
        "'the model's values' in the theorems are what Model.get_args_time_course computes under the segment's parameters; that these "
        "are the resolved component values is checked by the oracle here and is the subject of C01/C13",
        "not modelled in Coq: surrogates, data, initial assignments (assignment-defined PARAMETERS are validated by the oracle stream "
        "harness/c10_assign.py only), duplicate time stamps INSIDE one segment (across segments they are generated and modelled: "
        "concat appends), zero normalisation factors, floating point",
        "hypothesis wf_names of the N*v theorems (unique names, 'time' protected = Model._insert_id) is evaluated to true in Coq on every "
        "generated model (wf_namesb, sound by C10_wf_names_checked)",
        "correspondence harness: literal printer, output canonicaliser, coqc output parser",
    ]

    rng = common.rng_for(run.seed, "c10")
    n_cases = 1600 if thorough else 260
    cases = [dict(c) for c in CORPUS] + [dict(FINDING_WITNESS)]
    while len(cases) < n_cases:
        cases.append(make_case(rng))
    # own stream (the main stream above is unchanged): results in which two segments report the same time point
    srng = common.rng_for(run.seed, "c10-shared-time")
    cases += [make_shared_case(srng) for _ in range(360 if thorough else 70)]

    dist: dict[str, int] = {}
    bump = lambda k, n=1: dist.__setitem__(k, dist.get(k, 0) + n)  # noqa: E731
    coq_cases: list[str] = []
    coq_index: list[int] = []
    n_viol = 0
    for ci, case in enumerate(cases):
        obs = run_case_impl(case)
        if "error" in obs:
            bump("discarded:" + obs["error"].split(":")[1].strip() if obs["error"].startswith("build") else "discarded:" + obs["error"])
            if obs["error"].startswith("timeout") and n_viol < 6:
                n_viol += 1
                run.violation(f"views of a finite result did not answer within 20 s: {obs['error']}", {"kind": "case", "case": case})
            continue
        try:
            bad, stats = oracle_case(case, obs, full_prodcons)
        except Discard as d:
            bump(f"discarded:{d}")
            continue
        nseg = len(obs["segs"])
        computed = any(not isinstance(c, int) for _k, _n, _f, _a, st in case["spec"]["comps"] for _cpd, c in st)
        run.count_case((case["spec"], case["result"], case["ops"]), nontrivial=nseg >= 2 or computed)
        bump(f"segments={nseg}")
        if shares_a_time_point(obs["segs"]):
            bump("time_point_reported_by_two_segments")
            if any(_is_concatenated(op) for op in case["ops"]):
                bump("time_point_reported_by_two_segments:read_concatenated")
        bump("mode=" + case["result"]["mode"])
        bump("computed_coefficient" if computed else "numeric_coefficients_only")
        for op, o in zip(case["ops"], obs["outs"]):
            bump("op:" + op[0])
            bump("out:" + (o[0] if o[0] != "err" else "err:" + str(o[1])))
            nm = op[3] if op[0] in ("args", "prod", "cons") else op[5] if op[0] == "vars" else op[2] if op[0] == "fluxes" else op[1] if op[0] == "rhs" else None
            if nm is not None:
                total = sum(len(s) for s in obs["segs"])
                bump("norm:" + ("scalar" if nm[0] == "s" else "per-segment" if len(nm[1]) == nseg else "per-row" if len(nm[1]) == total else "wrong-length"))
        for k, v in stats.items():
            bump("oracle:" + k, v)
        for j, what in bad:
            if n_viol < 6:
                n_viol += 1
                small = dict(case)
                small["ops"] = _shrink_ops(case, j, full_prodcons)
                run.violation(f"Simulation.{case['ops'][j][0]}: {what}", {"kind": "case", "case": small, "failing_op": case["ops"][j]})
        if ci < 4:
            run.sample({"case": case, "outs": [o[0] for o in obs["outs"]]})
        coq_cases.append(coq_case(case, obs))
        coq_index.append(ci)
    run.coverage["input_distribution"] = dict(sorted(dist.items()))

    # correspondence inside Coq
    per = 40
    files = {f"c10_{k:04d}": corr_file(chunk) for k, chunk in enumerate(common.chunks(coq_cases, per))}
    res = common.coq_eval_many(AREA, files, timeout_s=900)
    mism = 0
    for k, name in enumerate(sorted(files)):
        ok, out = res[name]
        lists = common.parse_eval_list(out) if ok else None
        if not ok or not lists:
            run.broken_correspondence.append(f"correspondence shard {name} did not evaluate: {out[-300:]}")
            continue
        for j in lists[-1]:
            mism += 1
            ci = coq_index[k * per + j]
            if len(run.broken_correspondence) < 5:
                run.broken_correspondence.append(f"model/implementation disagree on case #{ci}: {json.dumps(cases[ci], default=str)[:1500]}")
    run.coverage["traces_validated_against_impl"] = len(coq_cases) - mism
    run.coverage["correspondence_mismatches"] = mism

    # second stream: assignment-defined parameters (oracle only)
    arng = common.rng_for(run.seed, "c10-assign")
    acases = [dict(c10_assign.WITNESS)] + [c10_assign.gen_case(arng) for _ in range(300 if thorough else 70)]
    adist: dict[str, int] = {}
    abump = lambda k, n=1: adist.__setitem__(k, adist.get(k, 0) + n)  # noqa: E731
    for ai, case in enumerate(acases):
        obs = c10_assign.run_case(case)
        if "error" in obs:
            abump("discarded:" + obs["error"][:40])
            continue
        try:
            bad = c10_assign.oracle(case, obs)
        except Discard as d:
            abump(f"discarded:{d}")
            continue
        inside = c10_assign.inside_guard(case)
        run.count_case(("assign", case["spec"], case["defs"], case["script"], case["ops"]), nontrivial=True)
        abump("inside_guard" if inside else "outside_guard")
        abump(f"segments={len(obs['segs'])}")
        if bad and inside and c10_assign.FINDING in recorded:
            abump("excused_by_recorded_finding")
            continue
        for j, what in bad:
            if n_viol < 6:
                n_viol += 1
                run.violation(f"assignment-defined parameter, Simulation.{case['ops'][j][0]}: {what}",
                              {"kind": "assign-case", "case": case, "failing_op": case["ops"][j]})
        if ai < 2:
            run.sample({"assign_case": case, "outs": [o[0] for o in obs["outs"]]})
    run.coverage["assigned_parameter_stream"] = dict(sorted(adist.items()))

    # known findings: replay the witnesses
    if PRODCONS_FINDING in recorded:
        f = recorded[PRODCONS_FINDING]
        w = f.get("witness") or FINDING_WITNESS
        still, what = finding_still_fails(w if "spec" in w else FINDING_WITNESS)
        if still:
            run.known(f["id"], f.get("what_fails", what))
    if c10_assign.FINDING in recorded:
        f = recorded[c10_assign.FINDING]
        still, what = c10_assign.witness_still_fails()
        if still:
            run.known(f["id"], f.get("what_fails", what))
    if not proofs_ok:
        run.note("proof obligations broken; the oracle judged every generated read on the implementation (see violations)")


def _shrink_ops(case, j, full_prodcons=False) -> list:
    """keep the failing read (and the user edits before it): the property is per read"""
    keep = [op for op in case["ops"][:j] if op[0] == "upd"] + [case["ops"][j]]
    trial = dict(case)
    trial["ops"] = keep
    obs = run_case_impl(trial)
    if "error" not in obs:
        try:
            if oracle_case(trial, obs, full_prodcons)[0]:
                return keep
        except Discard:
            pass
    return case["ops"][: j + 1]


def replay(rep: dict) -> int:
    from harness import c10_assign

    r = rep["replay"]
    recorded = recorded_findings()
    if r.get("kind") == "assign-case":
        case = r["case"]
        obs = c10_assign.run_case(case)
        if "error" in obs:
            print("implementation:", obs["error"])
            return 1
        try:
            bad = c10_assign.oracle(case, obs)
        except Discard as d:
            print("case discarded by the oracle:", d)
            return 0
        for op, o in zip(case["ops"], obs["outs"]):
            print("read", op, "->", o[0], (o[1] if o[0] == "err" else ""))
        for j, what in bad:
            print(f"oracle: read #{j} {case['ops'][j][0]}: {what}")
        print("segment valuations (from the input):", c10_assign.segment_valuations(case))
        print("property", "VIOLATED" if bad else "holds on this input")
        return 1 if bad else 0
    if r.get("kind") != "case":
        print("nothing to replay:", rep.get("what"))
        return 1
    case = r["case"]
    full_prodcons = PRODCONS_FINDING not in recorded
    obs = run_case_impl(case)
    if "error" in obs:
        print("implementation:", obs["error"])
        return 1
    try:
        bad, stats = oracle_case(case, obs, full_prodcons)
    except Discard as d:
        print("case discarded by the oracle:", d)
        return 0
    for op, o in zip(case["ops"], obs["outs"]):
        print("read", op, "->", o[0], (o[1] if o[0] == "err" else ""))
    for j, what in bad:
        print(f"oracle: read #{j} {case['ops'][j][0]}: {what}")
    print("oracle stats:", stats, "| property", "VIOLATED" if bad else "holds on this input")
    return 1 if bad else 0
