"""C20 -- fail-closed extractors: /repo source -> coq/fit/GenLosses.v and coq/fit/GenFitFacts.v.

* `translate_losses`: every function of src/mxlpy/fit/losses.py is translated
  expression-for-expression into a Gallina definition that is polymorphic in the numeric carrier
  (`num_ops T`, coq/fit/LossOps.v).  Only the numpy vocabulary present today is recognised; anything
  else makes the function "untranslatable" (listed in `gen_untranslatable`, which
  `C20_losses_pinned` requires to be empty).
* `extract_fit_facts`: small facts of `_Settings` (abstract.py), the three residual functions and the
  three fit wrappers (routines.py) and `LocalScipyMinimizer.__call__` (_scipy.py) that the Coq model
  consults, plus digests of the normalised source of each modelled function (pinned in PropsC20.v).
"""

from __future__ import annotations

import ast
import hashlib
from fractions import Fraction
from pathlib import Path

from harness import common

AREA = "fit"


class Untranslatable(Exception):
    pass


# ---------------------------------------------------------------------------------------
# losses.py -> GenLosses.v
# ---------------------------------------------------------------------------------------

_ELEMENTWISE = {"square": "o_sq O", "abs": "o_abs O", "absolute": "o_abs O", "sqrt": "o_sqrt O", "log": "o_ln O"}
_BINOPS = {ast.Add: "o_add O", ast.Sub: "o_sub O", ast.Mult: "o_mul O", ast.Div: "o_div O"}


def _dotted(e: ast.AST) -> str | None:
    if isinstance(e, ast.Name):
        return e.id
    if isinstance(e, ast.Attribute):
        b = _dotted(e.value)
        return None if b is None else b + "." + e.attr
    return None


def _tr(e: ast.AST, alias: dict[str, str]) -> tuple[str, str]:
    """-> (kind, term); kind 'V' (vector: list T) or 'S' (scalar: T)."""
    if isinstance(e, ast.Name):
        if e.id in ("y_pred", "y_true"):
            return "V", e.id
        raise Untranslatable(f"name {e.id}")
    if isinstance(e, ast.Constant):
        v = e.value
        if isinstance(v, bool) or not isinstance(v, (int, float)):
            raise Untranslatable(f"constant {v!r}")
        fr = Fraction(str(v)) if isinstance(v, float) else Fraction(v)
        return "S", f"(o_ofQ O ({fr.numerator} # {fr.denominator}))"
    if isinstance(e, ast.UnaryOp) and isinstance(e.op, ast.USub):
        k, t = _tr(e.operand, alias)
        return (k, f"(o_opp O {t})") if k == "S" else (k, f"(vmap (o_opp O) {t})")
    if isinstance(e, ast.BinOp) and type(e.op) in _BINOPS:
        op = _BINOPS[type(e.op)]
        ka, ta = _tr(e.left, alias)
        kb, tb = _tr(e.right, alias)
        if ka == "V" and kb == "V":
            return "V", f"(vbin ({op}) {ta} {tb})"
        if ka == "V":
            return "V", f"(vbin_r ({op}) {ta} {tb})"
        if kb == "V":
            return "V", f"(vbin_l ({op}) {ta} {tb})"
        return "S", f"({op} {ta} {tb})"
    if isinstance(e, ast.Call) and not e.keywords:
        fn = _dotted(e.func)
        fn = alias.get(fn, fn) if fn else None
        if fn == "cast" and len(e.args) == 2 and _dotted(e.args[0]) == "float":
            return _tr(e.args[1], alias)
        if fn in ("np.mean", "np.sum") and len(e.args) == 1:
            k, t = _tr(e.args[0], alias)
            if k == "S":
                return "S", t  # mean / sum of a 0-d value is the value
            return "S", f"({'vmean' if fn == 'np.mean' else 'vsum'} O {t})"
        if fn and fn.startswith("np.") and fn[3:] in _ELEMENTWISE and len(e.args) == 1:
            f = _ELEMENTWISE[fn[3:]]
            k, t = _tr(e.args[0], alias)
            return (k, f"({f} {t})") if k == "S" else (k, f"(vmap ({f}) {t})")
        if fn == "np.linalg.norm" and len(e.args) == 2:
            o = e.args[1]
            if not (isinstance(o, ast.Constant) and o.value == 2 and not isinstance(o.value, bool)):
                raise Untranslatable("norm order")
            k, t = _tr(e.args[0], alias)
            if k != "V":
                raise Untranslatable("norm of scalar")
            return "S", f"(vnorm2 O {t})"
        raise Untranslatable(f"call {ast.unparse(e.func)}")
    raise Untranslatable(type(e).__name__)


def translate_loss_fn(fn: ast.FunctionDef) -> str:
    args = [a.arg for a in fn.args.args]
    if args != ["y_pred", "y_true"] or fn.args.vararg or fn.args.kwarg or fn.args.kwonlyargs or fn.args.defaults:
        raise Untranslatable(f"signature {args}")
    if fn.decorator_list:
        raise Untranslatable("decorated")
    body = [s for s in fn.body if not (isinstance(s, ast.Expr) and isinstance(s.value, ast.Constant) and isinstance(s.value.value, str))]
    alias: dict[str, str] = {}
    for s in body[:-1]:
        # only `name = <dotted numpy function>` aliases are understood
        if isinstance(s, ast.Assign) and len(s.targets) == 1 and isinstance(s.targets[0], ast.Name) and _dotted(s.value):
            alias[s.targets[0].id] = _dotted(s.value)  # type: ignore[assignment]
        else:
            raise Untranslatable("statement " + type(s).__name__)
    if not body or not isinstance(body[-1], ast.Return) or body[-1].value is None:
        raise Untranslatable("no return")
    k, t = _tr(body[-1].value, alias)
    if k != "S":
        raise Untranslatable("returns a vector")
    return t


def translate_losses() -> tuple[str, dict]:
    src = (common.REPO / "src/mxlpy/fit/losses.py").read_text()
    tree = ast.parse(src)
    exported: list[str] = []
    for n in tree.body:
        if isinstance(n, ast.Assign) and any(isinstance(t, ast.Name) and t.id == "__all__" for t in n.targets):
            try:
                exported = list(ast.literal_eval(n.value))
            except Exception:  # noqa: BLE001
                exported = ["<unreadable __all__>"]
    fns = [n for n in tree.body if isinstance(n, ast.FunctionDef)]
    bad: list[str] = []
    other = [type(n).__name__ for n in tree.body if isinstance(n, (ast.ClassDef, ast.AsyncFunctionDef))]
    bad += [f"<{o}>" for o in other]
    names = [f.name for f in fns]
    for x in sorted(set(exported) ^ set(names)):
        bad.append(f"export-mismatch:{x}")
    lines = [
        "(* REGENERATED from src/mxlpy/fit/losses.py by harness/c20_gen.py -- do not edit.",
        "   Each shipped loss, translated expression-for-expression; polymorphic in the numeric carrier. *)",
        "From Coq Require Import List ZArith QArith String.",
        "From Fit Require Import LossOps.",
        "Import ListNotations.",
        "Open Scope string_scope.",
        "Section GenLosses.",
        "  Context {T : Type} (O : num_ops T).",
    ]
    table = {}
    for f in sorted(fns, key=lambda f: f.name):
        try:
            t = translate_loss_fn(f)
            table[f.name] = t
        except Untranslatable as e:
            bad.append(f"{f.name}:{e}")
            t = "(o_zero O)"
            table[f.name] = "UNTRANSLATABLE"
        lines.append(f"  Definition loss_{f.name} (y_pred y_true : list T) : T := {t}.")
    lines.append(
        "  Definition gen_losses : list (string * (list T -> list T -> T)) := ["
        + "; ".join(f'("{n}", loss_{n})' for n in sorted(names))
        + "]."
    )
    lines.append("End GenLosses.")
    lines.append("Definition gen_untranslatable : list string := [" + "; ".join('"' + b.replace('"', "'") + '"' for b in bad) + "].")
    return "\n".join(lines) + "\n", {"losses": table, "untranslatable": bad}


# ---------------------------------------------------------------------------------------
# fit facts -> GenFitFacts.v
# ---------------------------------------------------------------------------------------


def _strip_doc(body: list[ast.stmt]) -> list[ast.stmt]:
    return [s for s in body if not (isinstance(s, ast.Expr) and isinstance(s.value, ast.Constant) and isinstance(s.value.value, str))]


def _digest(node: ast.AST | None) -> str:
    if node is None:
        return "missing"
    if isinstance(node, (ast.FunctionDef, ast.ClassDef)):
        txt = "\n".join(ast.unparse(s) for s in _strip_doc(node.body))
        if isinstance(node, ast.FunctionDef):
            # defaults matter (as_deepcopy=True, standard_scale=True, loss_fn=losses.rmse)
            a = node.args
            txt = (
                ",".join(x.arg for x in a.args + a.kwonlyargs)
                + "|"
                + ",".join(ast.unparse(d) for d in a.defaults)
                + "|"
                + ",".join("-" if d is None else ast.unparse(d) for d in a.kw_defaults)
                + "\n"
                + txt
            )
    else:
        txt = ast.unparse(node)
    return hashlib.sha256(txt.encode()).hexdigest()[:16]


def _find(tree: ast.AST, name: str, kind=ast.FunctionDef):
    for n in getattr(tree, "body", []):
        if isinstance(n, kind) and n.name == name:
            return n
    return None


def _arg_order(call: ast.AST | None, data_expr: str, pred_expr: str) -> str:
    if not isinstance(call, ast.Call) or ast.unparse(call.func) != "self.loss_fn" or call.keywords or len(call.args) != 2:
        return "ArgsUnknown"
    a, b = (ast.unparse(x).replace(" ", "") for x in call.args)
    if (a, b) == (data_expr, pred_expr):
        return "DataFirst"
    if (a, b) == (pred_expr, data_expr):
        return "PredFirst"
    return "ArgsUnknown"


def _settings_facts(tree: ast.AST) -> dict[str, str]:
    f = {"args_unscaled": "ArgsUnknown", "args_scaled": "ArgsUnknown", "scale_shape": "false"}
    cls = _find(tree, "_Settings", ast.ClassDef)
    if cls is None:
        return f
    meth = {n.name: n for n in cls.body if isinstance(n, ast.FunctionDef)}
    loss = meth.get("loss")
    if loss is not None:
        body = _strip_doc(loss.body)
        if (
            len(body) == 2
            and isinstance(body[0], ast.If)
            and ast.unparse(body[0].test) == "self.standard_scale"
            and len(body[0].body) == 1
            and not body[0].orelse
            and isinstance(body[0].body[0], ast.Return)
            and isinstance(body[1], ast.Return)
            and [a.arg for a in loss.args.args] == ["self", "prediction"]
        ):
            f["args_scaled"] = _arg_order(body[0].body[0].value, "self.data_scaled", "(prediction-self.mean)/self.scale")
            f["args_unscaled"] = _arg_order(body[1].value, "self.data", "prediction")

    def prop_is(name: str, expr: str) -> bool:
        m = meth.get(name)
        if m is None or [ast.unparse(d) for d in m.decorator_list] != ["cached_property"]:
            return False
        b = _strip_doc(m.body)
        return len(b) == 1 and isinstance(b[0], ast.Return) and b[0].value is not None and ast.unparse(b[0].value).replace(" ", "") == expr

    if prop_is("mean", "self.data.mean()") and prop_is("scale", "self.data.std()") and prop_is("data_scaled", "(self.data-self.mean)/self.scale"):
        f["scale_shape"] = "true"
    return f


_UPD = {
    "if (y0 := settings.y0) is not None:\n    model.update_variables(y0)": "UpdY0",
    "for p in settings.p_names:\n    model.update_parameter(p, updates[p])": "UpdPars",
    "for p in settings.v_names:\n    model.update_variable(p, updates[p])": "UpdVars",
}


def _residual_facts(fn: ast.FunctionDef | None, sim_call: str) -> dict[str, str]:
    """update phases in source order, column selection, value returned on a failed simulation."""
    out = {"order": "[]", "select": "SelUnknown", "fail": "FailUnknown", "sim": "false", "model": "false"}
    if fn is None or [a.arg for a in fn.args.args] != ["updates", "settings"]:
        return out
    body = _strip_doc(fn.body)
    order = []
    for s in body:
        u = _UPD.get(ast.unparse(s))
        if u:
            order.append(u)
    out["order"] = "[" + "; ".join(order) + "]"
    if body and ast.unparse(body[0]) == "model = settings.model":
        out["model"] = "true"
    txt = "\n".join(ast.unparse(s) for s in body)
    if sim_call in txt.replace(" ", "").replace("\n", ""):
        out["sim"] = "true"
    m = body[-1] if body else None
    if isinstance(m, ast.Match) and ast.unparse(m.subject) == "(val := res.value)" and len(m.cases) == 2:
        c0, c1 = m.cases
        if ast.unparse(c0.pattern) == "Simulation()" and len(c0.body) == 1 and isinstance(c0.body[0], ast.Return):
            r = ast.unparse(c0.body[0].value).replace(" ", "")
            if r == "settings.loss(val.get_combined().loc[:,cast(list,settings.data.index)])":
                out["select"] = "SelDataIndex"
            elif r == "settings.loss(val.get_combined().loc[:,cast(list,settings.data.columns)])":
                out["select"] = "SelDataColumns"
        if ast.unparse(c1.pattern) == "_" and len(c1.body) == 1 and isinstance(c1.body[0], ast.Return):
            if ast.unparse(c1.body[0].value).replace(" ", "") == "cast(float,np.inf)":
                out["fail"] = "FailInf"
    return out


def _wrapper_facts(fn: ast.FunctionDef | None, residual_name: str, extra_setting: str | None) -> dict[str, str]:
    out = {"copy_default": "false", "copy_guard": "false", "scale_default": "false", "routing": "false", "pack": "false",
           "default_loss": "none", "default_residual": "false", "pre_copy": "[]"}
    if fn is None:
        return out
    kw = {a.arg: (None if d is None else ast.unparse(d)) for a, d in zip(fn.args.kwonlyargs, fn.args.kw_defaults)}
    out["copy_default"] = "true" if kw.get("as_deepcopy") == "True" else "false"
    out["scale_default"] = "true" if kw.get("standard_scale") == "True" else "false"
    out["default_loss"] = (kw.get("loss_fn") or "none").replace("losses.", "")
    out["default_residual"] = "true" if kw.get("residual_fn") == residual_name else "false"
    body = _strip_doc(fn.body)
    # the copy guard, and what runs on the CALLER's object in front of it: nothing in the shipped code; the only
    # recognised statement is an early `model.update_variables(y0)` (modelled as the phase UpdY0); anything else
    # in front of the guard is an unrecognised shape (copy_guard = false)
    guard_at = next((i for i, st in enumerate(body) if ast.unparse(st) == "if as_deepcopy:\n    model = deepcopy(model)"), None)
    if guard_at is not None:
        pre = []
        for st in body[:guard_at]:
            if ast.unparse(st) in ("if y0 is not None:\n    model.update_variables(y0)", "if (y0 := y0) is not None:\n    model.update_variables(y0)"):
                pre.append("UpdY0")
            else:
                pre = None
                break
        if pre is not None:
            out["copy_guard"] = "true"
            out["pre_copy"] = "[" + "; ".join(pre) + "]"
    txt = "\n".join(ast.unparse(s) for s in body).replace(" ", "").replace("\n", "")
    settings = (
        "fn:MinimizerResidual=partial(residual_fn,settings=_Settings(model=model,data=data,y0=y0,integrator=integrator,"
        "loss_fn=loss_fn,p_names=[iforiinp0ifiinp_names],v_names=[iforiinp0ifiinv_names],"
        + (extra_setting or "")
        + "standard_scale=standard_scale))"
    )
    if (
        "p_names=model.get_parameter_names()" in txt
        and "v_names=model.get_variable_names()" in txt
        and settings in txt
    ):
        out["routing"] = "true"
    last = body[-1] if body else None
    if isinstance(last, ast.Match) and ast.unparse(last.subject).replace(" ", "") == "minimizer(fn,p0,{}ifboundsisNoneelsebounds).value":
        if len(last.cases) == 2:
            c0, c1 = last.cases
            if (
                ast.unparse(c0.pattern) == "OptimisationState(parameters, residual)"
                and len(c0.body) == 1
                and ast.unparse(c0.body[0]).replace(" ", "") == "returnResult(Fit(model=model,best_pars=parameters,loss=residual))"
                and ast.unparse(c1.pattern) == "_ as e"
                and len(c1.body) == 1
                and ast.unparse(c1.body[0]) == "return Result(e)"
            ):
                out["pack"] = "true"
    return out


def _scipy_facts(tree: ast.AST) -> dict[str, str]:
    out = {"lo": "(0 # 1)", "hi": "(0 # 1)", "call": "false", "pack": "false", "pack_updates": "false"}
    pu = _find(tree, "_pack_updates")
    if pu is not None:
        b = _strip_doc(pu.body)
        if len(b) == 1 and ast.unparse(b[0]).replace(" ", "").replace("\n", "") == "returndict(zip(par_names,par_values,strict=True))":
            out["pack_updates"] = "true"
    cls = _find(tree, "LocalScipyMinimizer", ast.ClassDef)
    if cls is None:
        return out
    call = next((n for n in cls.body if isinstance(n, ast.FunctionDef) and n.name == "__call__"), None)
    if call is None:
        return out
    body = _strip_doc(call.body)
    txt = "\n".join(ast.unparse(s) for s in body).replace(" ", "").replace("\n", "")
    for node in ast.walk(call):
        if isinstance(node, ast.Call) and ast.unparse(node.func) == "bounds.get" and len(node.args) == 2:
            d = node.args[1]
            if isinstance(d, ast.Tuple) and len(d.elts) == 2 and all(isinstance(x, ast.Constant) and isinstance(x.value, (int, float)) for x in d.elts):
                lo, hi = (Fraction(str(x.value)) for x in d.elts)  # type: ignore[union-attr]
                out["lo"] = f"({lo.numerator} # {lo.denominator})"
                out["hi"] = f"({hi.numerator} # {hi.denominator})"
    if (
        "par_names=list(p0.keys())" in txt
        and "minimize(lambdapar_values:residual_fn(_pack_updates(par_values,par_names)),x0=list(p0.values()),"
        "bounds=[bounds.get(name,(1e-06,1000000.0))fornameinp0],method=self.method,tol=self.tol)" in txt.replace("(1e-6,1e6)", "(1e-06,1000000.0)")
    ):
        out["call"] = "true"
    if (
        "ifres.success:returnResult(OptimisationState(parameters=dict(zip(p0,res.x,strict=True)),residual=res.fun))" in txt
        and txt.endswith("returnResult(FitFailure(extra_info=[res.message]))")
    ):
        out["pack"] = "true"
    return out


# the local methods of scipy.optimize.minimize that honour `bounds=` (SciPy 1.18; the others ignore the argument with a
# RuntimeWarning).  harness/c20.py validates this table against the installed SciPy on every run.
SCIPY_HONOURS_BOUNDS = frozenset({"Nelder-Mead", "Powell", "L-BFGS-B", "TNC", "COBYLA", "COBYQA", "SLSQP", "trust-constr"})

_CLIPPING_CALL_BODY = (
    "par_names=list(p0.keys())par_bounds=[bounds.get(name,(1e-06,1000000.0))fornameinp0]bounded=self.methodin_BOUNDED_LOCAL_METHODS"
    "res:OptimizeResult=minimize(lambdapar_values:residual_fn(_pack_updates(par_values,par_names)),x0=list(p0.values()),"
    "bounds=par_boundsifboundedelseNone,method=self.method,tol=self.tol)ifres.success:par_values=res.xifnotbounded:"
    "par_values=np.clip(par_values,[-np.infiflbisNoneelselbforlb,_inpar_bounds],[np.infifubisNoneelseubfor_,ubinpar_bounds])"
    "returnResult(OptimisationState(parameters=dict(zip(p0,par_values,strict=True)),residual=res.fun))"
    "LOGGER.warning('Minimisationfaileddueto%s',res.message)returnResult(FitFailure(extra_info=[res.message]))"
)


def _scipy_shape(tree: ast.AST, sc: dict[str, str]) -> tuple[str, str]:
    """What LocalScipyMinimizer.__call__ does with `self.method`: (bounds_arg, pack_x) of coq/fit/FitScipy.v.
    Shipped: the box is handed over for every method, res.x / res.fun are packed untouched (exactly when the two boolean
    facts `call` and `pack` hold).  Also recognised (so that the variant model runs against such a tree): the shape of
    seeded change C20-8 -- bounds only for the methods that honour them, np.clip of res.x otherwise.  Anything else: Unknown."""
    if sc["call"] == "true" and sc["pack"] == "true":
        return "BoundsAlways", "PackResX"
    cls = _find(tree, "LocalScipyMinimizer", ast.ClassDef)
    call = next((n for n in getattr(cls, "body", []) if isinstance(n, ast.FunctionDef) and n.name == "__call__"), None)
    if call is None:
        return "BoundsArgUnknown", "PackXUnknown"
    txt = "\n".join(ast.unparse(s) for s in _strip_doc(call.body)).replace(" ", "").replace("\n", "")
    table = None
    for n in getattr(tree, "body", []):
        if isinstance(n, ast.Assign) and len(n.targets) == 1 and ast.unparse(n.targets[0]) == "_BOUNDED_LOCAL_METHODS":
            try:
                v = n.value
                if isinstance(v, ast.Call) and ast.unparse(v.func) == "frozenset" and len(v.args) == 1:
                    table = frozenset(ast.literal_eval(v.args[0]))
            except Exception:  # noqa: BLE001
                table = None
    if txt == _CLIPPING_CALL_BODY and table == SCIPY_HONOURS_BOUNDS:
        return "BoundsIfHonoured", "PackClippedIfIgnored"
    return "BoundsArgUnknown", "PackXUnknown"


_CHECK_KNOWN = (
    "seen: set[str] = set()\nfor name in names:\n    if name not in container or (unique and name in seen):\n"
    "        msg = f'{name!r} not found in {ctx}'\n        raise KeyError(msg)\n    seen.add(name)"
)


def _batch_mode(tree: ast.AST, meth: str, arg: str, container: str) -> str:
    """Shape of the batch editor Model.<meth>: BatchFold = only the loop over the single-item editor; BatchValidated =
    `self._check_known_names(<arg>, self.<container>, ctx=..., unique=False)` (whose body must be the recognised
    all-names check raising KeyError) in front of that loop; anything else BatchUnknown."""
    cls = _find(tree, "Model", ast.ClassDef)
    if cls is None:
        return "BatchUnknown"
    fns = {n.name: n for n in cls.body if isinstance(n, ast.FunctionDef)}
    fn = fns.get(meth)
    if fn is None or [a.arg for a in fn.args.args] != ["self", arg]:
        return "BatchUnknown"
    body = _strip_doc(fn.body)
    if not body or ast.unparse(body[-1]) != "return self":
        return "BatchUnknown"
    body = body[:-1]
    single = meth[:-1]  # update_variable / update_parameter
    loop_ok = (
        len(body) >= 1
        and isinstance(body[-1], ast.For)
        and ast.unparse(body[-1].target) == "(k, v)"
        and ast.unparse(body[-1].iter) == f"{arg}.items()"
        and f"self.{single}(k, v)" in ast.unparse(body[-1])
    )
    if not loop_ok:
        return "BatchUnknown"
    if len(body) == 1:
        return "BatchFold"
    if len(body) == 2 and isinstance(body[0], ast.Expr) and isinstance(body[0].value, ast.Call):
        c = body[0].value
        kws = {k.arg: ast.unparse(k.value) for k in c.keywords}
        chk = fns.get("_check_known_names")
        if (
            ast.unparse(c.func) == "self._check_known_names"
            and [ast.unparse(a) for a in c.args] == [arg, f"self.{container}"]
            and kws.get("unique") == "False"
            and set(kws) == {"ctx", "unique"}
            and chk is not None
            and [a.arg for a in chk.args.args] == ["names", "container"]
            and "\n".join(ast.unparse(x) for x in _strip_doc(chk.body)) == _CHECK_KNOWN
        ):
            return "BatchValidated"
    return "BatchUnknown"


def extract_fit_facts() -> tuple[str, dict]:
    src = common.REPO / "src/mxlpy"
    t_abs = ast.parse((src / "fit/abstract.py").read_text())
    t_rou = ast.parse((src / "fit/routines.py").read_text())
    t_sci = ast.parse((src / "minimizers/_scipy.py").read_text())
    facts: dict = {}
    s = _settings_facts(t_abs)
    facts["settings"] = s
    res = {
        "steady": _residual_facts(_find(t_rou, "steady_state_residual"), "Simulator(model,integrator=settings.integrator).simulate_to_steady_state().get_result()"),
        "tc": _residual_facts(_find(t_rou, "time_course_residual"), "Simulator(model,integrator=settings.integrator).simulate_time_course(cast(list,settings.data.index)).get_result()"),
        "proto": _residual_facts(
            _find(t_rou, "protocol_time_course_residual"),
            "Simulator(model,integrator=settings.integrator).simulate_protocol_time_course(protocol=protocol,time_points=settings.data.index).get_result()",
        ),
    }
    facts["residual"] = res
    wr = {
        "steady": _wrapper_facts(_find(t_rou, "steady_state"), "steady_state_residual", None),
        "tc": _wrapper_facts(_find(t_rou, "time_course"), "time_course_residual", None),
        "proto": _wrapper_facts(_find(t_rou, "protocol_time_course"), "protocol_time_course_residual", "protocol=protocol,"),
    }
    facts["wrapper"] = wr
    sc = _scipy_facts(t_sci)
    facts["scipy"] = sc
    shape = _scipy_shape(t_sci, sc)
    facts["scipy_shape"] = {"bounds_arg": shape[0], "pack_x": shape[1]}
    t_mod = ast.parse((src / "model.py").read_text())
    bm = {"vars": _batch_mode(t_mod, "update_variables", "variables", "_variables"),
          "pars": _batch_mode(t_mod, "update_parameters", "parameters", "_parameters")}
    facts["batch_editors"] = bm
    cls = _find(t_abs, "_Settings", ast.ClassDef)
    digests = {
        "_Settings": _digest(cls),
        "steady_state_residual": _digest(_find(t_rou, "steady_state_residual")),
        "time_course_residual": _digest(_find(t_rou, "time_course_residual")),
        "protocol_time_course_residual": _digest(_find(t_rou, "protocol_time_course_residual")),
        "steady_state": _digest(_find(t_rou, "steady_state")),
        "time_course": _digest(_find(t_rou, "time_course")),
        "protocol_time_course": _digest(_find(t_rou, "protocol_time_course")),
        "_pack_updates": _digest(_find(t_sci, "_pack_updates")),
        "LocalScipyMinimizer.__call__": _digest(
            next((n for n in getattr(_find(t_sci, "LocalScipyMinimizer", ast.ClassDef), "body", []) if isinstance(n, ast.FunctionDef) and n.name == "__call__"), None)
        ),
    }
    facts["digests"] = digests

    def rfact(k: str) -> str:
        r = res[k]
        return f"mkResidualFacts {r['order']} {r['select']} {r['fail']} {r['model']} {r['sim']}"

    def wfact(k: str) -> str:
        w = wr[k]
        dl = {"rmse": "true"}.get(w["default_loss"], "false")
        return f"mkWrapperFacts {w['copy_default']} {w['copy_guard']} {w['scale_default']} {w['routing']} {w['pack']} {dl} {w['default_residual']} {w['pre_copy']}"

    text = (
        "(* REGENERATED from src/mxlpy/fit/abstract.py, fit/routines.py, minimizers/_scipy.py, model.py (batch editors) by harness/c20_gen.py\n"
        "   -- do not edit.  Unrecognised shapes yield *Unknown / false, which breaks C20_fit_facts_pinned. *)\n"
        "From Coq Require Import List QArith String.\nFrom Fit Require Import LossOps FitModel FitScipy.\nImport ListNotations.\nOpen Scope string_scope.\n"
        "Definition gen_fit_facts : fit_facts :=\n"
        f"  mkFitFacts {s['args_unscaled']} {s['args_scaled']} {s['scale_shape']}\n"
        f"    ({rfact('steady')})\n    ({rfact('tc')})\n    ({rfact('proto')})\n"
        f"    ({wfact('steady')})\n    ({wfact('tc')})\n    ({wfact('proto')})\n"
        f"    {sc['lo']} {sc['hi']} {sc['call']} {sc['pack']} {sc['pack_updates']} {bm['vars']} {bm['pars']}.\n"
        "(* what LocalScipyMinimizer.__call__ does with self.method: which methods get the box, how res.x is packed *)\n"
        f"Definition gen_scipy_shape : scipy_shape := mkScipyShape {shape[0]} {shape[1]}.\n"
        "Definition gen_source_digests : list (string * string) := [\n  "
        + ";\n  ".join(f'("{k}", "{v}")' for k, v in digests.items())
        + "].\n"
    )
    return text, facts


def gen() -> dict:
    ltxt, lfacts = translate_losses()
    common.write_if_changed(common.area_dir(AREA) / "GenLosses.v", ltxt)
    ftxt, ffacts = extract_fit_facts()
    common.write_if_changed(common.area_dir(AREA) / "GenFitFacts.v", ftxt)
    return {"losses": lfacts, "fit": ffacts}


if __name__ == "__main__":
    import json

    print(json.dumps(gen(), indent=1))
