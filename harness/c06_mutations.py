"""C06 mutation self-tests.  Run inside a scratch copy of /repo (cwd = copy root):

    MUTNAME=<name> tools/mutate.sh C06 /verif/harness/c06_mutations.py

Each mutation is an exact text edit of src/mxlpy/meta/source_tools.py (fails loudly when the text is not
found, so a stale mutation cannot pass as "caught").  `old-translator` splices the pre-cc17922
_handle_fn_body back in; the `seeded-*` entries apply the stored seeded patches (`seeded-c06-2` is re-based as a text
edit: its patch no longer applies since /repo 2ec86c1).
"""

from __future__ import annotations

import os
import subprocess
import sys
from pathlib import Path

SRC = Path("src/mxlpy/meta/source_tools.py")

COPY = "ctx.updated(symbols=dict(ctx.symbols))"

EDITS: dict[str, list[tuple[str, str]]] = {
    # ---- name resolution / lambdas (round-3 closing) ----
    # only the plain-name merge of _handle_call swapped (a module-level callable shadows the locally imported one)
    "fns-merge-swapped": [
        (
            "            fns = (\n                dict(inspect.getmembers(ctx.parent_module, predicate=callable))\n                | ctx.fns\n            )",
            "            fns = ctx.fns | dict(\n                inspect.getmembers(ctx.parent_module, predicate=callable)\n            )",
        )
    ],
    # only the merge of _handle_attribute swapped (module constants `consts.K` read from the module-level `consts`)
    "attr-merge-swapped": [
        (
            "    modules = (\n        dict(inspect.getmembers(ctx.parent_module, predicate=inspect.ismodule))\n        | ctx.modules\n    )\n    variables = vars(ctx.parent_module)",
            "    modules = ctx.modules | dict(\n        inspect.getmembers(ctx.parent_module, predicate=inspect.ismodule)\n    )\n    variables = vars(ctx.parent_module)",
        )
    ],
    # a function-local `import lib` is no longer recorded (the module-level binding of that name stays in force)
    "local-import-dropped": [("                ctx.modules[name] = importlib.import_module(name)", "                importlib.import_module(name)")],
    # a locally imported float constant is not bound (the module-level constant of the same name is read instead)
    "local-float-import-dropped": [("                if isinstance(el, float):\n                    ctx.symbols[name] = sympy.Float(el)\n                elif callable(el):", "                if isinstance(el, float):\n                    pass\n                elif callable(el):")],
    # lambdas supported by taking the LAST lambda of the source statement
    "lambda-last-of-statement": [
        (
            '    if not isinstance(fn_def := tree.body[0], ast.FunctionDef):\n        msg = "Not a function"\n        raise TypeError(msg)\n    return fn_def',
            '    if not isinstance(fn_def := tree.body[0], ast.FunctionDef):\n        lams = [n for n in ast.walk(tree) if isinstance(n, ast.Lambda)]\n'
            '        if getattr(fn, "__name__", None) != "<lambda>" or not lams:\n            msg = "Not a function"\n            raise TypeError(msg)\n'
            '        lam = lams[-1]\n        fn_def = ast.fix_missing_locations(ast.FunctionDef(name="_", args=lam.args, body=[ast.Return(value=lam.body)], decorator_list=[], type_params=[], lineno=1, col_offset=0))\n'
            "    return fn_def",
        )
    ],
    "drop-simultaneous": [("dict(zip(fn_args, model_args, strict=True)), simultaneous=True", "dict(zip(fn_args, model_args, strict=True))")],
    "struct-eq": [("comparisons.append(sympy.Eq(prev_value, right))", "comparisons.append(prev_value == right)")],
    "if-on-ctx": [(f"[*node.body, *remaining_body],\n                {COPY},", "[*node.body, *remaining_body],\n                ctx,")],
    "else-on-ctx": [(f"[*node.orelse, *remaining_body],\n                {COPY},", "[*node.orelse, *remaining_body],\n                ctx,")],
    "ge-as-gt": [("comparisons.append(prev_value >= right)", "comparisons.append(prev_value > right)")],
    "skip-unknown-stmt": [
        (
            '            msg = f"Statement type {type(node).__name__} not implemented"\n            raise NotImplementedError(msg)',
            '            _LOGGER.debug("Skipping node of type %s", type(node))',
        )
    ],
    "tuple-seq": [
        (
            "                values = [_handle_expr(value, ctx) for value in node.value.elts]\n"
            "                if any(value is None for value in values):\n"
            "                    return None\n"
            "                for target, value in zip(target_elements, values, strict=True):\n"
            "                    ctx.symbols[cast(ast.Name, target).id] = cast(sympy.Expr, value)",
            "                for target, value_expr in zip(target_elements, node.value.elts, strict=True):\n"
            "                    value = _handle_expr(value_expr, ctx)\n"
            "                    if value is None:\n"
            "                        return None\n"
            "                    ctx.symbols[cast(ast.Name, target).id] = value",
        )
    ],
    "drop-continuation": [("[*node.body, *remaining_body],", "[*node.body],")],
    "floordiv-as-div": [("            return left // right", "            return left / right")],
    # constants of ATTRIBUTE lookups remembered per module (only _handle_attribute; _handle_name untouched)
    "attr-memo": [
        (
            "    element = dict(\n        inspect.getmembers(\n            module,\n            predicate=lambda x: isinstance(x, float),\n        )\n    ).get(name)",
            "    element = _ATTR_MEMO.setdefault(\n        module.__name__,\n        dict(inspect.getmembers(module, predicate=lambda x: isinstance(x, float))),\n    ).get(name)",
        ),
        ("def _handle_attribute(node: ast.Attribute, ctx: Context)", "_ATTR_MEMO: dict[str, dict[str, float]] = {}\n\n\ndef _handle_attribute(node: ast.Attribute, ctx: Context)"),
    ],
    # the global fallback of _handle_name reads the defining function's snapshot taken at import of source_tools
    "name-memo": [
        (
            "        global_variables = dict(\n            inspect.getmembers(\n                ctx.parent_module,\n                predicate=lambda x: isinstance(x, float),\n            )\n        )",
            "        global_variables = _NAME_MEMO.setdefault(\n            id(ctx.parent_module),\n            dict(inspect.getmembers(ctx.parent_module, predicate=lambda x: isinstance(x, float))),\n        )",
        ),
        ("def _handle_name(node: ast.Name, ctx: Context)", "_NAME_MEMO: dict[int, dict[str, float]] = {}\n\n\ndef _handle_name(node: ast.Name, ctx: Context)"),
    ],
    # seeded C06-2 re-based onto the text after /repo 2ec86c1 (the stored patch no longer applies): simultaneous
    # substitution only when a bare model name collides with a parameter name
    "seeded-c06-2": [
        (
            "            sympy_expr = sympy_expr.subs(\n                dict(zip(fn_args, model_args, strict=True)), simultaneous=True\n            )",
            "            replacements = dict(zip(fn_args, model_args, strict=True))\n"
            "            collides = any(\n"
            "                str(new) in replacements and str(new) != old\n"
            "                for old, new in replacements.items()\n"
            "            )\n"
            "            sympy_expr = sympy_expr.subs(replacements, simultaneous=collides)",
        )
    ],
    # harmless refactor: an extra debug line inside the If block (only the shape text changes)
    "harmless-debug-line": [("            condition = _handle_expr(node.test, ctx)\n", '            condition = _handle_expr(node.test, ctx)\n            _LOGGER.debug("if %s", condition)\n')],
}

PATCHES = {
    "seeded-c06-1": "/verif/seeded/C06-1/patch.diff", "seeded-c06-3": "/verif/seeded/C06-3/patch.diff", "seeded-c07-2": "/verif/seeded/C07-2/patch.diff",
    "seeded-c06-5": "/verif/seeded/C06-5/patch.diff", "seeded-c06-6": "/verif/seeded/C06-6/patch.diff", "seeded-c06-7": "/verif/seeded/C06-7/patch.diff",
    "seeded-c06-8": "/verif/seeded/C06-8/patch.diff", "seeded-c06-9": "/verif/seeded/C06-9/patch.diff", "seeded-c06-10": "/verif/seeded/C06-10/patch.diff",
}


def old_translator() -> None:
    """splice the _handle_fn_body of cc17922^ (pieces list, one table, dropped code) into the current file"""
    old = subprocess.run(["git", "-C", "/repo", "show", "cc17922^:" + str(SRC)], capture_output=True, text=True, check=True).stdout
    cur = SRC.read_text()

    def cut(text: str) -> tuple[int, int]:
        a = text.index("def _handle_fn_body(")
        b = text.index("def _handle_expr(")
        return a, b

    a0, b0 = cut(old)
    a1, b1 = cut(cur)
    SRC.write_text(cur[:a1] + old[a0:b0] + cur[b1:])


def main() -> int:
    name = os.environ.get("MUTNAME", "")
    if name == "old-translator":
        old_translator()
        return 0
    if name in PATCHES:
        return subprocess.run(["patch", "-p1", "-s", "-i", PATCHES[name]], check=False).returncode
    if name not in EDITS:
        print("unknown MUTNAME; known:", ", ".join(sorted([*EDITS, *PATCHES, "old-translator"])))
        return 2
    s = SRC.read_text()
    for old, new in EDITS[name]:
        if s.count(old) < 1:
            print(f"mutation {name}: text not found: {old[:60]!r}")
            return 2
        s = s.replace(old, new, 1)
    SRC.write_text(s)
    return 0


if __name__ == "__main__":
    sys.exit(main())
