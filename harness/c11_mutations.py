"""Mutations of the translator's view of the defining module (C11 third pass; development self-test).

Two ways to use it:
  * as a mutation file of tools/mutate.sh (cwd = scratch copy of /repo):   MUTNAME=<name> tools/mutate.sh C11 /verif/harness/c11_mutations.py
  * own runner (touches only C11's generated facts; use this while other engineers work on other areas):
        python3 harness/c11_mutations.py run N1 N2 S1 S2 S3
    copies /repo to /var/tmp/mxlpy-C11-mut, applies the mutation, runs ./check C11 against the copy, prints the verdict lines,
    removes the copy and regenerates coq/mxlgen/GenMxlGenFacts.v from /repo at the end.

  N1  _handle_name looks the FLOATS of the module up first (seeded C11-8 without the int support)
  N2  _handle_name: parameters win, ASSIGNED local variables lose against a module-level float (symbols consulted first only
      for the function's parameters)
  S1  hand-written memo of the module's callables in _handle_call (no functools: a module-level dict keyed by module name)
  S2  memo of the module's float constants in _handle_name (a rebound module-level NUMBER keeps its first value)
  S3  functools.lru_cache on the scan of callables only (half of seeded C11-7)
"""
import os
import subprocess
import sys

ST = "src/mxlpy/meta/source_tools.py"
HN_OLD = (
    "    value = ctx.symbols.get(node.id)\n"
    "    if value is None:\n"
    "        global_variables = dict(\n"
    "            inspect.getmembers(\n"
    "                ctx.parent_module,\n"
    "                predicate=lambda x: isinstance(x, float),\n"
    "            )\n"
    "        )\n"
    "        value = sympy.Float(global_variables[node.id])\n"
    "    return value\n"
)
CALL_OLD = (
    "            fns = (\n"
    "                dict(inspect.getmembers(ctx.parent_module, predicate=callable))\n"
    "                | ctx.fns\n"
    "            )\n"
)
M = {
    "N1": [(ST, HN_OLD,
            "    global_variables = dict(\n        inspect.getmembers(\n            ctx.parent_module,\n"
            "            predicate=lambda x: isinstance(x, float),\n        )\n    )\n"
            "    if node.id in global_variables:\n        return sympy.Float(global_variables[node.id])\n"
            "    return ctx.symbols[node.id]\n")],
    "N2": [(ST, HN_OLD,
            "    params = [str(a.arg) for a in get_fn_ast(ctx.caller).args.args]\n"
            "    value = ctx.symbols.get(node.id) if node.id in params else None\n"
            "    if value is None:\n"
            "        global_variables = dict(\n            inspect.getmembers(\n                ctx.parent_module,\n"
            "                predicate=lambda x: isinstance(x, float),\n            )\n        )\n"
            "        value = (\n            sympy.Float(global_variables[node.id])\n            if node.id in global_variables\n"
            "            else ctx.symbols[node.id]\n        )\n"
            "    return value\n")],
    "S1": [(ST, CALL_OLD,
            "            key = getattr(ctx.parent_module, \"__name__\", None)\n"
            "            if key not in _CALLABLES:\n"
            "                _CALLABLES[key] = dict(\n                    inspect.getmembers(ctx.parent_module, predicate=callable)\n                )\n"
            "            fns = _CALLABLES[key] | ctx.fns\n"),
           (ST, "def _handle_name(", "_CALLABLES: dict = {}\n\n\ndef _handle_name(")],
    "S2": [(ST, HN_OLD,
            "    value = ctx.symbols.get(node.id)\n"
            "    if value is None:\n"
            "        key = getattr(ctx.parent_module, \"__name__\", None)\n"
            "        if key not in _FLOATS:\n"
            "            _FLOATS[key] = dict(\n                inspect.getmembers(\n                    ctx.parent_module,\n"
            "                    predicate=lambda x: isinstance(x, float),\n                )\n            )\n"
            "        value = sympy.Float(_FLOATS[key][node.id])\n"
            "    return value\n"),
           (ST, "def _handle_name(", "_FLOATS: dict = {}\n\n\ndef _handle_name(")],
    "S3": [(ST, CALL_OLD, "            fns = _callables_of(ctx.parent_module) | ctx.fns\n"),
           (ST, "def _handle_name(",
            "@functools.lru_cache(maxsize=None)\ndef _callables_of(module: ModuleType | None) -> dict:\n"
            "    return dict(inspect.getmembers(module, predicate=callable))\n\n\ndef _handle_name("),
           (ST, "import importlib\n", "import functools\nimport importlib\n")],
}


def apply(name: str, root: str = ".") -> None:
    for path, old, new in M[name]:
        p = os.path.join(root, path)
        s = open(p).read()
        if s.count(old) != 1:
            sys.exit(f"mutation {name}: anchor not found exactly once in {path}")
        open(p, "w").write(s.replace(old, new))


def run(names: list[str]) -> None:
    d = "/var/tmp/mxlpy-C11-mut"
    for name in names:
        subprocess.run(["rm", "-rf", d], check=True)
        os.makedirs(d)
        subprocess.run(["rsync", "-a", "--exclude", ".git", "--exclude", "docs", "--exclude", "publication-figures", "/repo/", d + "/"], check=True)
        apply(name, d)
        env = dict(os.environ, MXLPY_VERIF_REPO=d)
        out = subprocess.run(["/verif/check", "C11"], env=env, capture_output=True, text=True).stdout
        lines = [l[:330] for l in out.splitlines() if l.startswith(("VIOLATION", "[C11] round trip", "[C11] tier=", "[C11] proof obligation"))]
        concrete = any(l.startswith("VIOLATION") and "no-failing-input-found" not in l for l in lines)
        print(f"=== {name}: {'caught concrete' if concrete else 'NOT caught with a concrete input'}")
        print("\n".join(lines[:7]), flush=True)
        subprocess.run(["rm", "-rf", d], check=True)
    subprocess.run(
        ["/venv/bin/python", "-c", "from harness import c11; c11.gen()"],
        cwd="/verif", env=dict(os.environ, MXLPY_VERIF_REPO="/repo", PYTHONPATH="/repo/src:/verif"), check=False,
    )


if __name__ == "__main__":
    if len(sys.argv) > 2 and sys.argv[1] == "run":
        run(sys.argv[2:])
    else:
        apply(os.environ.get("MUTNAME", "N1"))
