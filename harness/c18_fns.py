"""Rate laws for the C18 check (a real module: instances must be picklable for pebble workers)."""

from __future__ import annotations


class PowerLaw:
    """v = prod_i arg_i ** order_i, by repeated multiplication starting from 1.0.

    On dyadic inputs with few mantissa bits every intermediate is exact in binary64, so the
    implementation's elasticities can be compared EXACTLY with the Q-valued Gallina model
    (`pl_fluxes` in coq/mca/Mca.v).  `*args` makes mxlpy's arity check give up (returns True)."""

    def __init__(self, orders):
        self.orders = tuple(int(n) for n in orders)

    def __call__(self, *args):
        v = 1.0
        for x, n in zip(args, self.orders, strict=True):
            for _ in range(n):
                v = v * x
        return v

    def __repr__(self) -> str:
        return f"PowerLaw{self.orders}"


class PowerQuot:
    """v = (prod_i num_i ** n_i) / (prod_j den_j ** m_j): the numerator by repeated multiplication from 1.0, then the
    denominator likewise, then ONE division (4th pass: parameters computed from other parameters, kr = kf / keq).  The
    arguments are the numerator arguments followed by the denominator arguments."""

    def __init__(self, num_orders, den_orders):
        self.num_orders = tuple(int(n) for n in num_orders)
        self.den_orders = tuple(int(n) for n in den_orders)

    def __call__(self, *args):
        k = len(self.num_orders)
        u = 1.0
        for x, n in zip(args[:k], self.num_orders, strict=True):
            for _ in range(n):
                u = u * x
        if not self.den_orders:
            return u
        w = 1.0
        for x, n in zip(args[k:], self.den_orders, strict=True):
            for _ in range(n):
                w = w * x
        return u / w

    def __repr__(self) -> str:
        return f"PowerQuot{self.num_orders}/{self.den_orders}"
