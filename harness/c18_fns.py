"""Rate laws for the C18 check (a real module: instances must be picklable for pebble workers)."""

from __future__ import annotations


class PowerLaw:
    """v = prod_i arg_i ** order_i, by repeated multiplication starting from 1.0.

    On dyadic inputs with few mantissa bits every intermediate is exact in binary64, so the
    implementation's elasticities can be compared EXACTLY with the Q-valued Gallina model
    (`pl_fluxes` in coq/mca/Mca.v).  `*args` makes mxlpy's arity check give up (returns True)."""

    def __init__(self, orders):
        self.orders = tuple(int(n) for n in orders)

    def __call__(self, *args):
        v = 1.0
        for x, n in zip(args, self.orders, strict=True):
            for _ in range(n):
                v = v * x
        return v

    def __repr__(self) -> str:
        return f"PowerLaw{self.orders}"
